"""Independent reference for the Chebyshev / cardinal algebra that WallGo's ``Polynomial`` and
``Grid`` classes implement.  Built ONLY on numpy and numpy.polynomial.chebyshev - no WallGo code,
no scipy.special.

Conventions (read off WallGo's docstrings, re-derived here):

* Gauss-Lobatto nodes of order n:  x_k = -cos(pi k / n), k = 0..n   (increasing from -1 to 1).
* direction 'z'  : n = M,    kept nodes k = 1..M-1   (endpoints=False)  or 0..M   (True)
  direction 'pz' : n = N,    kept nodes k = 1..N-1                     or 0..N
  direction 'pp' : n = N-1,  kept nodes k = 0..N-2  (only +1 dropped)  or 0..N-1
* cardinal basis  C_j : the Lagrange polynomial of degree n on ALL n+1 nodes, C_j(x_k) = delta_jk;
  a coefficient vector lists the kept j only (the function vanishes at dropped nodes).
* Chebyshev basis : endpoints=True  -> T_0..T_n
                    'z','pz' False  -> T_m - T_(m mod 2), m = 2..n      ("full": zero at x = -1, +1)
                    'pp'     False  -> T_m - 1,           m = 1..n      ("partial": zero at x = +1)

Everything is reduced to plain Chebyshev series ("T-series", numpy coefficient order) through the
closed-form discrete Chebyshev transform on Lobatto nodes

    t_m = 2/(n cbar_m) * sum_j  T_m(x_j) v_j / cbar_j ,   cbar_0 = cbar_n = 2, else 1,

so no matrix is ever inverted by the reference.
"""
from __future__ import annotations

import numpy as np
from numpy.polynomial import chebyshev as C

EPS = 2.0 ** -52
DIRECTIONS = ("z", "pz", "pp")
BASES = ("Cardinal", "Chebyshev")


# ---------------------------------------------------------------------------
# nodes and quadrature
# ---------------------------------------------------------------------------
def lobatto_nodes(n: int) -> np.ndarray:
    """x_k = -cos(pi k/n), k=0..n, evaluated in the symmetric form sin(pi (2k-n)/(2n))."""
    k = np.arange(n + 1)
    return np.sin(np.pi * (2 * k - n) / (2.0 * n))


def lobatto_weights(n: int) -> np.ndarray:
    """Gauss-Chebyshev-Lobatto weights:  int_-1^1 f(x)/sqrt(1-x^2) dx = sum_k w_k f(x_k),
    exact for polynomials f of degree <= 2n-1."""
    w = np.full(n + 1, np.pi / n)
    w[0] *= 0.5
    w[-1] *= 0.5
    return w


def order_of(direction: str, M: int, N: int) -> int:
    return {"z": M, "pz": N, "pp": N - 1}[direction]


# ---------------------------------------------------------------------------
# T-series helpers
# ---------------------------------------------------------------------------
def tval(x, t):
    """Value of the T-series t at x (array)."""
    return C.chebval(np.asarray(x, dtype=float), np.asarray(t, dtype=float))


def tder(t):
    t = np.asarray(t, dtype=float)
    if t.size <= 1:
        return np.zeros(1)
    return C.chebder(t)


def tmul(a, b):
    return C.chebmul(np.asarray(a, dtype=float), np.asarray(b, dtype=float))


def tdeg(t, tol=0.0):
    t = np.asarray(t, dtype=float)
    nz = np.nonzero(np.abs(t) > tol)[0]
    return int(nz[-1]) if nz.size else 0


def t_from_power(p):
    """Power-series coefficients (lowest first) -> T-series."""
    return C.poly2cheb(np.asarray(p, dtype=float))


def int_cheb_weight(t) -> float:
    """int_-1^1 P(x)/sqrt(1-x^2) dx  =  pi * t_0."""
    return float(np.pi * np.asarray(t, dtype=float)[0])


T_ONE_MINUS_X2 = np.array([0.5, 0.0, -0.5])  # 1 - x^2 = (T0 - T2)/2
T_ONE_PLUS_X = np.array([1.0, 1.0])
T_ONE_MINUS_X = np.array([1.0, -1.0])


def int_plain(t) -> float:
    """int_-1^1 P(x) dx for a T-series (int T_m = 2/(1-m^2) for even m, 0 for odd m)."""
    t = np.asarray(t, dtype=float)
    m = np.arange(t.size)
    w = np.where(m % 2 == 0, 2.0 / (1.0 - m.astype(float) ** 2), 0.0)
    return float(np.dot(w, t))


# ---------------------------------------------------------------------------
# one polynomial axis
# ---------------------------------------------------------------------------
class Axis:
    """Reference description of one polynomial axis of a WallGo ``Polynomial``."""

    def __init__(self, direction: str, M: int, N: int, endpoints: bool):
        assert direction in DIRECTIONS
        self.direction = direction
        self.endpoints = bool(endpoints)
        self.n = n = order_of(direction, M, N)
        self.full = lobatto_nodes(n)
        if endpoints:
            self.keep = np.arange(n + 1)
            self.restriction = None
            self.degrees = np.arange(n + 1)
        elif direction in ("z", "pz"):
            self.keep = np.arange(1, n)
            self.restriction = "full"
            self.degrees = np.arange(2, n + 1)
        else:
            self.keep = np.arange(0, n)
            self.restriction = "partial"
            self.degrees = np.arange(1, n + 1)
        self.size = int(self.keep.size)
        self.nodes = self.full[self.keep]
        assert self.degrees.size == self.size

    # -- discrete Chebyshev transform -----------------------------------------
    def dct(self) -> np.ndarray:
        """A[m, j]: T-coefficient m of the degree-n interpolant of unit data at full node j."""
        n = self.n
        cbar = np.ones(n + 1)
        cbar[0] = cbar[-1] = 2.0
        V = C.chebvander(self.full, n)  # V[j, m] = T_m(x_j)
        return (2.0 / n) * (V.T / cbar[:, None]) / cbar[None, :]

    def card_T(self) -> np.ndarray:
        """K[k, m]: T-coefficients of the k-th kept cardinal function."""
        return self.dct()[:, self.keep].T.copy()

    def restr_T(self) -> np.ndarray:
        """R[k, m]: T-coefficients of the k-th (restricted) Chebyshev basis function."""
        R = np.zeros((self.size, self.n + 1))
        for k, d in enumerate(self.degrees):
            R[k, d] += 1.0
            if self.restriction == "full":
                R[k, d % 2] -= 1.0
            elif self.restriction == "partial":
                R[k, 0] -= 1.0
        return R

    def basis_T(self, basis: str) -> np.ndarray:
        if basis == "Cardinal":
            return self.card_T()
        if basis == "Chebyshev":
            return self.restr_T()
        raise ValueError(basis)

    # -- operators as matrices acting on coefficient vectors ---------------------
    def to_T(self, coeffs, basis: str) -> np.ndarray:
        return np.asarray(coeffs, dtype=float) @ self.basis_T(basis)

    def eval_matrix(self, x, basis: str) -> np.ndarray:
        """E[p, k] = basis_k(x_p)."""
        x = np.atleast_1d(np.asarray(x, dtype=float))
        return C.chebvander(x, self.n) @ self.basis_T(basis).T

    def node_matrix(self, basis: str) -> np.ndarray:
        """M[i, k] = basis_k(kept node i)  (WallGo: Polynomial.matrix)."""
        return self.eval_matrix(self.nodes, basis)

    def deriv_matrix(self, basis: str, order: int = 1) -> np.ndarray:
        """D[i, k] = (d/dx)^order basis_k at FULL node i (i = 0..n), shape (n+1, size)
        (WallGo: Polynomial.derivMatrix for order 1)."""
        B = self.basis_T(basis)
        out = np.empty((self.n + 1, self.size))
        for k in range(self.size):
            t = B[k]
            for _ in range(order):
                t = tder(t)
            out[:, k] = tval(self.full, t)
        return out

    def eval_deriv_matrix(self, x, basis: str, order: int = 1) -> np.ndarray:
        """E[p, k] = (d/dx)^order basis_k (x_p) at arbitrary points."""
        x = np.atleast_1d(np.asarray(x, dtype=float))
        B = self.basis_T(basis)
        out = np.empty((x.size, self.size))
        for k in range(self.size):
            t = B[k]
            for _ in range(order):
                t = tder(t)
            out[:, k] = tval(x, t)
        return out

    def change_matrix(self, old: str, new: str) -> np.ndarray:
        """G with  new_coeffs = G @ old_coeffs."""
        if old == new:
            return np.eye(self.size)
        if old == "Cardinal" and new == "Chebyshev":
            # T-coefficients of the interpolant; restricted coefficient of degree d is t_d
            return self.dct()[self.degrees][:, self.keep].copy()
        if old == "Chebyshev" and new == "Cardinal":
            return self.node_matrix("Chebyshev")
        raise ValueError((old, new))

    def is_admissible_T(self, t, tol) -> bool:
        """Does the T-series lie in this axis' space (degree <= n, zero at dropped nodes)?"""
        t = np.asarray(t, dtype=float)
        if tdeg(t) > self.n:
            return False
        if self.restriction == "full":
            return abs(tval(1.0, t)) <= tol and abs(tval(-1.0, t)) <= tol
        if self.restriction == "partial":
            return abs(tval(1.0, t)) <= tol
        return True

    def coeffs_from_T(self, t, basis: str) -> np.ndarray:
        """Coefficients of an admissible T-series in the requested basis."""
        t = np.zeros(self.n + 1) + np.pad(np.asarray(t, dtype=float), (0, max(0, self.n + 1 - len(t))))[: self.n + 1]
        if basis == "Cardinal":
            return tval(self.nodes, t)
        return t[self.degrees].copy()

    def quad_weights(self) -> np.ndarray:
        """GCL weights at the kept nodes (for integrands f/sqrt(1-x^2))."""
        return lobatto_weights(self.n)[self.keep]


def apply_along(mat: np.ndarray, arr: np.ndarray, axis: int) -> np.ndarray:
    """Contract mat[a, b] with arr[..., b, ...] along ``axis``; the new index a stays at ``axis``."""
    return np.moveaxis(np.tensordot(mat, arr, axes=(1, axis)), 0, axis)


# ---------------------------------------------------------------------------
# momentum compactification (Grid docstring: rho_z = tanh(pz/2T0), rho_par = 1 - 2 exp(-pp/T0))
# ---------------------------------------------------------------------------
def momentum_maps(T0: float, rz, rp):
    """Returns pz, pp, dpz/drz, dpp/drp for compact momenta rz, rp."""
    rz = np.asarray(rz, dtype=float)
    rp = np.asarray(rp, dtype=float)
    pz = T0 * (np.log1p(rz) - np.log1p(-rz))
    pp = -T0 * np.log((1.0 - rp) / 2.0)
    jz = 2.0 * T0 / ((1.0 - rz) * (1.0 + rz))
    jp = T0 / (1.0 - rp)
    return pz, pp, jz, jp
