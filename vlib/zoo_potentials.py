"""Potential zoo: polynomial models with closed-form phases (DESIGN 2.10).

Every family is polynomial in the fields, analytic in T, and exactly homogeneous under a common
rescaling of the dimensionful parameters (fields, temperatures, masses -> s * ..., V -> s^4 V).

A *spec* is a JSON-able dict:
    {"family": "Z2x2"|"Cubic1"|"Bag1"|"Bag2",
     "p": {... dimensionless + dimensionful parameters in base units ...},
     "delta": float          # Tn = Tc (1 - delta)        (families with a Tc)
     "units": float          # unit factor s applied to every dimensionful quantity (default 1)
     "relabel": {"perm": [..], "signs": [..], "shift": [..]} | None   # user fields u = P(S x + c)
     "particles": [{"name","y","stat","dof","field","m0sq"}]          # optional out-of-eq particles
    }

closed(spec) returns a ClosedForm object with the exact branch locations, potential values,
derivatives, Tc and ends of phases; make_model(spec) returns a WallGo GenericModel; phase_info(spec)
the PhaseInfo / VeffDerivativeSettings to hand to WallGoManager; setup_manager(spec, cfg) does the whole
public set-up sequence.  Nothing here is used by WallGo itself; closed forms are the oracles.
"""
from __future__ import annotations

import itertools
import math

import numpy as np
from hypothesis import strategies as st

GSTAR_A = math.pi ** 2 / 90.0


# ---------------------------------------------------------------------------
# Closed forms (base fields x, before relabelling)
# ---------------------------------------------------------------------------
class ClosedForm:
    nf: int
    Tc: float | None

    def V(self, x, T):
        raise NotImplementedError

    def dVdT(self, x, T):
        raise NotImplementedError

    def grad(self, x, T):
        raise NotImplementedError

    def hess(self, x, T):
        raise NotImplementedError

    def phase(self, which, T):
        """Exact location of phase 'high'/'low' at T (array (nf,)), NaN where it does not exist."""
        raise NotImplementedError

    def exists(self, which, T):
        x = self.phase(which, T)
        if not np.all(np.isfinite(x)):
            return False
        return bool(np.all(np.linalg.eigvalsh(self.hess(x, T)) > 0))

    def Vphase(self, which, T):
        return self.V(self.phase(which, T), T)


class Z2x2(ClosedForm):
    """V = 1/2(muh2 + ch T^2) h^2 + lh/4 h^4 + 1/2(mus2 + cs T^2) s^2 + ls/4 s^4 + lhs/4 h^2 s^2 - a T^4
    high-T phase (0, s(T)); low-T phase (h(T), 0)."""

    nf = 2

    def __init__(self, p, s=1.0):
        self.lh, self.ls, self.lhs = p["lh"], p["ls"], p["lhs"]
        self.ch, self.cs, self.a = p["ch"], p["cs"], p["a"]
        self.muh2, self.mus2 = p["muh2"] * s * s, p["mus2"] * s * s
        num = self.mus2 / math.sqrt(self.ls) - self.muh2 / math.sqrt(self.lh)
        den = self.ch / math.sqrt(self.lh) - self.cs / math.sqrt(self.ls)
        self.Tc = math.sqrt(num / den) if num / den > 0 else None
        self.Th0 = math.sqrt(-self.muh2 / self.ch)  # h-phase merges with origin (2nd order)
        self.Ts0 = math.sqrt(-self.mus2 / self.cs)

    def mh2(self, T):
        return self.muh2 + self.ch * T * T

    def ms2(self, T):
        return self.mus2 + self.cs * T * T

    def V(self, x, T):
        x = np.asarray(x, dtype=float)
        h, s = x[..., 0], x[..., 1]
        return (0.5 * self.mh2(T) * h * h + 0.25 * self.lh * h ** 4 + 0.5 * self.ms2(T) * s * s
                + 0.25 * self.ls * s ** 4 + 0.25 * self.lhs * h * h * s * s - self.a * T ** 4)

    def dVdT(self, x, T):
        x = np.asarray(x, dtype=float)
        h, s = x[..., 0], x[..., 1]
        return self.ch * T * h * h + self.cs * T * s * s - 4 * self.a * T ** 3

    def grad(self, x, T):
        x = np.asarray(x, dtype=float)
        h, s = x[..., 0], x[..., 1]
        gh = self.mh2(T) * h + self.lh * h ** 3 + 0.5 * self.lhs * h * s * s
        gs = self.ms2(T) * s + self.ls * s ** 3 + 0.5 * self.lhs * h * h * s
        return np.stack([gh, gs], axis=-1)

    def hess(self, x, T):
        h, s = float(x[0]), float(x[1])
        hh = self.mh2(T) + 3 * self.lh * h * h + 0.5 * self.lhs * s * s
        ss = self.ms2(T) + 3 * self.ls * s * s + 0.5 * self.lhs * h * h
        hs = self.lhs * h * s
        return np.array([[hh, hs], [hs, ss]])

    def phase(self, which, T):
        if which == "high":
            v2 = -self.ms2(T) / self.ls
            return np.array([0.0, math.sqrt(v2)]) if v2 > 0 else np.array([np.nan, np.nan])
        v2 = -self.mh2(T) / self.lh
        return np.array([math.sqrt(v2), 0.0]) if v2 > 0 else np.array([np.nan, np.nan])

    def instability(self, which):
        """Temperature interval (Tlo, Thi) on which the phase is a genuine minimum and the kind of
        each end: 'true' (minimum turns into a saddle: genuine disappearance) or 'merge'
        (second-order merge with the origin; a minimum continues to exist on a continuous branch)."""
        # high phase (0,s): orthogonal mass  mh2(T) + lhs/2 * s^2 = muh2 - lhs*mus2/(2 ls) + (ch - lhs cs/(2 ls)) T^2
        if which == "high":
            A = self.muh2 - self.lhs * self.mus2 / (2 * self.ls)
            B = self.ch - self.lhs * self.cs / (2 * self.ls)
            Tmerge = self.Ts0
        else:
            A = self.mus2 - self.lhs * self.muh2 / (2 * self.lh)
            B = self.cs - self.lhs * self.ch / (2 * self.lh)
            Tmerge = self.Th0
        # orthogonal mass A + B T^2 > 0
        lo, lo_kind = 0.0, "zero"
        hi, hi_kind = Tmerge, "merge"
        if B > 0:
            if A < 0:
                Tx = math.sqrt(-A / B)
                if Tx > lo:
                    lo, lo_kind = Tx, "true"
        elif B < 0:
            if A > 0:
                Tx = math.sqrt(-A / B)
                if Tx < hi:
                    hi, hi_kind = Tx, "true"
            else:
                return None
        elif A <= 0:
            return None
        if lo >= hi:
            return None
        return {"lo": lo, "lo_kind": lo_kind, "hi": hi, "hi_kind": hi_kind}

    def p_phase(self, which, T):
        m2 = self.ms2(T) if which == "high" else self.mh2(T)
        lam = self.ls if which == "high" else self.lh
        return m2 * m2 / (4 * lam) + self.a * T ** 4

    def dp_phase(self, which, T):
        m2 = self.ms2(T) if which == "high" else self.mh2(T)
        lam = self.ls if which == "high" else self.lh
        c = self.cs if which == "high" else self.ch
        return m2 * c * T / lam + 4 * self.a * T ** 3

    def ddp_phase(self, which, T):
        m2 = self.ms2(T) if which == "high" else self.mh2(T)
        lam = self.ls if which == "high" else self.lh
        c = self.cs if which == "high" else self.ch
        return (m2 * c + 2 * c * c * T * T) / lam + 12 * self.a * T ** 2


class Cubic1(ClosedForm):
    """V = 1/2 g (T^2 - T0^2) phi^2 - 1/3 A T phi^3 + 1/4 lam phi^4 - a T^4.
    high-T phase phi=0 (minimum for T > T0); low-T phase phi_+(T) (exists for T < T1)."""

    nf = 1

    def __init__(self, p, s=1.0):
        self.g, self.A, self.lam, self.a = p["g"], p["A"], p["lam"], p["a"]
        self.T0 = p["T0"] * s
        assert 4 * self.lam * self.g > self.A ** 2
        self.T1 = self.T0 * math.sqrt(4 * self.lam * self.g / (4 * self.lam * self.g - self.A ** 2))
        self.Tc = self.T0 * math.sqrt(self.g / (self.g - 2 * self.A ** 2 / (9 * self.lam)))

    def m2(self, T):
        return self.g * (T * T - self.T0 ** 2)

    def V(self, x, T):
        x = np.asarray(x, dtype=float)
        f = x[..., 0]
        return 0.5 * self.m2(T) * f * f - self.A * T * f ** 3 / 3 + 0.25 * self.lam * f ** 4 - self.a * T ** 4

    def dVdT(self, x, T):
        x = np.asarray(x, dtype=float)
        f = x[..., 0]
        return self.g * T * f * f - self.A * f ** 3 / 3 - 4 * self.a * T ** 3

    def grad(self, x, T):
        x = np.asarray(x, dtype=float)
        f = x[..., 0]
        return np.stack([self.m2(T) * f - self.A * T * f * f + self.lam * f ** 3], axis=-1)

    def hess(self, x, T):
        f = float(x[0])
        return np.array([[self.m2(T) - 2 * self.A * T * f + 3 * self.lam * f * f]])

    def phase(self, which, T):
        if which == "high":
            return np.array([0.0])
        disc = (self.A * T) ** 2 - 4 * self.lam * self.m2(T)
        if disc < 0:
            return np.array([np.nan])
        return np.array([(self.A * T + math.sqrt(disc)) / (2 * self.lam)])

    def instability(self, which):
        if which == "high":
            return {"lo": self.T0, "lo_kind": "true", "hi": math.inf, "hi_kind": "none"}
        return {"lo": 0.0, "lo_kind": "zero", "hi": self.T1, "hi_kind": "true"}

    def p_phase(self, which, T):
        return -float(self.V(self.phase(which, T), T))

    def dp_phase(self, which, T):
        # dp/dT = -dV/dT at the minimum (envelope theorem)
        return -float(self.dVdT(self.phase(which, T), T))


class Bag(ClosedForm):
    """V = sum_i [ lam_i/4 (x_i^2 - v_i^2)^2 - eps_i/ (2 v_i) ... ] tilted double well, T-independent
    field part:  V0(x) = sum_i lam_i/4 (x_i^2 - v_i^2)^2 + kappa/ (prod) ...   (see code) - a T^4.

    One field:  V0 = lam/4 (x^2 - v^2)^2 - e x / (2 v)    (tilt e > 0 favours x = +v)
    Two fields: both fields tilted the same way, coupled by lhs/4 (x0^2 - v0^2)(x1^2 - v1^2).
    high-T phase near (-v, ...), low-T phase near (+v, ...); minima found by Newton from +-v
    (closed-form cubic roots exist but Newton to 1e-15 is simpler and exact to rounding)."""

    def __init__(self, p, s=1.0):
        self.v = [vi * s for vi in p["v"]]
        self.lam = list(p["lam"])
        self.e = [ei * s ** 4 for ei in p["e"]]
        self.lhs = p.get("lhs", 0.0)
        self.a = p["a"]
        self.nf = len(self.v)
        self.Tc = None
        self._ph = {}
        for which, sign in (("high", -1.0), ("low", 1.0)):
            x = np.array([sign * vi for vi in self.v])
            for _ in range(100):
                g = self.grad(x, 1.0)
                H = self.hess(x, 1.0)
                dx = np.linalg.solve(H, g)
                x = x - dx
                if np.max(np.abs(dx)) < 1e-15 * max(self.v):
                    break
            self._ph[which] = x

    def V0(self, x):
        x = np.asarray(x, dtype=float)
        out = 0.0
        for i in range(self.nf):
            out = out + 0.25 * self.lam[i] * (x[..., i] ** 2 - self.v[i] ** 2) ** 2 \
                - self.e[i] * x[..., i] / (2 * self.v[i])
        if self.nf == 2:
            out = out + 0.25 * self.lhs * (x[..., 0] ** 2 - self.v[0] ** 2) * (x[..., 1] ** 2 - self.v[1] ** 2)
        return out

    def V(self, x, T):
        return self.V0(x) - self.a * np.asarray(T, dtype=float) ** 4

    def dVdT(self, x, T):
        x = np.asarray(x, dtype=float)
        return -4 * self.a * np.asarray(T, dtype=float) ** 3 + 0 * x[..., 0]

    def grad(self, x, T):
        x = np.asarray(x, dtype=float)
        g = []
        for i in range(self.nf):
            gi = self.lam[i] * (x[..., i] ** 2 - self.v[i] ** 2) * x[..., i] - self.e[i] / (2 * self.v[i])
            if self.nf == 2:
                j = 1 - i
                gi = gi + 0.5 * self.lhs * x[..., i] * (x[..., j] ** 2 - self.v[j] ** 2)
            g.append(gi)
        return np.stack(g, axis=-1)

    def hess(self, x, T):
        x = np.asarray(x, dtype=float)
        H = np.zeros((self.nf, self.nf))
        for i in range(self.nf):
            H[i, i] = self.lam[i] * (3 * x[i] ** 2 - self.v[i] ** 2)
            if self.nf == 2:
                j = 1 - i
                H[i, i] += 0.5 * self.lhs * (x[j] ** 2 - self.v[j] ** 2)
                H[i, j] = self.lhs * x[i] * x[j]
        return H

    def phase(self, which, T):
        return self._ph[which].copy()

    def instability(self, which):
        return {"lo": 0.0, "lo_kind": "zero", "hi": math.inf, "hi_kind": "none"}

    def p_phase(self, which, T):
        return -float(self.V(self.phase(which, T), T))


class Cubic1T(Cubic1):
    """Cubic1 with temperature-dependent cubic and quartic couplings (C04 variant, still polynomial in T):
        A(T) = A (1 + kA (T/T0 - 1)),   lam(T) = lam (1 + kL (T/T0 - 1)),
    V = 1/2 g (T^2 - T0^2) phi^2 - 1/3 A(T) T phi^3 + 1/4 lam(T) phi^4 - a T^4.
    phi_+(T) closed form; T1 (saddle-node) and Tc located by bisection on closed-form expressions
    (exact to rounding).  Added by the C09/C04 builder; nothing else depends on it."""

    def __init__(self, p, s=1.0):
        self.g, self.A, self.lam, self.a = p["g"], p["A"], p["lam"], p["a"]
        self.kA, self.kL = p.get("kA", 0.0), p.get("kL", 0.0)
        self.T0 = p["T0"] * s
        from scipy.optimize import brentq

        def disc(T):
            return (self.AT(T) * T) ** 2 - 4 * self.lamT(T) * self.m2(T)

        def dv(T):  # V(phi_+) - V(0) up to a positive factor: m2 - 2 (A T)^2 / (9 lam)
            return self.m2(T) - 2 * (self.AT(T) * T) ** 2 / (9 * self.lamT(T))

        hi = self.T0
        for _ in range(200):
            hi *= 1.05
            if disc(hi) < 0:
                break
        else:
            raise ValueError("Cubic1T: no saddle-node temperature below 1.05^200 T0")
        self.T1 = brentq(disc, self.T0, hi, xtol=1e-14 * self.T0, rtol=8.9e-16)
        self.Tc = brentq(dv, self.T0, self.T1, xtol=1e-14 * self.T0, rtol=8.9e-16)

    def AT(self, T):
        return self.A * (1 + self.kA * (T / self.T0 - 1))

    def lamT(self, T):
        return self.lam * (1 + self.kL * (T / self.T0 - 1))

    def V(self, x, T):
        x = np.asarray(x, dtype=float)
        f = x[..., 0]
        return (0.5 * self.m2(T) * f * f - self.AT(T) * T * f ** 3 / 3 + 0.25 * self.lamT(T) * f ** 4
                - self.a * T ** 4)

    def dVdT(self, x, T):
        x = np.asarray(x, dtype=float)
        f = x[..., 0]
        dAT = self.A * (1 + self.kA * (2 * T / self.T0 - 1))      # d(A(T) T)/dT
        dlam = self.lam * self.kL / self.T0
        return self.g * T * f * f - dAT * f ** 3 / 3 + 0.25 * dlam * f ** 4 - 4 * self.a * T ** 3

    def grad(self, x, T):
        x = np.asarray(x, dtype=float)
        f = x[..., 0]
        return np.stack([self.m2(T) * f - self.AT(T) * T * f * f + self.lamT(T) * f ** 3], axis=-1)

    def hess(self, x, T):
        f = float(x[0])
        return np.array([[self.m2(T) - 2 * self.AT(T) * T * f + 3 * self.lamT(T) * f * f]])

    def phase(self, which, T):
        if which == "high":
            return np.array([0.0])
        disc = (self.AT(T) * T) ** 2 - 4 * self.lamT(T) * self.m2(T)
        if disc < 0:
            return np.array([np.nan])
        return np.array([(self.AT(T) * T + math.sqrt(disc)) / (2 * self.lamT(T))])


def closed(spec) -> ClosedForm:
    s = float(spec.get("units", 1.0))
    fam = spec["family"]
    if fam == "Z2x2":
        return Z2x2(spec["p"], s)
    if fam == "Cubic1":
        return Cubic1(spec["p"], s)
    if fam in ("Bag1", "Bag2"):
        return Bag(spec["p"], s)
    if fam == "Cubic1T":
        return Cubic1T(spec["p"], s)
    raise ValueError(fam)


def nucleation_temperature(spec):
    cf = closed(spec)
    if cf.Tc is not None:
        Tn = cf.Tc * (1.0 - spec["delta"])
    else:
        Tn = float(spec["Tn"]) * float(spec.get("units", 1.0))
    if spec.get("Tn_int"):
        # the user types an integer nucleation temperature (Tn=100): rounded here, handed over as a
        # Python int by phase_info (not unit covariant: only for checks that do not compare units)
        Tn = float(round(Tn))
    return Tn


# ---------------------------------------------------------------------------
# Relabelling u = P(S x + c)
# ---------------------------------------------------------------------------
class Relabel:
    def __init__(self, nf, rel, s=1.0):
        rel = rel or {}
        self.perm = list(rel.get("perm", range(nf)))
        self.signs = np.array(rel.get("signs", [1.0] * nf), dtype=float)
        self.shift = np.array(rel.get("shift", [0.0] * nf), dtype=float) * s
        self.identity = (self.perm == list(range(nf)) and np.all(self.signs == 1)
                         and np.all(self.shift == 0))

    def to_user(self, x):
        """x (..., nf) base fields -> u (..., nf) user fields; u[..., k] = (S x + c)[perm[k]]"""
        y = np.asarray(x, dtype=float) * self.signs + self.shift
        return y[..., self.perm]

    def to_base(self, u):
        u = np.asarray(u, dtype=float)
        y = np.empty_like(u)
        y[..., self.perm] = u
        return (y - self.shift) * self.signs  # signs are +-1 so S^-1 = S

    def scale_to_user(self, scales):
        return np.asarray(scales, dtype=float)[self.perm]


# ---------------------------------------------------------------------------
# WallGo model objects
# ---------------------------------------------------------------------------
def make_model(spec):
    """Return (model, closed_form, relabel)."""
    import WallGo
    from WallGo import Fields

    cf = closed(spec)
    s = float(spec.get("units", 1.0))
    rel = Relabel(cf.nf, spec.get("relabel"), s)
    nf = cf.nf

    class ZooPotential(WallGo.EffectivePotential):
        fieldCount = nf
        effectivePotentialError = 1e-15
        zoo_cf, zoo_rel = cf, rel

        def evaluate(self, fields, temperature):
            u = np.asarray(Fields(fields), dtype=float)
            x = u if self.zoo_rel.identity else self.zoo_rel.to_base(u)
            return self.zoo_cf.V(x, np.asarray(temperature, dtype=float))

    class ZooModel(WallGo.GenericModel):
        def __init__(self):
            self.effectivePotential = ZooPotential()
            self.clearParticles()
            for k, pt in enumerate(spec.get("particles") or []):
                self.addParticle(_make_particle(pt, k, rel, s, nf))

        def rebind(self, spec2):
            """The user re-expresses the SAME model object in other units / another labelling of field space
            (parameters changed in place; same number of fields).  Returns (closed_form, relabel) of the new form."""
            cf2 = closed(spec2)
            s2 = float(spec2.get("units", 1.0))
            rel2 = Relabel(cf2.nf, spec2.get("relabel"), s2)
            assert cf2.nf == nf
            self.effectivePotential.zoo_cf, self.effectivePotential.zoo_rel = cf2, rel2
            self.clearParticles()
            for k, pt in enumerate(spec2.get("particles") or []):
                self.addParticle(_make_particle(pt, k, rel2, s2, nf))
            return cf2, rel2

        @property
        def fieldCount(self):
            return nf

        def getEffectivePotential(self):
            return self.effectivePotential

    return ZooModel(), cf, rel


def _make_particle(pt, index, rel, s, nf):
    import WallGo

    y2 = float(pt["y"]) ** 2
    fidx = int(pt.get("field", 0))
    m0sq = float(pt.get("m0sq", 0.0)) * s * s

    def msq(fields):
        u = np.asarray(WallGo.Fields(fields), dtype=float)
        x = rel.to_base(u)
        return 0.5 * y2 * x[..., fidx] ** 2 + m0sq

    def dmsq(fields):
        u = np.asarray(WallGo.Fields(fields), dtype=float)
        x = rel.to_base(u)
        gx = np.zeros_like(x)
        gx[..., fidx] = y2 * x[..., fidx]
        # chain rule back to user fields: du_k = S_pk dx_pk  => d/du_k = S_pk d/dx_pk
        gy = gx * rel.signs
        return gy[..., rel.perm]

    return WallGo.Particle(pt["name"], index=index, msqVacuum=msq, msqDerivative=dmsq,
                           statistics=pt["stat"], totalDOFs=int(pt["dof"]))


def scales(spec):
    """(temperatureVariationScale, fieldValueVariationScale per base field) - physically motivated:
    Tc - Tn for temperature (as the docs recommend) and the vev size for fields."""
    cf = closed(spec)
    Tn = nucleation_temperature(spec)
    if cf.Tc is not None:
        tscale = max(cf.Tc - Tn, 0.02 * Tn)
    else:
        tscale = 0.1 * Tn
    lo = np.abs(cf.phase("low", Tn))
    hi = np.abs(cf.phase("high", Tn))
    big = max(float(np.max(lo)), float(np.max(hi)))
    fscale = np.maximum(np.maximum(lo, hi), 0.2 * big)
    tf = spec.get("tscale_factor", 1.0)
    ff = spec.get("fscale_factor", 1.0)
    if isinstance(ff, (list, tuple)):
        # per-field factors (a user who knows one direction better than the other): unequal scales per field
        ff = np.array([float(ff[k % len(ff)]) for k in range(len(fscale))])
    return float(tscale * tf), fscale * ff


def int_guess(x, spec):
    """spec["guess_int"]: the user types the phase as integers, e.g. Fields([0, 200]) (integer dtype).  Only where
    rounding is a rough guess (every non-zero component at least 20 in the user's units); otherwise unchanged."""
    x = np.asarray(x, dtype=float)
    if not spec.get("guess_int"):
        return x
    nz = np.abs(x[x != 0])
    if nz.size == 0 or float(np.min(nz)) < 20.0:
        return x
    return np.rint(x).astype(int)


def phase_info(spec, guess_jitter=0.0):
    import WallGo

    cf = closed(spec)
    s = float(spec.get("units", 1.0))
    rel = Relabel(cf.nf, spec.get("relabel"), s)
    Tn = nucleation_temperature(spec)
    hi = cf.phase("high", Tn) * (1 + guess_jitter)
    lo = cf.phase("low", Tn) * (1 - guess_jitter)
    # rough user guesses (dimensionless, so unit covariant): spec["guess"] = {"high": m, "low": m,
    # "zero": z}: non-zero components multiplied by m, components that vanish in the phase set to
    # z * (largest vev), like a user typing (0, 200) for a phase at (0, 94)
    gs = spec.get("guess")
    if gs:
        big = max(float(np.max(np.abs(hi))), float(np.max(np.abs(lo))))
        hi = np.where(hi != 0, hi * float(gs.get("high", 1.0)), float(gs.get("zero", 0.0)) * big)
        lo = np.where(lo != 0, lo * float(gs.get("low", 1.0)), float(gs.get("zero", 0.0)) * big)
    tscale, fscale = scales(spec)
    info = WallGo.PhaseInfo(
        temperature=(int(Tn) if spec.get("Tn_int") else float(Tn)),
        phaseLocation1=WallGo.Fields(int_guess(rel.to_user(hi), spec)),
        phaseLocation2=WallGo.Fields(int_guess(rel.to_user(lo), spec)),
    )
    fs = rel.scale_to_user(fscale)
    if spec.get("fscale_scalar"):
        fs_arg = float(np.max(fs))
    else:
        fs_arg = [float(v) for v in fs]
    dset = WallGo.VeffDerivativeSettings(temperatureVariationScale=float(tscale),
                                         fieldValueVariationScale=fs_arg)
    return info, dset


DEFAULT_CFG = {"spatialGridSize": 30, "momentumGridSize": 5, "errTol": 1e-3, "pressRelErrTol": 0.1,
               "maxIterations": 20, "conserveEnergyMomentum": True, "hydroRelTol": 1e-6,
               "hydroAbsTol": 1e-10, "phaseTracerTol": 1e-6}


def apply_config(manager, cfg):
    cfg = dict(DEFAULT_CFG, **(cfg or {}))
    c = manager.config
    c.configGrid.spatialGridSize = int(cfg["spatialGridSize"])
    c.configGrid.momentumGridSize = int(cfg["momentumGridSize"])
    c.configEOM.errTol = float(cfg["errTol"])
    c.configEOM.pressRelErrTol = float(cfg["pressRelErrTol"])
    c.configEOM.maxIterations = int(cfg["maxIterations"])
    c.configEOM.conserveEnergyMomentum = bool(cfg["conserveEnergyMomentum"])
    c.configHydrodynamics.relativeTol = float(cfg["hydroRelTol"])
    c.configHydrodynamics.absoluteTol = float(cfg["hydroAbsTol"])
    c.configThermodynamics.phaseTracerTol = float(cfg["phaseTracerTol"])
    c.configEOM.wallThicknessBounds = [float(x) for x in cfg.get("wallThicknessBounds", [0.1, 100.0])]
    c.configEOM.wallOffsetBounds = [float(x) for x in cfg.get("wallOffsetBounds", [-10.0, 10.0])]
    return cfg


def new_manager(cfg=None):
    import logging

    import WallGo

    manager = WallGo.WallGoManager()
    manager.setVerbosity(logging.CRITICAL + 10)
    logging.disable(logging.CRITICAL)
    apply_config(manager, cfg)
    return manager


def setup_manager(spec, cfg=None, manager=None):
    """Public set-up sequence: registerModel + setupThermodynamicsHydrodynamics.
    Returns (manager, model, closed_form, relabel)."""
    if manager is None:
        manager = new_manager(cfg)
    else:
        apply_config(manager, cfg)
    model, cf, rel = make_model(spec)
    manager.registerModel(model)
    info, dset = phase_info(spec)
    manager.setupThermodynamicsHydrodynamics(info, dset)
    return manager, model, cf, rel


# ---------------------------------------------------------------------------
# Hypothesis strategies (construction over rejection)
# ---------------------------------------------------------------------------
Z2X2_BENCH = {"lh": 0.12910, "ls": 1.0, "lhs": 0.9, "ch": 0.43706, "cs": 0.4,
              "muh2": -7812.6, "mus2": -12832.2, "a": 107.75 * GSTAR_A}


Z2X2_MARGINS = {"high": (0.95, 1.30), "low": (0.70, 1.10)}


def z2x2_valid(p, delta):
    """Both phases must be genuine minima on the temperature range the solver needs, with a margin:
    the high-T phase on [0.95, 1.30] Tn (T+ >= Tn), the low-T phase on [0.70, 1.10] Tn; and the
    low-T phase favoured at Tn.  (The repository's own benchmark has the high-T phase disappearing
    at 0.92 Tn, inside the range the manager asks the tracer for; that is normal use.)"""
    try:
        cf = Z2x2(p)
    except (ValueError, ZeroDivisionError):
        return False
    if cf.Tc is None:
        return False
    Tn = cf.Tc * (1 - delta)
    for which in ("high", "low"):
        ins = cf.instability(which)
        if ins is None:
            return False
        mlo, mhi = Z2X2_MARGINS[which]
        if not (ins["lo"] < mlo * Tn and ins["hi"] > mhi * Tn):
            return False
    # low-T phase favoured below Tc
    if not cf.p_phase("low", Tn) > cf.p_phase("high", Tn):
        return False
    return True


@st.composite
def st_z2x2(draw, delta_range=(0.03, 0.12), spread=0.12):
    """Z2x2 point around the repository's singlet benchmark (multiplicative perturbations)."""
    p = dict(Z2X2_BENCH)
    for k in ("lh", "ls", "lhs", "ch", "cs", "mus2", "a"):
        f = draw(st.floats(1 - spread, 1 + spread))
        p[k] = Z2X2_BENCH[k] * round(f, 4)
    delta = round(draw(st.floats(*delta_range)), 4)
    if not z2x2_valid(p, delta):
        # deterministic fallback towards the benchmark keeps discards at zero (construction, not rejection)
        for lam in (0.5, 0.25, 0.0):
            q = {k: Z2X2_BENCH[k] + lam * (p[k] - Z2X2_BENCH[k]) for k in p}
            if z2x2_valid(q, delta):
                p = q
                break
        else:
            p, delta = dict(Z2X2_BENCH), 0.076
    return {"family": "Z2x2", "p": p, "delta": delta}


def alpha_n_closed(spec):
    """Transition strength alpha_n = [De - Dp/cs_low^2]/(3 w_high) at Tn from the closed forms
    (second derivatives of p by central differences of the closed-form dp; used to classify and
    to construct points of a wanted strength, never as an oracle)."""
    cf = closed(spec)
    Tn = nucleation_temperature(spec)
    h = 1e-4 * Tn

    def dp(which, T):
        return -float(cf.dVdT(cf.phase(which, T), T))

    def p(which, T):
        return -float(cf.V(cf.phase(which, T), T))

    ddp_low = (dp("low", Tn + h) - dp("low", Tn - h)) / (2 * h)
    cs2_low = dp("low", Tn) / (Tn * ddp_low)
    e_h = Tn * dp("high", Tn) - p("high", Tn)
    e_l = Tn * dp("low", Tn) - p("low", Tn)
    return (e_h - e_l - (p("high", Tn) - p("low", Tn)) / cs2_low) / (3 * Tn * dp("high", Tn))


@st.composite
def st_cubic1_margin(draw, min_alpha=2e-3, hi=1.10, lo=1.02):
    """Cubic1 points whose phases exist with a margin over the range the solver needs, by
    construction: the broken phase up to T1 >= hi*Tn and the symmetric phase down to T0 <= Tn/lo."""
    g = round(draw(st.floats(0.1, 0.6)), 4)
    lam = round(draw(st.floats(0.05, 0.3)), 4)
    # T1/T0 = 1/sqrt(1-f) must exceed hi*lo
    fmin = 1.0 - 1.0 / (hi * lo * 1.005) ** 2
    f = draw(st.floats(fmin, 0.5))
    A = round(math.sqrt(4 * lam * g * f), 5)
    a = round(draw(st.floats(20.0, 120.0)) * GSTAR_A, 5)
    p = {"g": g, "A": A, "lam": lam, "a": a, "T0": 100.0}
    cf = Cubic1(p)
    tn_lo = cf.T0 * lo
    tn_hi = min(cf.Tc * 0.995, cf.T1 / hi)
    if tn_hi <= tn_lo:  # rounding of A: fall back to the strongest cubic
        p["A"] = round(math.sqrt(4 * lam * g * 0.5), 5)
        cf = Cubic1(p)
        tn_hi = min(cf.Tc * 0.995, cf.T1 / hi)
    Tn = tn_lo + draw(st.floats(0.0, 1.0)) * (tn_hi - tn_lo)
    spec = {"family": "Cubic1", "p": p, "delta": round(1 - Tn / cf.Tc, 6)}
    if min_alpha is not None:
        for _ in range(4):
            al = alpha_n_closed(spec)
            if al >= min_alpha:
                break
            p["a"] = round(p["a"] * al / (1.3 * min_alpha), 6)
    return spec


@st.composite
def st_cubic1(draw, delta_range=(0.02, 0.9), min_alpha=None):
    """Cubic1: Tn = Tc - x (Tc - T0) with x in delta_range (so both phases exist at Tn by construction).
    With min_alpha the number of light degrees of freedom `a` is lowered (alpha_n ~ 1/a) until
    alpha_n >= min_alpha, by construction."""
    g = round(draw(st.floats(0.1, 0.6)), 4)
    lam = round(draw(st.floats(0.05, 0.3)), 4)
    # A^2 < 4 lam g * f  with f < 1 keeps T1 finite; stronger transitions for larger A
    f = draw(st.floats(0.02, 0.5))
    A = round(math.sqrt(4 * lam * g * f), 5)
    a = round(draw(st.floats(20.0, 120.0)) * GSTAR_A, 5)
    p = {"g": g, "A": A, "lam": lam, "a": a, "T0": 100.0}
    cf = Cubic1(p)
    x = draw(st.floats(*delta_range))
    Tn = cf.Tc - x * (cf.Tc - cf.T0)
    delta = round(1 - Tn / cf.Tc, 6)
    delta = min(max(delta, 1e-4), (1 - cf.T0 / cf.Tc) * 0.98)
    spec = {"family": "Cubic1", "p": p, "delta": delta}
    if min_alpha is not None:
        for _ in range(4):
            al = alpha_n_closed(spec)
            if al >= min_alpha:
                break
            p["a"] = round(p["a"] * al / (1.3 * min_alpha), 6)
    return spec


@st.composite
def st_cubic1t(draw, delta_range=(0.02, 0.9)):
    """Cubic1T: Cubic1 parameters plus slopes kA, kL in [-0.5, 0.5] of the cubic/quartic couplings in T/T0
    (couplings stay positive on [T0, 2 T0]); Tn = Tc - x (Tc - T0)."""
    base = draw(st_cubic1(delta_range=delta_range))
    p = dict(base["p"])
    p["kA"] = round(draw(st.floats(-0.5, 0.5)), 3)
    p["kL"] = round(draw(st.floats(-0.5, 0.5)), 3)
    try:
        cf = Cubic1T(p)
    except ValueError:
        p["kA"], p["kL"] = 0.0, 0.0
        cf = Cubic1T(p)
    x = draw(st.floats(*delta_range))
    Tn = cf.Tc - x * (cf.Tc - cf.T0)
    delta = round(1 - Tn / cf.Tc, 6)
    delta = min(max(delta, 1e-4), (1 - cf.T0 / cf.Tc) * 0.98)
    return {"family": "Cubic1T", "p": p, "delta": delta}


@st.composite
def st_bag(draw, nf=1):
    v = [round(draw(st.floats(50.0, 300.0)), 2) for _ in range(nf)]
    lam = [round(draw(st.floats(0.05, 1.0)), 4) for _ in range(nf)]
    # tilt small compared with barrier lam v^4 / 4
    e = [round(lam[i] * v[i] ** 4 * draw(st.floats(0.01, 0.12)), 3) for i in range(nf)]
    p = {"v": v, "lam": lam, "e": e, "a": round(draw(st.floats(20.0, 120.0)) * GSTAR_A, 5)}
    if nf == 2:
        p["lhs"] = round(draw(st.floats(-0.3, 0.3)) * math.sqrt(lam[0] * lam[1]), 4)
    Tn = round(draw(st.floats(0.3, 1.2)) * max(v), 2)
    return {"family": f"Bag{nf}", "p": p, "Tn": Tn}


@st.composite
def st_guess(draw):
    """Rough phase guesses and coarse variation scales as a user would supply them."""
    if draw(st.sampled_from([True, True, False])):
        g = {"high": round(draw(st.floats(0.75, 2.2)), 3), "low": round(draw(st.floats(0.75, 1.6)), 3),
             "zero": draw(st.sampled_from([0.0, 0.0, 0.01, -0.02]))}
        if draw(st.sampled_from([False, False, True])):
            g["int"] = True   # typed as integers (integer dtype Fields), where the units make that a rough guess
    else:
        g = None
    tf = draw(st.sampled_from([1.0, 1.0, 0.5, 2.0]))
    ff = draw(st.sampled_from([1.0, 1.0, 0.3, 0.1]))
    if draw(st.sampled_from([False, False, False, True])):
        ff = list(draw(st.sampled_from([(1.0, 0.1), (0.1, 1.0), (0.3, 1.0), (1.0, 0.25), (0.2, 0.05)])))
    return g, tf, ff


def with_guess(spec, gtf):
    g, tf, ff = gtf
    out = dict(spec, tscale_factor=tf, fscale_factor=ff)
    if g:
        g = dict(g)
        if g.pop("int", False):
            out["guess_int"] = True
        out["guess"] = g
    return out


def st_relabel(nf):
    @st.composite
    def _s(draw):
        perm = list(draw(st.permutations(list(range(nf)))))
        signs = [draw(st.sampled_from([1.0, -1.0])) for _ in range(nf)]
        shift = [draw(st.sampled_from([0.0, 0.0, 1.0])) * round(draw(st.floats(-300.0, 300.0)), 1)
                 for _ in range(nf)]
        return {"perm": perm, "signs": signs, "shift": shift}
    return _s()


def all_relabellings(nf):
    for perm in itertools.permutations(range(nf)):
        for signs in itertools.product((1.0, -1.0), repeat=nf):
            yield {"perm": list(perm), "signs": list(signs), "shift": [0.0] * nf}


# ---------------------------------------------------------------------------
# Additions for C10 / C11 (traced phases): extra closed forms and direct-tracing helpers.
# Free functions only; nothing above is changed.
# ---------------------------------------------------------------------------
def ddp_phase(cf, which, T):
    """Closed-form d2p/dT2 of a phase (p = -V at the minimum).  d2p/dT2 = -V_TT + V_Tphi H^-1 V_phiT."""
    if isinstance(cf, Z2x2):
        return cf.ddp_phase(which, T)
    if isinstance(cf, Cubic1):
        f = float(cf.phase(which, T)[0])
        vtt = cf.g * f * f - 12 * cf.a * T * T
        vtf = 2 * cf.g * T * f - cf.A * f * f
        vff = float(cf.hess([f], T)[0, 0])
        return -vtt + (vtf * vtf / vff if f != 0.0 else 0.0)
    if isinstance(cf, Bag):
        return 12 * cf.a * T * T
    raise TypeError(type(cf))


def dp_phase(cf, which, T):
    if isinstance(cf, Bag):
        return 4 * cf.a * T ** 3
    return cf.dp_phase(which, T)


def p_field_part(cf, which, T):
    """Field-dependent part of the pressure, p + (-a T^4 removed): p - a T^4."""
    return cf.p_phase(which, T) - cf.a * T ** 4


def phase_ext(cf, which, T):
    """Closed-form branch continued through a second-order 'merge' end: beyond the merge the
    continuous branch is the origin (Z2x2).  NaN where no continuation exists."""
    x = cf.phase(which, T)
    if np.all(np.isfinite(x)):
        return x
    if isinstance(cf, Z2x2):
        ins = cf.instability(which)
        if ins is not None and ins["hi_kind"] == "merge" and T >= ins["hi"]:
            return np.zeros(2)
    return x


def existence(cf, which):
    """{'lo','lo_kind','hi','hi_kind'}: interval on which the phase is a genuine minimum; kinds
    'true' (genuine disappearance), 'merge' (second-order merge, branch continues), 'zero', 'none'."""
    return cf.instability(which)


def alpha_closed(cf, T):
    """alpha(T) of WallGo's definition from closed-form p, dp, ddp of both phases."""
    pH, pL = cf.p_phase("high", T), cf.p_phase("low", T)
    dH, dL = dp_phase(cf, "high", T), dp_phase(cf, "low", T)
    ddL = ddp_phase(cf, "low", T)
    eH, eL = T * dH - pH, T * dL - pL
    csqL = dL / (T * ddL)
    return (eH - eL - (pH - pL) / csqL) / (3 * T * dH)


def configured_potential(spec, tscale=None, fscale=None):
    """(V, model, cf): zoo potential with configureDerivatives called (scales in the spec's units)."""
    import WallGo

    model, cf, rel = make_model(spec)
    V = model.getEffectivePotential()
    ts, fs = scales(spec)
    if tscale is not None:
        ts = float(tscale)
    if fscale is not None:
        fs = np.asarray(fscale, dtype=float)
    V.configureDerivatives(WallGo.VeffDerivativeSettings(
        temperatureVariationScale=float(ts),
        fieldValueVariationScale=[float(x) for x in rel.scale_to_user(fs)]))
    return V, model, cf


def make_free_energy(V, cf, which, Tstart, guess_jitter=0.0):
    """FreeEnergy object started at the closed-form location of the phase at Tstart (unrelabelled)."""
    import WallGo
    from WallGo.freeEnergy import FreeEnergy

    x0 = np.asarray(cf.phase(which, Tstart), dtype=float) * (1.0 + guess_jitter)
    fe = FreeEnergy(V, float(Tstart), WallGo.Fields(x0))
    fe.disableAdaptiveInterpolation()
    return fe


def table_of(fe):
    """Observed interpolation table (T_k, values[k, :nf+1]) or None if the private arrays are gone."""
    T = getattr(fe, "_interpolationPoints", None)
    vals = getattr(fe, "_interpolationValues", None)
    if T is None or vals is None:
        return None
    T = np.asarray(T, dtype=float)
    vals = np.asarray(vals, dtype=float)
    if T.ndim != 1 or vals.ndim != 2 or vals.shape[0] != T.shape[0] or T.size < 2:
        return None
    return T, vals


def existence_ext(cf, which):
    """instability() with two reclassifications used by C10/C11 (the original function is unchanged):
    * Cubic1 'high' at T0 is a transcritical exchange of stability with phi_-(T): for T < T0 a local
      minimum continues to exist at phi_-(T) < 0 on a branch that is continuous through phi = 0, so that
      end is 'merge'-like (a tracer may stop there or continue; both are consistent with C11);
    * Z2x2 orthogonal instabilities are subcritical (the minimum really disappears) only if
      lh*ls < lhs^2/4; otherwise the mixed stationary point that bifurcates is a minimum (second order)
      and the end is 'merge'-like with the mixed point as continuation.
    Adds 'lo_cont'/'hi_cont' in {None, 'origin', 'phi_minus', 'mixed'}."""
    ins = cf.instability(which)
    if ins is None:
        return None
    ex = dict(ins)
    ex["lo_cont"] = ex["hi_cont"] = None
    if isinstance(cf, Cubic1):
        if which == "high":
            ex["lo_kind"], ex["lo_cont"] = "merge", "phi_minus"
    elif isinstance(cf, Z2x2):
        Tmerge = cf.Ts0 if which == "high" else cf.Th0
        supercritical = cf.lh * cf.ls > 0.25 * cf.lhs ** 2
        if ex["hi_kind"] == "merge" and ex["hi"] == Tmerge:
            ex["hi_cont"] = "origin"
        for side in ("lo", "hi"):
            if ex[side + "_kind"] == "true" and supercritical:
                ex[side + "_kind"], ex[side + "_cont"] = "merge", "mixed"
    return ex


def z2x2_mixed(cf, T):
    """Mixed stationary point (h, s) with both fields non-zero (None if it does not exist)."""
    det = cf.lh * cf.ls - 0.25 * cf.lhs ** 2
    if det == 0:
        return None
    h2 = (-cf.mh2(T) * cf.ls + 0.5 * cf.lhs * cf.ms2(T)) / det
    s2 = (-cf.ms2(T) * cf.lh + 0.5 * cf.lhs * cf.mh2(T)) / det
    if h2 >= 0 and s2 >= 0:
        return np.array([math.sqrt(h2), math.sqrt(s2)])
    return None


def branch_point(cf, which, ex, T):
    """(x, status) for ex = existence_ext(cf, which).  status: 'exact' closed-form minimum inside the
    existence interval; 'cont' closed-form continuation beyond a merge-like end; 'ghost' beyond a TRUE
    end (x = value at the end, for coarse use only); None: no closed form available."""
    if ex["lo"] <= T <= ex["hi"]:
        x = cf.phase(which, T)
        if np.all(np.isfinite(x)):
            return x, "exact"
        return None, None
    side = "lo" if T < ex["lo"] else "hi"
    kind, cont = ex[side + "_kind"], ex[side + "_cont"]
    if kind == "true":
        X = ex[side]
        x = cf.phase(which, X * (1 + 1e-12) if side == "lo" else X * (1 - 1e-12))
        return (x, "ghost") if np.all(np.isfinite(x)) else (None, None)
    if cont == "origin":
        return np.zeros(cf.nf), "cont"
    if cont == "phi_minus":
        disc = (cf.A * T) ** 2 - 4 * cf.lam * cf.m2(T)
        if disc >= 0:
            return np.array([(cf.A * T - math.sqrt(disc)) / (2 * cf.lam)]), "cont"
        return None, None
    if cont == "mixed":
        x = z2x2_mixed(cf, T)
        return (x, "cont") if x is not None else (None, None)
    return None, None


def branch_thermo(cf, which, ex, T):
    """Closed-form (p, dp, ddp) on the branch actually continued by branch_point (None if unavailable).
    p = -V(x), dp = -V_T(x), ddp = -V_TT(x) + V_Tx H^-1 V_xT with V_xT, V_TT by exact formulas for
    the polynomial families (central differences of the closed forms in T at fixed x for V_xT)."""
    x, stt = branch_point(cf, which, ex, T)
    if stt not in ("exact", "cont"):
        return None
    p = -float(cf.V(x, T))
    dp = -float(cf.dVdT(x, T))
    h = 1e-4 * T
    h = 1e-2 * T
    vtt = float(-cf.dVdT(x, T + 2 * h) + 8 * cf.dVdT(x, T + h) - 8 * cf.dVdT(x, T - h)
                + cf.dVdT(x, T - 2 * h)) / (12 * h)   # dVdT is cubic in T: 4th-order stencil is exact
    vxt = (np.asarray(cf.grad(x, T + h)) - np.asarray(cf.grad(x, T - h))) / (2 * h)  # grad is quadratic in T: exact
    H = cf.hess(x, T)
    try:
        corr = float(vxt @ np.linalg.solve(H, vxt))
    except np.linalg.LinAlgError:
        return None
    return p, dp, -vtt + corr
