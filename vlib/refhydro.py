"""Independent reference hydrodynamics for thin-wall matching (oracle for C02, C03, C05, C06, C15).

Shares NO code with WallGo: the only contact is calling the EOS object's
pHighT/dpHighT/ddpHighT/csqHighT (and ...LowT) methods through the `Eos` adaptor below; enthalpy and
energy density are formed here (w = T p', e = T p' - p, w' = p' + T p'').

Conventions (same as the literature, e.g. Espinosa et al. 1004.4187): wall-frame speeds vp (in front),
vm (behind) are positive; xi = r/t; v(xi) is the fluid speed in the frame of the bubble centre;
mu(xi, v) = (xi - v)/(1 - xi v).

What is here
------------
Eos(thermo)                                  scalar adaptor: ps, dps, ddps, ws, es, dws, cs2 (+ b for the low-T phase)
wall_residuals(eos, vp, vm, Tp, Tm)          (r1, r2): energy-flux and momentum-flux mismatch across the wall,
                                             each divided by the flux on the + side (dimensionless)
newton_correction(eos, vp, vm, Tp, Tm)       one Newton step (dTp, dTm) of the flux equations at FIXED (vp, vm),
                                             analytic Jacobian from dp, ddp; also returns cond(J) -- the
                                             backward-error oracle of C02
junction_backward_error(eos, vp, vm, Tp, Tm, b_vp, b_Tp, b_Tm)
                                             min over |dvp| <= b_vp of max(|dTp|/b_Tp, |dTm|/b_Tm) such that the
                                             flux equations hold: the backward error of a returned matching in
                                             units of the solver's tolerance box (<= 1: an exact solution is inside)
junction_newton(eos, vp, vm, Tp0, Tm0, hybrid) damped Newton in (ln Tp, ln Tm) at fixed vp and vm = const or
                                             vm = c_b(Tm) -> JunctionResult
junction_bracketed(eos, vp, vw, hybrid, Ts)  guess-free nested bracketing solve of the same equations
junction_at_vp(eos, vp, vw, Ts, guess)       picks deflagration (vm = vw <= c_b(Tm)) or hybrid (vm = c_b(Tm) < vw)
                                             consistently -> (Tp, Tm, vm, kind)
integrate_shock(eos, vw, vp, Tp)             the self-similar flow in front of the wall integrated IN XI with DOP853
                                             (rtol 1e-11) from (xi = vw, v = mu(vw, vp), Tp) to the front located by
                                             mu(xi, v) xi = c_s^2(T), crossed with energy-flux conservation
                                             -> Shock(ok, xi_sh, v_sh, T_sh, Tn_out, mom_res, kappa_int, ...)
front_residuals(eos, sh, Tn)                 energy- and momentum-flux mismatch at the front when the plasma ahead
                                             is at rest at temperature Tn (dimensionless)
integrate_rarefaction(eos, vw, vm, Tm)       the rarefaction wave behind hybrids/detonations, integrated in
                                             s = sqrt(vw - xi) (regular at the Jouguet point where d v/d xi diverges)
match_deflag(eos, Tn, vw)                    reference deflagration/hybrid matching: root in v+ of Tn'(v+) = Tn
                                             -> Matching(ok, kind, vp, vm, Tp, Tm, shock, dTn_dvp, dTp_dvp, dTm_dvp,
                                             cond) / ok=False + reason ('below-vmin', 'above-vJ' = no solution exists;
                                             anything else = the reference failed)
shock_backward_bound(eos, Tn, vw, vp, vm, Tp, Tm, kind, rtol, atol)
                                             allowed |Tn' - Tn| for a returned matching (slope dTn'/dv+ measured along
                                             the exact junctions) -> (bound, slope)
detonation(eos, Tn, vw)                      weak detonation root (vp = vw, Tp = Tn) -> Matching
chapman_jouguet(eos, Tn)                     (vJ, TmJ): the wall speed at which the weak and strong roots merge
match(eos, Tn, vw, vJ=None)                  dispatch on vw <= vJ
kappa(eos, Tn, vw, vp, vm, Tp, Tm)           efficiency factor 4/(vw^3 alpha_n w_n) * Int xi^2 v^2 gamma^2 w d xi by
                                             Gauss-Legendre quadrature over the dense ODE output (shock wave +
                                             rarefaction wave) -> (kappa, kappa_shock, kappa_rarefaction)
alpha_n(eos, Tn)                             (e_s - e_b - (p_s - p_b)/c_b^2)/(3 w_s) at Tn
energy_budget(eos, Tn, vw, m)                Int (T^00 - e_n) xi^2 d xi over the whole profile / (e_n-scale):
                                             exact zero for an exact solution with both front conditions
                                             (validation only)
closed forms for validation                  bag_vJ, template_vJ, bag_vp_of_vm, espinosa_kappa
entropy_mismatch(vp, vm, Tp, Tm)             (T+ g+ - T- g-)/(T+ g+), the LTE condition (C05)
deton_vp / deton_vm(eos, Tn, Tm)             the detonation adiabat v+(T-), v-(T-) at T+ = Tn
jouguet_by_minimisation(eos, Tn)             (vJ, TmJ) as min over T- of deton_vp: second, independent
                                             characterisation of the Chapman-Jouguet point (C06)
min_velocity(eos, Tn, Tm_floor)              smallest wall speed with a deflagration (strongest shock, v+ = 0) (C15)
lte_root(eos, Tn, lo, hi, guess)             wall speed at which the Tn-matched flow conserves entropy (C05, C15)

`python -m vlib.refhydro` runs the validation against these closed forms and prints a table.
"""
from __future__ import annotations

import math

import numpy as np
from scipy.integrate import solve_ivp
from scipy.optimize import brentq

RTOL_ODE = 1e-11
V_REST = 1e-10  # fluid speed below which the plasma ahead of the wall counts as at rest
ATOL_V = 1e-15  # absolute tolerance on v(xi) in the shock integration (T has none)
_GLX, _GLW = np.polynomial.legendre.leggauss(10)


class RefFailure(Exception):
    """The reference could not produce a trustworthy answer (=> discard, never a violation)."""


# ---------------------------------------------------------------------------------------------
# EOS adaptor
# ---------------------------------------------------------------------------------------------
class Eos:
    """Scalar adaptor.  `Tfloor`: lowest temperature the searches may visit (the zoo's
    meta["T_valid"][0]: below it a polynomial EOS may have negative enthalpy)."""

    __slots__ = ("th", "Tfloor")

    def __init__(self, thermo, Tfloor=0.0):
        self.th = thermo
        self.Tfloor = float(Tfloor)

    # high-T ("s", symmetric) phase
    def ps(self, T):
        return float(self.th.pHighT(T))

    def dps(self, T):
        return float(self.th.dpHighT(T))

    def ddps(self, T):
        return float(self.th.ddpHighT(T))

    def ws(self, T):
        return T * float(self.th.dpHighT(T))

    def es(self, T):
        return T * float(self.th.dpHighT(T)) - float(self.th.pHighT(T))

    def dws(self, T):
        return float(self.th.dpHighT(T)) + T * float(self.th.ddpHighT(T))

    def cs2(self, T):
        return float(self.th.csqHighT(T))

    # low-T ("b", broken) phase
    def pb(self, T):
        return float(self.th.pLowT(T))

    def dpb(self, T):
        return float(self.th.dpLowT(T))

    def ddpb(self, T):
        return float(self.th.ddpLowT(T))

    def wb(self, T):
        return T * float(self.th.dpLowT(T))

    def eb(self, T):
        return T * float(self.th.dpLowT(T)) - float(self.th.pLowT(T))

    def dwb(self, T):
        return float(self.th.dpLowT(T)) + T * float(self.th.ddpLowT(T))

    def cb2(self, T):
        return float(self.th.csqLowT(T))


def as_eos(x):
    return x if isinstance(x, Eos) else Eos(x)


def g2(v):
    return 1.0 / (1.0 - v * v)


def mu(xi, v):
    return (xi - v) / (1.0 - xi * v)


def alpha_n(eos, Tn):
    eos = as_eos(eos)
    return (eos.es(Tn) - eos.eb(Tn) - (eos.ps(Tn) - eos.pb(Tn)) / eos.cb2(Tn)) / (3.0 * eos.ws(Tn))


# ---------------------------------------------------------------------------------------------
# junction at the wall
# ---------------------------------------------------------------------------------------------
def wall_residuals(eos, vp, vm, Tp, Tm):
    """Energy-flux and momentum-flux mismatch, each relative to the + side flux."""
    eos = as_eos(eos)
    wp, wm = eos.ws(Tp), eos.wb(Tm)
    fp, fm = wp * g2(vp) * vp, wm * g2(vm) * vm
    r1 = (fp - fm) / abs(fp)
    mp, mm = fp * vp + eos.ps(Tp), fm * vm + eos.pb(Tm)
    r2 = (mp - mm) / (abs(fp * vp) + abs(wp))
    return r1, r2


def _flux_system(eos, vp, vm, Tp, Tm):
    wp, wm = eos.ws(Tp), eos.wb(Tm)
    gp, gm = g2(vp) * vp, g2(vm) * vm
    F = np.array([wp * gp - wm * gm, wp * gp * vp + eos.ps(Tp) - wm * gm * vm - eos.pb(Tm)])
    J = np.array([[eos.dws(Tp) * gp, -eos.dwb(Tm) * gm],
                  [eos.dws(Tp) * gp * vp + eos.dps(Tp), -(eos.dwb(Tm) * gm * vm + eos.dpb(Tm))]])
    return F, J, wp


def newton_correction(eos, vp, vm, Tp, Tm):
    """(dTp, dTm, cond): Newton step of the flux equations in (Tp, Tm) at fixed (vp, vm).

    (Tp + dTp, Tm + dTm) is, to first order, the exact solution of the junction conditions with the
    given velocities; |dT| is therefore the backward error in temperature.  cond is the condition
    number of the row/column-scaled Jacobian (large near the Jouguet point / vp -> vm)."""
    eos = as_eos(eos)
    F, J, wp = _flux_system(eos, vp, vm, Tp, Tm)
    S = np.array([Tp, Tm])
    Js = J * S[None, :] / wp
    try:
        d = np.linalg.solve(Js, -F / wp)
        cond = float(np.linalg.cond(Js))
    except np.linalg.LinAlgError:
        return float("inf"), float("inf"), float("inf")
    return float(d[0] * Tp), float(d[1] * Tm), cond


def junction_backward_error(eos, vp, vm, Tp, Tm, b_vp, b_Tp, b_Tm):
    """Smallest scaled perturbation of the returned (vp, Tp, Tm) (vm fixed) that makes the two flux
    equations hold exactly (to first order):  min over |dvp| <= b_vp of max(|dTp|/b_Tp, |dTm|/b_Tm).

    A value <= 1 means: an exact solution of the junction conditions exists inside the tolerance box
    (b_vp, b_Tp, b_Tm) around the returned numbers.  vp is included because the solver's outer root is
    in vp with its own tolerance; for weak transitions / slow walls the 2x2 system in (Tp, Tm) alone is
    ill-conditioned (cond ~ 1/alpha) and a shift of vp within its tolerance moves the exact (Tp, Tm)
    by much more than their own.  Returns (ratio, t, (dTp, dTm), cond)."""
    eos = as_eos(eos)
    F, J, wp = _flux_system(eos, vp, vm, Tp, Tm)
    Jv = np.array([wp * (1 + vp * vp) / (1 - vp * vp) ** 2, wp * 2 * vp / (1 - vp * vp) ** 2])
    S = np.array([Tp, Tm])
    Js = J * S[None, :] / wp
    try:
        d0 = np.linalg.solve(Js, -F / wp) * S          # correction at dvp = 0
        d1 = np.linalg.solve(Js, -Jv * b_vp / wp) * S  # change of the correction per unit t = dvp/b_vp
        cond = float(np.linalg.cond(Js))
    except np.linalg.LinAlgError:
        return float("inf"), 0.0, (float("inf"), float("inf")), float("inf")
    if not (np.all(np.isfinite(d0)) and np.all(np.isfinite(d1))):
        return float("inf"), 0.0, (float("inf"), float("inf")), cond
    b = np.array([b_Tp, b_Tm])
    a0, a1 = d0 / b, d1 / b   # scaled: f_i(t) = a0_i + a1_i t ;  minimise max_i |f_i(t)| on [-1, 1]
    cands = [-1.0, 0.0, 1.0]
    for i in range(2):
        if a1[i] != 0:
            cands.append(-a0[i] / a1[i])
    for sgn in (1.0, -1.0):
        den = a1[0] - sgn * a1[1]
        if den != 0:
            cands.append(-(a0[0] - sgn * a0[1]) / den)
    best = (float("inf"), 0.0)
    for t in cands:
        t = min(max(t, -1.0), 1.0)
        val = float(np.max(np.abs(a0 + a1 * t)))
        if val < best[0]:
            best = (val, t)
    t = best[1]
    dT = d0 + d1 * t
    return best[0], t, (float(dT[0]), float(dT[1])), cond


class JunctionResult:
    __slots__ = ("ok", "Tp", "Tm", "vm", "iters", "last_step")

    def __init__(self, ok, Tp, Tm, vm, iters, last_step):
        self.ok, self.Tp, self.Tm, self.vm, self.iters, self.last_step = ok, Tp, Tm, vm, iters, last_step


def junction_newton(eos, vp, vm, Tp0, Tm0, hybrid=False, tol=1e-13, maxit=60):
    """Damped Newton in (ln Tp, ln Tm) for the two flux equations at fixed vp and fixed vm
    (hybrid=False) or vm = c_b(Tm) (hybrid=True; the vm-dependence enters the Jacobian through a
    finite difference of c_b)."""
    eos = as_eos(eos)
    x = np.array([math.log(Tp0), math.log(Tm0)])

    def res(x):
        Tp, Tm = math.exp(x[0]), math.exp(x[1])
        vmm = math.sqrt(eos.cb2(Tm)) if hybrid else vm
        F, J, wp = _flux_system(eos, vp, vmm, Tp, Tm)
        if hybrid:
            h = 1e-6 * Tm
            dvm = (math.sqrt(eos.cb2(Tm + h)) - math.sqrt(eos.cb2(Tm - h))) / (2 * h)
            if dvm != 0.0:
                wm = eos.wb(Tm)
                dg = (1 + vmm * vmm) / (1 - vmm * vmm) ** 2        # d(g^2 v)/dv
                dgv = 2 * vmm / (1 - vmm * vmm) ** 2               # d(g^2 v^2)/dv
                J[0, 1] -= wm * dg * dvm
                J[1, 1] -= wm * dgv * dvm
        return F / wp, J * np.array([Tp, Tm])[None, :] / wp, vmm

    try:
        F, J, vmm = res(x)
    except (OverflowError, ValueError, ZeroDivisionError):
        return JunctionResult(False, Tp0, Tm0, vm, 0, float("inf"))
    step = float("inf")
    for it in range(maxit):
        try:
            d = np.linalg.solve(J, -F)
        except np.linalg.LinAlgError:
            return JunctionResult(False, math.exp(x[0]), math.exp(x[1]), vmm, it, step)
        if not np.all(np.isfinite(d)):
            return JunctionResult(False, math.exp(x[0]), math.exp(x[1]), vmm, it, step)
        lam = 1.0
        n0 = float(np.hypot(*F))
        while True:
            dd = np.clip(lam * d, -1.0, 1.0)
            xn = x + dd
            try:
                Fn, Jn, vmn = res(xn)
                okn = bool(np.all(np.isfinite(Fn)) and np.all(np.isfinite(Jn)))
            except (OverflowError, ValueError, ZeroDivisionError):
                okn = False
            if okn and (float(np.hypot(*Fn)) <= n0 * (1 - 1e-4 * lam) or lam < 1e-3 or n0 < 1e-14):
                break
            lam *= 0.5
            if lam < 1e-8:
                return JunctionResult(False, math.exp(x[0]), math.exp(x[1]), vmm, it, step)
        x, F, J, vmm = xn, Fn, Jn, vmn
        step = float(np.max(np.abs(dd)))
        if step < tol:
            return JunctionResult(True, math.exp(x[0]), math.exp(x[1]), vmm, it + 1, step)
    return JunctionResult(step < 1e-10, math.exp(x[0]), math.exp(x[1]), vmm, maxit, step)


def _root_increasing(f, x0, target, lo_floor, hi_ceil, what):
    """Solve f(x) = target for an increasing f by geometric bracketing from x0."""
    x0 = min(max(x0, lo_floor), hi_ceil)
    a = b = x0
    fa = fb = f(x0) - target
    n = 0
    while fa > 0:
        if a <= lo_floor or n > 200:
            raise RefFailure(f"bracket-low:{what}")
        b, fb = a, fa
        a = max(a / 1.5, lo_floor)
        fa = f(a) - target
        n += 1
    while fb < 0:
        if b >= hi_ceil or n > 400:
            raise RefFailure(f"bracket-high:{what}")
        a, fa = b, fb
        b = min(b * 1.5, hi_ceil)
        fb = f(b) - target
        n += 1
    if fa == 0:
        return a
    if fb == 0:
        return b
    return brentq(lambda x: f(x) - target, a, b, xtol=1e-300, rtol=4 * np.finfo(float).eps, maxiter=200)


def junction_bracketed(eos, vp, vw, hybrid, Tscale):
    """Global (guess-free) solve of the wall junction for (Tp, Tm) at given vp and vm = vw
    (hybrid=False) or vm = c_b(Tm) (hybrid=True).

    Inner: the energy-flux equation  w_b(Tm) g^2(vm) vm = w_s(Tp) g^2(vp) vp  is inverted for
    Tm(Tp) (the left side increases with Tm).  Outer: the momentum-flux mismatch as a function of Tp
    is bracketed by expansion around Tscale and solved with brentq.  Returns (Tp, Tm, vm) or raises
    RefFailure."""
    eos = as_eos(eos)
    lo_floor, hi_ceil = max(1e-6 * Tscale, eos.Tfloor), 1e5 * Tscale
    tm_ceil = 1e12 * Tscale
    gp = g2(vp) * vp

    def vm_of(Tm):
        return math.sqrt(eos.cb2(Tm)) if hybrid else vw

    def Fb(Tm):
        vm = vm_of(Tm)
        return eos.wb(Tm) * g2(vm) * vm

    last = [Tscale]

    def Tm_of(Tp):
        Tm = _root_increasing(Fb, last[0], eos.ws(Tp) * gp, lo_floor, tm_ceil, "Tm(Tp)")
        last[0] = Tm
        return Tm

    def R2(Tp):
        Tm = Tm_of(Tp)
        Fs = eos.ws(Tp) * gp
        return (eos.ps(Tp) - eos.pb(Tm) + Fs * (vp - vm_of(Tm))) / eos.ws(Tp)

    # bracket: R2 increases with Tp (for a bag EOS it is c Tp^4 - eps)
    a = b = Tscale
    ra = rb = R2(Tscale)
    n = 0
    while ra > 0:
        if a <= lo_floor * 1.0001 or n > 120:
            raise RefFailure("junction-bracket-low")
        b, rb = a, ra
        a = max(a / 1.3, lo_floor * 1.0001)
        ra = R2(a)
        n += 1
    while rb < 0:
        if b >= hi_ceil / 1.0001 or n > 240:
            raise RefFailure("junction-bracket-high")
        a, ra = b, rb
        b = min(b * 1.3, hi_ceil / 1.0001)
        rb = R2(b)
        n += 1
    if ra == 0 or rb == 0:
        Tp = a if ra == 0 else b
    else:
        try:
            Tp = brentq(R2, a, b, xtol=1e-300, rtol=4 * np.finfo(float).eps, maxiter=300)
        except ValueError:
            # the inner inversion is re-done on every call, so R2 is reproducible only to rounding;
            # a sign flip of a residual at rounding level means we are at the root already
            if min(abs(ra), abs(rb)) > 1e-12:
                raise RefFailure("junction-bracket-sign")
            Tp = a if abs(ra) < abs(rb) else b
    Tm = Tm_of(Tp)
    return Tp, Tm, vm_of(Tm)


def junction_at_vp(eos, vp, vw, Tscale, guess=None):
    """Deflagration (vm = vw <= c_b(Tm)) or hybrid (vm = c_b(Tm) < vw) junction at given v+.
    `guess` = (Tp, Tm, kind) from a neighbouring vp (continuation: Newton first, bracketing as
    fallback).  Returns (Tp, Tm, vm, kind); raises RefFailure if neither kind is consistent."""
    eos = as_eos(eos)

    def solve(hybrid):
        if guess is not None:
            jn = junction_newton(eos, vp, vw, guess[0], guess[1], hybrid=hybrid)
            if jn.ok and abs(math.log(jn.Tp / guess[0])) < 0.5 and abs(math.log(jn.Tm / guess[1])) < 0.5:
                return jn.Tp, jn.Tm, jn.vm
        Tp, Tm, vm = junction_bracketed(eos, vp, vw, hybrid, Tscale)
        jn = junction_newton(eos, vp, vw, Tp, Tm, hybrid=hybrid)  # polish (full precision)
        if jn.ok and abs(jn.Tp / Tp - 1) < 1e-6 and abs(jn.Tm / Tm - 1) < 1e-6:
            return jn.Tp, jn.Tm, jn.vm
        return Tp, Tm, vm

    order = (False, True) if guess is None or guess[2] == "deflagration" else (True, False)
    err = None
    for hybrid in order:
        try:
            Tp, Tm, vm = solve(hybrid)
        except RefFailure as exc:
            err = exc
            continue
        if not hybrid and vw * vw <= eos.cb2(Tm):
            return Tp, Tm, vw, "deflagration"
        if hybrid and vm <= vw * (1 + 1e-14):
            return Tp, Tm, vm, "hybrid"
    raise RefFailure(f"junction:{err}" if err else "junction:no-consistent-kind")


# ---------------------------------------------------------------------------------------------
# flow in front of the wall (shock wave), integrated in xi
# ---------------------------------------------------------------------------------------------
class Shock:
    __slots__ = ("ok", "reason", "kind", "xi_sh", "v_sh", "T_sh", "Tn_out", "mom_res", "kappa_int",
                 "v0", "nsteps", "sol")

    def __init__(self):
        self.ok, self.reason, self.kind = False, None, None
        self.xi_sh = self.v_sh = self.T_sh = self.Tn_out = self.mom_res = None
        self.kappa_int, self.v0, self.nsteps, self.sol = 0.0, 0.0, 0, None


def _cross_front(eos, xi, v, T):
    """Temperature of plasma at rest ahead of a front moving with xi, given the state (v, T) behind it,
    from energy-flux conservation in the front frame; also the momentum-flux mismatch (relative)."""
    m = mu(xi, v)
    flux = eos.ws(T) * g2(m) * m
    target = flux / (g2(xi) * xi)
    Tn = _root_increasing(eos.ws, T, target, max(1e-9 * T, eos.Tfloor), 1e3 * T, "front")
    wn = eos.ws(Tn)
    mom = (wn * g2(xi) * xi * xi + eos.ps(Tn)) - (flux * m + eos.ps(T))
    return Tn, mom / (abs(flux * m) + abs(eos.ws(T)) * 1e-300 + abs(wn * g2(xi) * xi * xi))


def _gl_steps(ts, dense, fun):
    """Integral of fun(t, y(t)) over the solver's steps with 10-point Gauss-Legendre on each step."""
    tot = 0.0
    for a, b in zip(ts[:-1], ts[1:]):
        h = 0.5 * (b - a)
        if h == 0:
            continue
        t = 0.5 * (a + b) + h * _GLX
        y = dense(t)
        tot += h * float(np.dot(_GLW, fun(t, y)))
    return tot


def integrate_shock(eos, vw, vp, Tp, rtol=RTOL_ODE, want_kappa=True):
    """Integrate d v/d xi = 2 v / [xi g^2 (1 - v xi) (mu^2/c_s^2 - 1)],  d T/d xi = T g^2 mu d v/d xi
    from xi = vw to the front  mu(xi, v) xi = c_s^2(T)  and cross it."""
    eos = as_eos(eos)
    sh = Shock()
    v0 = mu(vw, vp)
    sh.v0 = v0
    if not (0 < vw < 1 and 0 <= vp < 1 and Tp > 0):
        sh.reason = "bad-input"
        return sh
    if v0 <= 0.0:  # plasma at rest in front of the wall: no shock, T is uniform
        if v0 < 0:
            sh.reason = "vp>vw"
            return sh
        sh.ok, sh.kind = True, "rest"
        sh.xi_sh, sh.v_sh, sh.T_sh, sh.Tn_out, sh.mom_res = math.sqrt(eos.cs2(Tp)), 0.0, Tp, Tp, 0.0
        return sh
    front0 = vp * vw - eos.cs2(Tp)  # mu(vw, v0) = vp
    if front0 >= -1e-11:  # the front sits at the wall (to rounding): zero-length shock wave
        sh.kind = "front-at-wall"
        sh.xi_sh, sh.v_sh, sh.T_sh = vw, v0, Tp
        try:
            sh.Tn_out, sh.mom_res = _cross_front(eos, vw, v0, Tp)
        except RefFailure as exc:
            sh.reason = str(exc)
            return sh
        sh.ok = True
        return sh

    def rhs(xi, y):
        v, T = y
        c2 = eos.cs2(T)
        c = math.sqrt(c2)
        m = mu(xi, v)
        # mu^2/c^2 - 1 = (mu - c)(mu + c)/c^2 with mu - c = [(xi - c) - v (1 - c xi)]/(1 - xi v):
        # no cancellation near the sonic point (both terms have the same sign ahead of it)
        D = ((xi - c) - v * (1.0 - c * xi)) / (1.0 - xi * v) * (m + c) / c2
        dv = 2.0 * v / (xi * g2(v) * (1.0 - v * xi) * D)
        return [dv, T * g2(v) * m * dv]

    def front(xi, y):
        return mu(xi, y[0]) * xi - eos.cs2(y[1])

    front.terminal = True
    front.direction = 1.0

    # Slow walls / weak transitions: approaching xi = c_s the flow decays like exp(-const/v) and the
    # front is exponentially weak (v_sh can underflow).  Once v < V_REST the plasma is at rest to
    # that accuracy; the remaining first-order change of T is added in closed form.  The absolute
    # tolerance ATOL_V on v keeps the solver out of the round-off noise of mu^2/c_s^2 - 1 there.
    def rest(xi, y):
        return y[0] - V_REST

    rest.terminal = True
    if v0 <= V_REST:
        sh.ok, sh.kind = True, "evanescent"
        sh.xi_sh, sh.v_sh, sh.T_sh, sh.mom_res = math.sqrt(eos.cs2(Tp)), v0, Tp, 0.0
        sh.Tn_out = Tp * math.exp(-g2(v0) * vp * v0)
        return sh
    try:
        sol = solve_ivp(rhs, [vw, 1.0 - 1e-12], [v0, Tp], method="DOP853", rtol=rtol,
                        atol=[ATOL_V, 0.0], events=[front, rest], dense_output=True)
    except (ValueError, ZeroDivisionError, FloatingPointError, OverflowError) as exc:
        sh.reason = f"ode-exception:{type(exc).__name__}"
        return sh
    sh.nsteps = len(sol.t)
    if sol.status != 1:
        sh.reason = "front-not-reached"
        return sh
    if len(sol.t_events[0]) == 0:
        xi_sh = float(sol.t_events[1][0])
        v_sh, T_sh = (float(z) for z in sol.y_events[1][0])
        sh.kind = "evanescent"
        sh.xi_sh, sh.v_sh, sh.T_sh, sh.sol = xi_sh, v_sh, T_sh, sol
        # remaining decay to rest: d ln T = g^2 mu dv with mu ~ const  (error O(v^2, v |xi - c_s|))
        sh.Tn_out, sh.mom_res = T_sh * math.exp(-g2(v_sh) * mu(xi_sh, v_sh) * v_sh), 0.0
    else:
        xi_sh = float(sol.t_events[0][0])
        v_sh, T_sh = (float(z) for z in sol.y_events[0][0])
        if not (v_sh > 0 and T_sh > 0 and xi_sh < 1):
            sh.reason = "front-state-invalid"
            return sh
        sh.kind = "shock"
        sh.xi_sh, sh.v_sh, sh.T_sh, sh.sol = xi_sh, v_sh, T_sh, sol
        try:
            sh.Tn_out, sh.mom_res = _cross_front(eos, xi_sh, v_sh, T_sh)
        except RefFailure as exc:
            sh.reason = str(exc)
            return sh
    if want_kappa:
        ts = np.append(sol.t[sol.t < xi_sh], xi_sh)

        def integrand(t, y):
            v, T = y
            w = np.array([eos.ws(float(Ti)) for Ti in T])
            return t * t * v * v / (1.0 - v * v) * w

        sh.kappa_int = _gl_steps(ts, sol.sol, integrand)
    sh.ok = True
    return sh


def front_residuals(eos, sh, Tn):
    """Energy- and momentum-flux mismatch at the front of `sh` if the plasma ahead is at rest at Tn."""
    eos = as_eos(eos)
    xi, v, T = sh.xi_sh, sh.v_sh, sh.T_sh
    if sh.kind in ("rest", "evanescent"):
        return (eos.ws(Tn) - eos.ws(T)) / eos.ws(T), (eos.ps(Tn) - eos.ps(T)) / eos.ws(T)
    m = mu(xi, v)
    fb = eos.ws(T) * g2(m) * m
    fa = eos.ws(Tn) * g2(xi) * xi
    e = (fa - fb) / abs(fb)
    mo = ((fa * xi + eos.ps(Tn)) - (fb * m + eos.ps(T))) / (abs(fb * m) + abs(fa * xi))
    return e, mo


# ---------------------------------------------------------------------------------------------
# rarefaction wave behind the wall, integrated in s = sqrt(vw - xi)
# ---------------------------------------------------------------------------------------------
class Rarefaction:
    __slots__ = ("ok", "reason", "kappa_int", "xi_end", "T_end", "v0", "nsteps", "sol", "s_end")

    def __init__(self):
        self.ok, self.reason, self.kappa_int = False, None, 0.0
        self.xi_end = self.T_end = self.v0 = self.sol = self.s_end = None
        self.nsteps = 0


def integrate_rarefaction(eos, vw, vm, Tm, rtol=RTOL_ODE, v_stop=1e-7):
    """Flow behind a hybrid/detonation wall.  With xi = vw - s^2 the equations are regular at the
    Jouguet point (mu = c_b at the wall), where d v/d xi diverges like 1/s."""
    eos = as_eos(eos)
    ra = Rarefaction()
    v0 = mu(vw, vm)
    ra.v0 = v0
    if v0 <= 0:
        ra.ok, ra.kappa_int = True, 0.0
        return ra

    def parts(xi, v, T):
        m = mu(xi, v)
        N = 2.0 * v / (xi * g2(v) * (1.0 - v * xi))
        D = m * m / eos.cb2(T) - 1.0
        return m, N, D

    def rhs(s, y):
        v, T = y
        xi = vw - s * s
        m, N, D = parts(xi, v, T)
        dv = -2.0 * s * N / D
        return [dv, T * g2(v) * m * dv]

    m0, N0, D0 = parts(vw, v0, Tm)
    s0, y0 = 0.0, [v0, Tm]
    if D0 < -1e-9:
        ra.reason = "vm<cb"  # strong detonation / not a physical rarefaction start
        return ra
    if abs(D0) <= 1e-7:
        # Jouguet start: D ~ Dv (v - v0) along the solution, so (v - v0)^2 = 2 N (xi - vw)/Dv
        h = 1e-6 * v0
        dT = Tm * g2(v0) * m0

        def Dalong(dv):
            return parts(vw, v0 + dv, Tm + dT * dv)[2]

        Dv = (Dalong(h) - Dalong(-h)) / (2 * h)
        if not Dv < 0:
            ra.reason = "jouguet-expansion"
            return ra
        c = math.sqrt(2.0 * N0 / abs(Dv))
        s0 = 1e-6 * math.sqrt(vw)
        dv = -c * s0
        y0 = [v0 + dv, Tm + dT * dv]

    def stop(s, y):
        return y[0] - v_stop * v0

    stop.terminal = True
    s_max = math.sqrt(vw) * (1 - 1e-12)
    try:
        sol = solve_ivp(rhs, [s0, s_max], y0, method="DOP853", rtol=rtol, atol=[ATOL_V, 0.0],
                        events=stop, dense_output=True)
    except (ValueError, ZeroDivisionError, FloatingPointError, OverflowError) as exc:
        ra.reason = f"ode-exception:{type(exc).__name__}"
        return ra
    ra.nsteps = len(sol.t)
    if sol.status != 1:
        ra.reason = "tail-not-reached"
        return ra
    s_end = float(sol.t_events[0][0])
    ts = np.append(sol.t[sol.t < s_end], s_end)

    def integrand(s, y):
        v, T = y
        xi = vw - s * s
        w = np.array([eos.wb(float(Ti)) for Ti in T])
        return xi * xi * v * v / (1.0 - v * v) * w * 2.0 * s

    ra.kappa_int = _gl_steps(ts, sol.sol, integrand)
    if s0 > 0:  # the piece [0, s0]: integrand ~ f(vw) * 2 s
        ra.kappa_int += vw * vw * v0 * v0 * g2(v0) * eos.wb(Tm) * s0 * s0
    ra.s_end, ra.xi_end, ra.T_end, ra.sol = s_end, vw - s_end ** 2, float(sol.y_events[0][0][1]), sol
    ra.ok = True
    return ra


# ---------------------------------------------------------------------------------------------
# matching
# ---------------------------------------------------------------------------------------------
class Matching:
    """Result of the reference matcher.  Slopes d(.)/dvp are along the one-parameter family of exact
    wall junctions (parameter v+), measured by finite differences; Tn' is the temperature ahead of
    the front."""

    __slots__ = ("ok", "reason", "kind", "vp", "vm", "Tp", "Tm", "shock", "dTn_dvp", "dTp_dvp",
                 "dTm_dvp", "cond", "evals")

    def __init__(self):
        self.ok, self.reason, self.kind = False, None, None
        self.vp = self.vm = self.Tp = self.Tm = self.shock = None
        self.dTn_dvp = self.dTp_dvp = self.dTm_dvp = self.cond = None
        self.evals = 0

    def tuple(self):
        return self.vp, self.vm, self.Tp, self.Tm


NO_SOLUTION_REASONS = ("below-vmin", "above-vJ", "below-vJ")


class _Hinted(Exception):
    pass


def match_deflag(eos, Tn, vw, want_kappa=False, hint_vp=None):
    """Reference deflagration/hybrid matching for (EOS, Tn, vw).

    `hint_vp` (optional) only saves work: if Tn'(v+) - Tn changes sign on hint_vp (1 -+ 1e-4) that
    bracket is used, otherwise the global search below runs.  The root itself never depends on it.

    Outer unknown v+ in (0, min(vw, c_s^2/vw)); for each v+ the wall junction gives (Tp, Tm, vm)
    (own Newton iteration with continuation, guess-free bracketing as fallback), the flow is
    integrated in xi to the front and crossed; the root of Tn'(v+) - Tn is found with brentq.
    ok=False with reason 'below-vmin' / 'above-vJ' if no such solution exists, any other reason if
    the reference itself failed."""
    eos = as_eos(eos)
    m = Matching()
    cache = {}
    state = {"guess": None}

    def shoot(vp):
        if vp in cache:
            return cache[vp]
        m.evals += 1
        Tp, Tm, vm, kind = junction_at_vp(eos, vp, vw, Tn, state["guess"])
        state["guess"] = (Tp, Tm, kind)
        sh = integrate_shock(eos, vw, vp, Tp, want_kappa=False)
        if not sh.ok:
            if sh.reason and sh.reason.startswith("bracket-low:front"):
                val = -Tn  # plasma ahead of this trial shock colder than the EOS floor: vp far too small
            else:
                raise RefFailure(f"shock:{sh.reason}")
        else:
            val = sh.Tn_out - Tn
        cache[vp] = (val, Tp, Tm, vm, kind, sh)
        return cache[vp]

    def try_shoot(vp):
        try:
            return shoot(vp)
        except RefFailure as exc:
            if str(exc).startswith("junction"):
                return None
            raise

    hinted = None
    if hint_vp is not None and 0.0 < hint_vp < vw:
        try:
            a_, b_ = hint_vp * (1 - 1e-4), min(hint_vp * (1 + 1e-4), vw * (1 - 1e-12))
            ra_, rb_ = shoot(a_), shoot(b_)
            if (ra_[0] <= 0 <= rb_[0] and ra_[5].kind != "front-at-wall" and rb_[5].kind != "front-at-wall"
                    and b_ > a_):
                hinted = (a_, ra_, b_, rb_)
        except RefFailure:
            hinted = None
        if hinted is None:
            cache.clear()
            state["guess"] = None
    try:
        if hinted is not None:
            raise _Hinted()
        # ---- upper end of the family.  vp -> vw means T+ -> infinity (no shock) for bag-like EOS; for
        # mu > nu the family ends earlier (alpha+ is bounded below), which shows up as a junction failure.
        top_fail = None
        P = None
        for gap in (1e-9, 1e-7, 1e-5, 1e-4, 1e-3, 3e-3, 1e-2, 3e-2, 0.1, 0.2, 0.35, 0.5, 0.65, 0.8, 0.9, 0.97):
            t = vw * (1.0 - gap)
            state["guess"] = None
            r = try_shoot(t)
            if r is not None:
                P = (t, r)
                break
            top_fail = t
        if P is None:
            m.reason = "no-junction"
            return m
        hi, rhi = P
        if rhi[5].kind == "front-at-wall":
            # find the largest vp with the front still ahead of the wall
            a, b = None, hi
            t = hi
            for _ in range(60):
                t *= 0.97
                r = try_shoot(t)
                if r is None:
                    b = t
                    continue
                if r[5].kind != "front-at-wall":
                    a = t
                    break
                b = t
            if a is None:
                m.reason = "above-vJ"
                return m
            for _ in range(80):
                mid = 0.5 * (a + b)
                rm = try_shoot(mid)
                if rm is None or rm[5].kind == "front-at-wall":
                    b = mid
                else:
                    a = mid
                if b - a < 1e-15 * b:
                    break
            hi, rhi = a, shoot(a)
            top_fail = None
        lo = rlo = None
        if rhi[0] < 0:
            if top_fail is None:
                m.reason = "above-vJ"  # even with the front at the wall the plasma ahead is colder than Tn
                return m
            # the family ends between hi and top_fail with T+ -> infinity: look for Tn' > Tn in between
            a, b = hi, top_fail
            found = None
            for _ in range(60):
                mid = 0.5 * (a + b)
                rm = try_shoot(mid)
                if rm is None:
                    b = mid
                elif rm[0] > 0:
                    found = (mid, rm)
                    break
                else:
                    a = mid
                if b - a < 1e-15 * b:
                    break
            if found is None:
                m.reason = "upper-bracket"
                return m
            lo, rlo = a, shoot(a)
            hi, rhi = found
        else:
            # ---- lower end: walk down from hi with a geometrically growing distance to hi (weak
            # transitions have their root at vp = vw (1 - O(alpha))), down to vp -> 0 (strongest shock)
            top = hi
            gap = max(vw - hi, 1e-9 * vw)
            floor_hit = None
            for _ in range(200):
                gap *= 3.0
                t = top - gap
                if t <= 1e-9 * vw:
                    t = 1e-9 * vw
                r = try_shoot(t)
                if r is None:
                    floor_hit = t
                    break
                if r[0] <= 0:
                    lo, rlo = t, r
                    break
                hi, rhi = t, r
                if t <= 1e-9 * vw:
                    break
            if lo is None and floor_hit is not None:
                # T- fell below the EOS validity floor: approach the floor from above
                a, b = hi, floor_hit
                for _ in range(40):
                    mid = 0.5 * (a + b)
                    state["guess"] = (rhi[1], rhi[2], rhi[4])
                    rm = try_shoot(mid)
                    if rm is None:
                        b = mid
                    elif rm[0] <= 0:
                        lo, rlo = mid, rm
                        break
                    else:
                        a, hi, rhi = mid, mid, rm
                if lo is None:
                    m.reason = "eos-floor"  # the solution (if any) has T- below the EOS validity floor
                    return m
            if lo is None:
                m.reason = "below-vmin"
                return m
    except _Hinted:
        lo, rlo, hi, rhi = hinted
    except RefFailure as exc:
        m.reason = str(exc)
        return m
    try:
        state["guess"] = (rhi[1], rhi[2], rhi[4])
        vp = lo if rlo[0] == 0 else brentq(lambda x: shoot(x)[0], lo, hi, xtol=1e-300, rtol=1e-14, maxiter=200)
        r = shoot(vp)
    except RefFailure as exc:
        m.reason = str(exc)
        return m
    val, Tp, Tm, vm, kind, sh = r
    if sh.kind == "front-at-wall":
        m.reason = "above-vJ"
        return m
    if abs(val) > 1e-9 * Tn:
        m.reason = "root-not-converged"
        return m
    # certify the junction with the guess-free solver and the Newton correction
    m.cond = newton_correction(eos, vp, vm, Tp, Tm)[2]
    r1, r2 = wall_residuals(eos, vp, vm, Tp, Tm)
    if max(abs(r1), abs(r2)) > 1e-10:
        m.reason = "junction-residual"
        return m
    m.kind, m.vp, m.vm, m.Tp, m.Tm = kind, vp, vm, Tp, Tm
    m.shock = integrate_shock(eos, vw, vp, Tp, want_kappa=True) if want_kappa else sh
    # slopes along the family of exact junctions
    for h in (1e-6, 1e-5, 1e-7):
        try:
            state["guess"] = (Tp, Tm, kind)
            a = shoot(vp * (1 - h))
            state["guess"] = (Tp, Tm, kind)
            b = shoot(min(vp * (1 + h), vw * (1 - 1e-12)))
        except RefFailure:
            continue
        if a[4] != b[4] or a[5].kind != b[5].kind:
            # kink (deflagration/hybrid switch, front reaching the wall): one-sided on the side of the solution
            side = a if a[4] == kind and a[5].kind == sh.kind else b if b[4] == kind and b[5].kind == sh.kind else None
            if side is None:
                continue
            other_vp = vp * (1 - h) if side is a else min(vp * (1 + h), vw * (1 - 1e-12))
            d = other_vp - vp
            m.dTn_dvp, m.dTp_dvp, m.dTm_dvp = (side[0] - val) / d, (side[1] - Tp) / d, (side[2] - Tm) / d
        else:
            d = min(vp * (1 + h), vw * (1 - 1e-12)) - vp * (1 - h)
            m.dTn_dvp, m.dTp_dvp, m.dTm_dvp = (b[0] - a[0]) / d, (b[1] - a[1]) / d, (b[2] - a[2]) / d
        break
    m.ok = True
    return m


def shock_backward_bound(eos, Tn, vw, vp, vm, Tp, Tm, kind, rtol, atol, K=10.0):
    """Allowed |Tn' - Tn| for a returned deflagration/hybrid matching (the solver's root is in v+):
    K (atol + rtol Tn) [ODE + front root] + |dTn'/dv+| K (atol + rtol v+) + Tn K (atol + rtol T+)/T+ .
    The slope dTn'/dv+ is measured along the exact wall junctions around the returned one (central
    difference, relative step 1e-6).  Returns (bound, slope); raises RefFailure."""
    eos = as_eos(eos)
    h = 1e-6
    pts = []
    for s in (-1.0, 1.0):
        x = vp * (1.0 + s * h)
        if not 0.0 < x < vw:
            continue
        Tpx, Tmx, vmx, kindx = junction_at_vp(eos, x, vw, Tn, (Tp, Tm, kind))
        sh = integrate_shock(eos, vw, x, Tpx, want_kappa=False)
        if not sh.ok:
            raise RefFailure(f"slope-shock:{sh.reason}")
        pts.append((x, sh.Tn_out))
    if len(pts) != 2:
        raise RefFailure("slope-one-sided")
    slope = (pts[1][1] - pts[0][1]) / (pts[1][0] - pts[0][0])
    b = K * (atol + rtol * Tn) + abs(slope) * K * (atol + rtol * vp) + Tn * K * (atol + rtol * Tp) / Tp
    return b, slope


def _deton_functions(eos, Tn, vw):
    psn, wsn = eos.ps(Tn), eos.ws(Tn)
    Fn = wsn * g2(vw) * vw

    def vm_of(Tm):
        return vw + (psn - eos.pb(Tm)) / Fn

    def resid(Tm):
        vm = vm_of(Tm)
        if not 0 < vm < 1:
            return float("nan")
        return eos.wb(Tm) * g2(vm) * vm - Fn

    return vm_of, resid, Fn


def _deton_cj_point(eos, Tn, vw):
    """T- at which vm(T-) = c_b(T-) on the momentum-conserving line, (Tstart, Tcj)."""
    vm_of, resid, Fn = _deton_functions(eos, Tn, vw)
    # start: vm = vw  <=>  p_b(T0) = p_s(Tn)
    floor = max(1e-6 * Tn, eos.Tfloor)
    if eos.ps(Tn) <= eos.pb(floor):
        T0 = floor  # p_s(Tn) below the whole range of p_b: vm < vw for every T-
    else:
        T0 = _root_increasing(eos.pb, Tn, eos.ps(Tn), floor, 1e4 * Tn, "deton-start")

    def h(T):
        return vm_of(T) - math.sqrt(eos.cb2(T))

    a = T0
    if h(a) <= 0:
        return T0, T0
    # vm_of decreases with T (p_b increases); h is continuous and negative once vm_of <= 0
    step = 0.02
    b = a
    for _ in range(400):
        b = a * (1 + step)
        if h(b) <= 0:
            break
        a = b
        step = min(step * 1.5, 0.5)
    else:
        raise RefFailure("cj-bracket")
    return T0, brentq(h, a, b, xtol=1e-300, rtol=8.9e-16, maxiter=200)


def detonation(eos, Tn, vw):
    """Weak detonation: vp = vw, Tp = Tn; (vm, Tm) from the flux equations, root with the smaller Tm."""
    eos = as_eos(eos)
    m = Matching()
    try:
        T0, Tcj = _deton_cj_point(eos, Tn, vw)
        vm_of, resid, Fn = _deton_functions(eos, Tn, vw)
        if Tcj <= T0:
            m.reason = "below-vJ"
            return m
        r0, rc = resid(T0 * (1 + 1e-15)), resid(Tcj)
        if not (rc >= 0):
            m.reason = "below-vJ"
            return m
        if r0 > 0:
            m.reason = "deton-start-positive"
            return m
        Tm = brentq(resid, T0, Tcj, xtol=1e-300, rtol=8.9e-16, maxiter=200) if rc > 0 else Tcj
    except RefFailure as exc:
        m.reason = str(exc)
        return m
    m.kind, m.vp, m.vm, m.Tp, m.Tm = "detonation", vw, vm_of(Tm), Tn, Tm
    m.ok = True
    return m


def chapman_jouguet(eos, Tn):
    """(vJ, TmJ): smallest wall speed with a detonation solution (weak = strong root, vm = c_b)."""
    eos = as_eos(eos)

    def top(vw):
        T0, Tcj = _deton_cj_point(eos, Tn, vw)
        if Tcj <= T0:
            return -1.0  # vm < c_b already at the start of the momentum-conserving line
        r = _deton_functions(eos, Tn, vw)[1](Tcj)
        return r / (eos.ws(Tn) * g2(vw) * vw)

    lo = math.sqrt(eos.cb2(Tn)) * 0.5
    hi = 1.0 - 1e-9
    try:
        flo, fhi = top(lo), top(hi)
    except RefFailure as exc:
        raise RefFailure(f"vJ:{exc}")
    if not (flo < 0 < fhi):
        # scan
        grid = np.linspace(0.05, 1 - 1e-6, 60)
        vals = []
        for x in grid:
            try:
                vals.append(top(float(x)))
            except RefFailure:
                vals.append(float("nan"))
        idx = [i for i in range(len(grid) - 1) if vals[i] < 0 < vals[i + 1]]
        if not idx:
            raise RefFailure("vJ:no-bracket")
        lo, hi = float(grid[idx[0]]), float(grid[idx[0] + 1])
    vJ = brentq(top, lo, hi, xtol=1e-300, rtol=1e-14, maxiter=200)
    return vJ, _deton_cj_point(eos, Tn, vJ)[1]


def match(eos, Tn, vw, vJ=None, want_kappa=False):
    eos = as_eos(eos)
    if vJ is None:
        vJ = chapman_jouguet(eos, Tn)[0]
    if vw > vJ:
        return detonation(eos, Tn, vw)
    return match_deflag(eos, Tn, vw, want_kappa=want_kappa)


# ---------------------------------------------------------------------------------------------
# efficiency factor, energy budget
# ---------------------------------------------------------------------------------------------
def kappa(eos, Tn, vw, vp, vm, Tp, Tm, shock=None):
    """(kappa, kappa_shock, kappa_rarefaction) of the self-similar profile started from the given
    wall states.  Raises RefFailure if an integration fails."""
    eos = as_eos(eos)
    norm = 4.0 / (vw ** 3 * alpha_n(eos, Tn) * eos.ws(Tn))
    ksw = krw = 0.0
    if vp < vw:
        sh = shock if (shock is not None and shock.ok and (shock.sol is not None or shock.kind != "shock")
                       and shock.kappa_int is not None) else None
        if sh is None or (sh.kind == "shock" and sh.kappa_int == 0.0):
            sh = integrate_shock(eos, vw, vp, Tp, want_kappa=True)
        if not sh.ok:
            raise RefFailure(f"kappa-shock:{sh.reason}")
        ksw = norm * sh.kappa_int
    if vm < vw:
        ra = integrate_rarefaction(eos, vw, vm, Tm)
        if not ra.ok:
            raise RefFailure(f"kappa-rarefaction:{ra.reason}")
        krw = norm * ra.kappa_int
    return ksw + krw, ksw, krw


def energy_budget(eos, Tn, vw, m):
    """[Int_0^xi_max (w g^2 - p) xi^2 d xi - e_n xi_max^3/3] / (w_n xi_max^3/3) for the matched profile
    `m` (Matching).  Zero for an exact solution when both front conditions hold (constant c_s ahead)."""
    eos = as_eos(eos)
    en, wn = eos.es(Tn), eos.ws(Tn)
    tot = 0.0
    if m.kind == "detonation":
        xi_max = vw
    else:
        sh = integrate_shock(eos, vw, m.vp, m.Tp, want_kappa=False)
        if not sh.ok:
            raise RefFailure("budget-shock")
        xi_max = sh.xi_sh
        if sh.sol is not None:
            ts = np.append(sh.sol.t[sh.sol.t < sh.xi_sh], sh.xi_sh)

            def f(t, y):
                v, T = y
                return np.array([(eos.ws(float(Ti)) / (1 - vi * vi) - eos.ps(float(Ti))) * ti * ti
                                 for ti, vi, Ti in zip(t, v, T)])

            tot += _gl_steps(ts, sh.sol.sol, f)
    # behind the wall
    if m.vm < vw:
        ra = integrate_rarefaction(eos, vw, m.vm, m.Tm, v_stop=1e-6)
        if not ra.ok:
            raise RefFailure("budget-rarefaction")
        ts = np.append(ra.sol.t[ra.sol.t < ra.s_end], ra.s_end)

        def fb(s, y):
            v, T = y
            xi = vw - s * s
            return np.array([(eos.wb(float(Ti)) / (1 - vi * vi) - eos.pb(float(Ti))) * xi_ * xi_ * 2 * si
                             for si, xi_, vi, Ti in zip(s, xi, v, T)])

        tot += _gl_steps(ts, ra.sol.sol, fb)
        s0 = float(ra.sol.t[0])
        if s0 > 0:
            tot += (eos.wb(m.Tm) * g2(ra.v0) - eos.pb(m.Tm)) * vw * vw * s0 * s0
        tot += eos.eb(ra.T_end) * ra.xi_end ** 3 / 3.0
    else:
        tot += eos.eb(m.Tm) * vw ** 3 / 3.0
    return (tot - en * xi_max ** 3 / 3.0) / (wn * xi_max ** 3 / 3.0)


# ---------------------------------------------------------------------------------------------
# additions for C05 / C06 / C15 (entropy mismatch, detonation adiabat, minimal velocity, LTE root)
# ---------------------------------------------------------------------------------------------
def entropy_mismatch(vp, vm, Tp, Tm):
    """S/(T+ gamma+) with S = T+ gamma+ - T- gamma-  (zero in local thermal equilibrium)."""
    a, b = Tp / math.sqrt(1.0 - vp * vp), Tm / math.sqrt(1.0 - vm * vm)
    return (a - b) / a


def deton_vp(eos, Tn, Tm):
    """v+ on the detonation adiabat (T+ = Tn) as a function of T-, from the two flux equations:
    v+ v- = (p_s - p_b)/(e_s - e_b),  v+/v- = (e_b + p_s)/(e_s + p_b).  NaN where no real solution."""
    eos = as_eos(eos)
    ps, es = eos.ps(Tn), eos.es(Tn)
    pb, eb = eos.pb(Tm), eos.eb(Tm)
    den = (es - eb) * (es + pb)
    if den == 0.0:
        return float("nan")
    x = (ps - pb) * (eb + ps) / den
    return math.sqrt(x) if x >= 0.0 else float("nan")


def deton_vm(eos, Tn, Tm):
    """v- on the detonation adiabat (companion of deton_vp)."""
    eos = as_eos(eos)
    ps, es = eos.ps(Tn), eos.es(Tn)
    pb, eb = eos.pb(Tm), eos.eb(Tm)
    den = (es - eb) * (eb + ps)
    if den == 0.0:
        return float("nan")
    x = (ps - pb) * (es + pb) / den
    return math.sqrt(x) if x >= 0.0 else float("nan")


def jouguet_by_minimisation(eos, Tn):
    """(vJ, TmJ) as the minimum over T- of the detonation v+(T-): an independent characterisation of
    the Chapman-Jouguet point (chapman_jouguet uses v- = c_b on the momentum-conserving line).
    The detonation part of the adiabat starts where e_b(T-) = e_s(Tn) (v+ -> infinity)."""
    eos = as_eos(eos)
    es = eos.es(Tn)
    floor = max(1e-6 * Tn, eos.Tfloor)
    if eos.eb(floor) >= es:
        Te = floor
    else:
        Te = _root_increasing(eos.eb, Tn, es, floor, 1e4 * Tn, "adiabat-start")
    # geometric scan for the first local minimum of v+ above Te
    prev_T, prev_v = None, float("inf")
    T = Te * (1.0 + 1e-9)
    step = 1e-3
    pts = []
    for _ in range(4000):
        v = deton_vp(eos, Tn, T)
        pts.append((T, v))
        if v == v and prev_v == prev_v and v > prev_v and len(pts) >= 3:
            break
        if v == v:
            prev_T, prev_v = T, v
        T *= 1.0 + step
        step = min(step * 1.15, 0.05)
        if T > 1e4 * Tn:
            raise RefFailure("vJ-min:no-minimum")
    else:
        raise RefFailure("vJ-min:no-minimum")
    a, b = pts[-3][0], pts[-1][0]
    # golden-section on v+^2 (smooth, unimodal on [a, b])
    gr = (math.sqrt(5.0) - 1.0) / 2.0
    c, d = b - gr * (b - a), a + gr * (b - a)
    fc, fd = deton_vp(eos, Tn, c), deton_vp(eos, Tn, d)
    for _ in range(200):
        if not (fc == fc and fd == fd):
            raise RefFailure("vJ-min:nan")
        if fc < fd:
            b, d, fd = d, c, fc
            c = b - gr * (b - a)
            fc = deton_vp(eos, Tn, c)
        else:
            a, c, fc = c, d, fd
            d = a + gr * (b - a)
            fd = deton_vp(eos, Tn, d)
        if b - a < 1e-9 * b:
            break
    Tm = 0.5 * (a + b)
    return min(fc, fd, deton_vp(eos, Tn, Tm)), Tm


def min_velocity(eos, Tn, Tm_floor=0.0):
    """(vmin, dTn'/dvw, Tp): smallest wall speed for which a deflagration reaches Tn ahead of the front.
    The strongest shock has v+ = 0: no energy flux through the wall, so p_s(T+) = p_b(Tm_floor)
    (Tm_floor = 0: the exact limit, p_b = 0 for the zoo's template-form EOS; WallGo.Hydrodynamics uses
    Tm_floor = TMinHydro).  Returns vmin = 0.0 (slope None) if Tn' < Tn for every wall speed: no minimum."""
    eos = as_eos(eos)
    target = eos.pb(Tm_floor) if Tm_floor > 0.0 else 0.0
    floor = max(1e-9 * Tn, eos.Tfloor)
    if eos.ps(floor) >= target:
        raise RefFailure("vmin:Tp-below-floor")
    # p_s increases with T; T+ may lie on either side of Tn (the shock heats the plasma in front of the wall)
    Tp = _root_increasing(eos.ps, Tn, target, floor, 1e4 * Tn, "vmin-Tp")

    def f(vw):
        sh = integrate_shock(eos, vw, 0.0, Tp, want_kappa=False)
        if not sh.ok:
            raise RefFailure(f"vmin-shock:{sh.reason}")
        return sh.Tn_out - Tn

    lo, hi = 1e-6, 1.0 - 1e-6   # with v+ = 0 the front is ahead of the wall for every wall speed (v+ vw < c_s^2)
    flo, fhi = f(lo), f(hi)
    if flo < 0 and fhi < 0:
        return 0.0, None, Tp   # even the strongest shock of the slowest wall leaves Tn' < Tn: no minimal velocity
    if flo * fhi > 0:
        raise RefFailure("vmin:no-bracket")
    vmin = brentq(f, lo, hi, xtol=1e-300, rtol=1e-13, maxiter=200)
    h = 1e-5 * vmin
    slope = (f(vmin + h) - f(vmin - h)) / (2 * h)
    return vmin, slope, Tp


def lte_root(eos, Tn, lo, hi, guess=None, xtol_rel=1e-12):
    """Wall speed in [lo, hi] at which the Tn-matched deflagration/hybrid has T+ gamma+ = T- gamma-.
    Returns (v, matching at v) or raises RefFailure (no sign change / matcher failure)."""
    eos = as_eos(eos)
    last = {}

    def g(v):
        m = match_deflag(eos, Tn, v, hint_vp=last.get("vp"))
        if not m.ok:
            raise RefFailure(f"lte:{m.reason}")
        last["vp"] = m.vp  # only a work-saving hint for the next call
        last["m"] = m
        return entropy_mismatch(m.vp, m.vm, m.Tp, m.Tm)

    if guess is not None and lo < guess < hi:
        w = 1e-4 * guess
        a, b = max(lo, guess - w), min(hi, guess + w)
        ga, gb = g(a), g(b)
        if ga * gb > 0:
            a, b = lo, hi
            ga, gb = g(a), g(b)
    else:
        a, b = lo, hi
        ga, gb = g(a), g(b)
    if ga * gb > 0:
        raise RefFailure("lte:no-sign-change")
    v = brentq(g, a, b, xtol=1e-300, rtol=xtol_rel, maxiter=200)
    g(v)
    return v, last["m"]


# ---------------------------------------------------------------------------------------------
# closed forms from the literature (validation only)
# ---------------------------------------------------------------------------------------------
def bag_vJ(al):
    """Jouguet velocity of the bag model, Espinosa et al. 1004.4187 eq. (39)... xi_J."""
    return (math.sqrt(al * (2.0 + 3.0 * al)) + 1.0) / (math.sqrt(3.0) * (1.0 + al))


def template_vJ(al, cb2):
    """Giese et al. 2010.09744 / Ai et al. 2303.10171 eq. (25)."""
    cb = math.sqrt(cb2)
    return cb * (1 + math.sqrt(3 * al * (1 - cb2 + 3 * cb2 * al))) / (1 + 3 * cb2 * al)


def bag_vp_of_vm(vm, alp, branch=-1):
    """Bag-model junction, 1004.4187 eq. (19)."""
    x = vm / 2.0 + 1.0 / (6.0 * vm)
    return (x + branch * math.sqrt(max(x * x + alp * alp + 2.0 * alp / 3.0 - 1.0 / 3.0, 0.0))) / (1.0 + alp)


def espinosa_kappa(al, vw):
    """Fits of appendix A of 1004.4187 (stated accuracy: a few per cent, < 10 %)."""
    cs = 1.0 / math.sqrt(3.0)
    xJ = bag_vJ(al)
    kA = vw ** 1.2 * 6.9 * al / (1.36 - 0.037 * math.sqrt(al) + al)
    kB = al ** 0.4 / (0.017 + (0.997 + al) ** 0.4)
    kC = math.sqrt(al) / (0.135 + math.sqrt(0.98 + al))
    kD = al / (0.73 + 0.083 * math.sqrt(al) + al)
    if vw <= cs:
        return cs ** 2.2 * kA * kB / ((cs ** 2.2 - vw ** 2.2) * kB + vw * cs ** 1.2 * kA)
    if vw < xJ:
        dk = -0.9 * math.log(math.sqrt(al) / (1 + math.sqrt(al)))
        return kB + (vw - cs) * dk + (vw - cs) ** 3 / (xJ - cs) ** 3 * (kC - kB - (xJ - cs) * dk)
    return ((xJ - 1) ** 3 * xJ ** 2.5 * vw ** -2.5 * kC * kD
            / (((xJ - 1) ** 3 - (vw - 1) ** 3) * xJ ** 2.5 * kC + (vw - 1) ** 3 * kD))


# ---------------------------------------------------------------------------------------------
# self validation
# ---------------------------------------------------------------------------------------------
def _validate(verbose=True):
    from . import core

    core.use_repo()
    from . import zoo_eos as Z

    out = {"max_vJ_bag": 0.0, "max_vJ_template": 0.0, "max_vp_bag": 0.0, "max_budget": 0.0,
           "max_mom": 0.0, "max_kappa_fit": 0.0, "n": 0}
    rows = []
    for al in (0.003, 0.03, 0.1, 0.3, 1.0, 3.0):
        for psi in (0.6, 0.995):
            alN = max(al, (1 - psi) / 3 + 1e-3)
            th, meta = Z.build({"family": "bag", "Tn": 1.7, "alN": alN, "psiN": psi, "g": 2.3})
            eos = Eos(th)
            vJ, _ = chapman_jouguet(eos, 1.7)
            out["max_vJ_bag"] = max(out["max_vJ_bag"], abs(vJ - bag_vJ(alN)))
            for vw in (0.05, 0.3, 0.5, 0.57, 0.6, 0.5 * (0.6 + vJ), vJ - 1e-3, vJ + 1e-3, 0.5 * (vJ + 1), 0.97):
                m = match(eos, 1.7, vw, vJ, want_kappa=True)
                if not m.ok:
                    rows.append((alN, psi, vw, m.reason))
                    continue
                alp = alN * (1.7 / m.Tp) ** 4
                br = 1 if m.kind == "detonation" else -1
                out["max_vp_bag"] = max(out["max_vp_bag"], abs(m.vp - bag_vp_of_vm(m.vm, alp, br)))
                k, ks, kr = kappa(eos, 1.7, vw, m.vp, m.vm, m.Tp, m.Tm)
                bud = energy_budget(eos, 1.7, vw, m)
                out["max_budget"] = max(out["max_budget"], abs(bud))
                if m.shock is not None and m.shock.mom_res is not None:
                    out["max_mom"] = max(out["max_mom"], abs(m.shock.mom_res))
                fit = espinosa_kappa(alN, vw)
                if vw >= 0.2:  # the small-vw fit (kappa ~ vw^6/5) is not meant for vw -> 0 (exact: ~ vw^2)
                    out["max_kappa_fit"] = max(out["max_kappa_fit"], abs(k / fit - 1))
                out["n"] += 1
                rows.append((round(alN, 4), psi, round(vw, 4), m.kind, round(k, 6), round(fit, 6),
                             f"{k / fit - 1:+.3f}", f"{bud:.1e}"))
    for al, cs2, cb2 in ((0.05, 0.3, 0.25), (0.4, 0.22, 0.33), (0.01, 1 / 3, 0.2)):
        psi = 0.99
        th, meta = Z.build({"family": "template", "Tn": 40.0, "alN": al, "psiN": psi, "cs2": cs2, "cb2": cb2, "g": 1.0})
        eos = Eos(th)
        vJ, _ = chapman_jouguet(eos, 40.0)
        out["max_vJ_template"] = max(out["max_vJ_template"], abs(vJ - template_vJ(meta["alN"], cb2)))
        for vw in (0.2, 0.45, 0.9 * vJ, 0.5 * (vJ + 1)):
            m = match(eos, 40.0, vw, vJ, want_kappa=True)
            if m.ok:
                out["max_budget"] = max(out["max_budget"], abs(energy_budget(eos, 40.0, vw, m)))
                out["n"] += 1
            else:
                rows.append((al, cs2, cb2, vw, m.reason))
    if verbose:
        for r in rows:
            print(r)
        print(out)
    return out


if __name__ == "__main__":
    _validate()
