"""Generic runner:  ./run <ID> quick|thorough   |   ./run <ID> --replay <file>

Exit codes: 0 property held on everything explored (KNOWN-FINDING lines allowed),
            1 at least one unlisted violation (VIOLATION property=<id> replay=<path>),
            2 harness error (never a violation).
See DESIGN.md section 2.
"""
from __future__ import annotations

import glob
import importlib
import json
import multiprocessing as mp
import os
import sys
import time
import traceback
from collections import Counter

from . import core
from .core import VERIF_DIR, Verdict, case_hash, crash_verdict, jsonable, load_findings, match_known

MAX_SAMPLES = 12
MAX_VIOL_CASES_PER_SIG = 5


def find_module(prop_id: str):
    hits = sorted(glob.glob(os.path.join(VERIF_DIR, "checks", f"{prop_id.lower()}_*.py")))
    if not hits:
        raise SystemExit(f"no check module for {prop_id}")
    name = os.path.splitext(os.path.basename(hits[0]))[0]
    return f"checks.{name}"


def _silence():
    import logging
    import warnings

    logging.disable(logging.CRITICAL)
    warnings.filterwarnings("ignore")
    try:
        import numpy as np

        np.seterr(all="ignore")
    except Exception:
        pass


class _Found(Exception):
    def __init__(self, case):
        super().__init__("violation")
        self.case = case


class Accumulator:
    """Collects what a shard did.  Lives inside a worker process."""

    def __init__(self, module, findings, deadline, raise_on=None, dedupe=False):
        self.claim_dir = os.environ.get("VERIF_CLAIM_DIR") if (dedupe and raise_on is None) else None
        self.duplicates = 0
        self.module = module
        self.findings = findings
        self.deadline = deadline
        self.raise_on = raise_on
        self.evaluations = 0
        self.skipped_time = 0
        self.nontrivial_hashes = set()
        self.labels = Counter()
        self.discards = Counter()
        self.subs = Counter()
        self.samples = []
        self.viol = {}  # sig -> {"known": entry-or-None, "count": n, "cases": [..]}
        self.harness_errors = []
        self.info_max = {}
        self.last_raised = None
        self.smallest_raised = None

    def time_up(self):
        return self.deadline is not None and time.time() > self.deadline

    def run(self, case):
        if self.time_up():
            self.skipped_time += 1
            return None
        if self.claim_dir:
            # expensive checks: identical cases drawn by several shards (Hypothesis' first example
            # is the same for every seed) are evaluated once
            try:
                fd = os.open(os.path.join(self.claim_dir, case_hash(case)),
                             os.O_CREAT | os.O_EXCL | os.O_WRONLY)
                os.close(fd)
            except FileExistsError:
                self.duplicates += 1
                return None
        try:
            verdict = self.module.check_case(case)
        except Exception as exc:  # noqa: BLE001
            verdict = crash_verdict(exc)
            if verdict is None:
                if len(self.harness_errors) < 3:
                    self.harness_errors.append(
                        {"case": jsonable(case), "traceback": traceback.format_exc()[-4000:]}
                    )
                self.evaluations += 1
                return None
        self.record(case, verdict)
        return verdict

    def record(self, case, verdict: Verdict):
        self.evaluations += 1
        for lab in verdict.labels:
            self.labels[lab] += 1
        for s in verdict.subs_checked:
            self.subs[s] += 1
        if verdict.discard:
            self.discards[verdict.discard] += 1
        for k, val in verdict.info.items():
            if isinstance(val, (int, float)) and not isinstance(val, bool) and val == val:
                if abs(val) > self.info_max.get(k, -1.0):
                    self.info_max[k] = abs(float(val))
        if verdict.nontrivial and not verdict.discard:
            self.nontrivial_hashes.add(case_hash(case))
        if len(self.samples) < MAX_SAMPLES and (verdict.nontrivial or len(self.samples) < 3):
            self.samples.append({"case": jsonable(case), "verdict": verdict.to_json()})
        hit = False
        for viol in verdict.violations:
            sig = f"{viol['sub']}|{viol['cls']}"
            slot = self.viol.setdefault(
                sig, {"known": None, "count": 0, "cases": [], "sub": viol["sub"], "cls": viol["cls"]}
            )
            known = match_known(viol, self.findings)
            slot["known"] = known["id"] if known else None
            slot["count"] += 1
            if len(slot["cases"]) < MAX_VIOL_CASES_PER_SIG:
                slot["cases"].append({"case": jsonable(case), "violation": viol})
            if self.raise_on is not None and sig == self.raise_on:
                hit = True
        if hit:
            self.last_raised = jsonable(case)
            size = len(core.canonical(case))
            if self.smallest_raised is None or size < self.smallest_raised[0]:
                self.smallest_raised = (size, jsonable(case))
            raise _Found(case)

    def result(self):
        return {
            "evaluations": self.evaluations,
            "skipped_time": self.skipped_time,
            "duplicates": self.duplicates,
            "nontrivial_hashes": list(self.nontrivial_hashes),
            "labels": dict(self.labels),
            "discards": dict(self.discards),
            "subs": dict(self.subs),
            "samples": self.samples,
            "viol": self.viol,
            "harness_errors": self.harness_errors,
            "info_max": self.info_max,
            "last_raised": self.last_raised,
            "smallest_raised": self.smallest_raised[1] if self.smallest_raised else None,
        }


def _hyp_settings(n, steps=None, shrink=False):
    from hypothesis import HealthCheck, Phase, settings

    kw = dict(
        max_examples=max(1, n),
        database=None,
        deadline=None,
        derandomize=False,
        report_multiple_bugs=False,
        suppress_health_check=[
            HealthCheck.too_slow,
            HealthCheck.data_too_large,
            HealthCheck.large_base_example,
        ],
        phases=[Phase.generate, Phase.shrink] if shrink else [Phase.generate],
    )
    if steps is not None:
        kw["stateful_step_count"] = steps
    return settings(**kw)


def _shard(job):
    """Run one shard in a fresh process."""
    (modname, tier, kind, shard_idx, nshards, shard_seed, n_cases, deadline, raise_on) = job
    _silence()
    core.use_repo()
    t0 = time.time()
    try:
        module = importlib.import_module(modname)
        findings = load_findings(module.PROPERTY_ID)
        budget = module.BUDGET[tier]
        acc = Accumulator(module, findings, deadline, raise_on, dedupe=budget.get("dedupe", False))
        if kind == "enum":
            for i, case in enumerate(module.enumerate_cases(tier)):
                if i % nshards != shard_idx:
                    continue
                try:
                    acc.run(case)
                except _Found:
                    pass
        elif kind == "replay":
            pass
        else:
            import hypothesis
            from hypothesis import given

            shrink = raise_on is not None
            if kind == "given":
                def body(case):
                    acc.run(case)

                test = given(module.strategy(tier))(body)
                test = hypothesis.seed(shard_seed)(
                    _hyp_settings(n_cases, shrink=shrink)(test)
                )
                try:
                    test()
                except _Found:
                    pass
                except hypothesis.errors.Flaky:
                    pass
            elif kind == "machine":
                from hypothesis.stateful import run_state_machine_as_test

                cls = module.machine(tier, acc)
                try:
                    run_state_machine_as_test(
                        hypothesis.seed(shard_seed)(cls),
                        settings=_hyp_settings(
                            n_cases, steps=budget.get("steps", 20), shrink=shrink
                        ),
                    )
                except _Found:
                    pass
                except hypothesis.errors.Flaky:
                    pass
        res = acc.result()
        res["wall_s"] = time.time() - t0
        res["shard"] = shard_idx
        return res
    except BaseException:  # noqa: BLE001
        return {
            "fatal": traceback.format_exc()[-6000:],
            "shard": shard_idx,
            "wall_s": time.time() - t0,
        }


def _merge(results):
    tot = {
        "evaluations": 0,
        "skipped_time": 0,
        "duplicates": 0,
        "nontrivial_hashes": set(),
        "labels": Counter(),
        "discards": Counter(),
        "subs": Counter(),
        "samples": [],
        "viol": {},
        "harness_errors": [],
        "fatal": [],
        "info_max": {},
    }
    for r in results:
        if "fatal" in r:
            tot["fatal"].append(r["fatal"])
            continue
        tot["evaluations"] += r["evaluations"]
        tot["skipped_time"] += r["skipped_time"]
        tot["duplicates"] += r.get("duplicates", 0)
        tot["nontrivial_hashes"].update(r["nontrivial_hashes"])
        tot["labels"].update(r["labels"])
        tot["discards"].update(r["discards"])
        tot["subs"].update(r["subs"])
        tot["harness_errors"].extend(r["harness_errors"])
        for k, val in r.get("info_max", {}).items():
            tot["info_max"][k] = max(val, tot["info_max"].get(k, -1.0))
        for s in r["samples"]:
            s = dict(s)
            s["shard"] = r["shard"]
            tot["samples"].append(s)
        for sig, slot in r["viol"].items():
            dst = tot["viol"].setdefault(
                sig,
                {"known": slot["known"], "count": 0, "cases": [], "sub": slot["sub"],
                 "cls": slot["cls"], "shards": []},
            )
            dst["count"] += slot["count"]
            dst["cases"].extend(slot["cases"])
            dst["shards"].append(r["shard"])
    return tot


def _pool_run(jobs, nproc):
    if not jobs:
        return []
    ctx = mp.get_context("fork")
    with ctx.Pool(processes=min(nproc, len(jobs)), maxtasksperchild=1) as pool:
        return pool.map(_shard, jobs, chunksize=1)


def _pick_samples(samples, k=8):
    """First few plus an even spread, preferring non-trivial ones."""
    nt = [s for s in samples if s["verdict"]["nontrivial"]]
    rest = [s for s in samples if not s["verdict"]["nontrivial"]]
    out = []
    if nt:
        step = max(1, len(nt) // max(1, k - 2))
        out.extend(nt[::step][: k - 2])
    out.extend(rest[:2])
    return out[:k] or samples[:k]


def _write_replay(prop_id, sig, case):
    d = os.environ.get("VERIF_FOUND_DIR") or os.path.join(VERIF_DIR, "replays", prop_id)
    os.makedirs(d, exist_ok=True)
    safe = "".join(c if c.isalnum() else "_" for c in sig)[:60]
    path = os.path.join(d, f"found_{safe}_{case_hash(case)}.json")
    with open(path, "w") as fh:
        json.dump(jsonable(case), fh, indent=1, sort_keys=True)
    return path


def run_replays(module, prop_id, findings, only=None):
    """Run committed replay files (and earlier found ones) without Hypothesis."""
    files = [only] if only else sorted(
        glob.glob(os.path.join(VERIF_DIR, "replays", prop_id, "*.json"))
    )
    out = []
    for path in files:
        with open(path) as fh:
            case = json.load(fh)
        try:
            verdict = module.check_case(case)
        except Exception as exc:  # noqa: BLE001
            verdict = crash_verdict(exc)
            if verdict is None:
                out.append({"path": path, "harness_error": traceback.format_exc()[-4000:]})
                continue
        out.append({"path": path, "case": case, "verdict": verdict})
    return out


def main(argv=None):
    argv = list(sys.argv[1:] if argv is None else argv)
    if not argv:
        print("usage: run <ID> quick|thorough | run <ID> --replay <file>")
        return 2
    prop_id = argv[0].upper()
    replay_only = None
    tier = os.environ.get("VERIF_TIER", "quick")
    if len(argv) >= 3 and argv[1] == "--replay":
        replay_only = os.path.abspath(argv[2])
    elif len(argv) >= 2:
        tier = argv[1]
    if tier not in ("quick", "thorough"):
        print(f"unknown tier {tier}")
        return 2
    seed = int(os.environ.get("VERIF_SEED", "1") or "1")
    nproc = int(os.environ.get("VERIF_PROCS", "16"))
    t0 = time.time()
    _silence()
    core.use_repo()
    modname = find_module(prop_id)
    try:
        module = importlib.import_module(modname)
    except Exception:  # noqa: BLE001
        print("HARNESS-ERROR: cannot import check module or WallGo")
        traceback.print_exc()
        return 2
    findings = load_findings(prop_id)
    budget = module.BUDGET[tier]
    cap = float(os.environ.get("VERIF_TIME_CAP", budget.get("time_cap_s", 0)) or 0)
    deadline = (t0 + cap) if cap > 0 else None

    # ---- 1. replays ------------------------------------------------------
    replay_results = run_replays(module, prop_id, findings, only=replay_only)
    viol_unlisted = []  # (sig, path, violation)
    known_hit = {}
    harness_errors = []
    replay_evals = 0
    replay_nontrivial = set()
    replay_labels = Counter()
    for r in replay_results:
        if "harness_error" in r:
            harness_errors.append({"replay": r["path"], "traceback": r["harness_error"]})
            continue
        replay_evals += 1
        v = r["verdict"]
        for lab in v.labels:
            replay_labels[lab] += 1
        if v.nontrivial and not v.discard:
            replay_nontrivial.add(case_hash(r["case"]))
        for viol in v.violations:
            known = match_known(viol, findings)
            sig = f"{viol['sub']}|{viol['cls']}"
            if known:
                known_hit.setdefault(known["id"], {"entry": known, "count": 0})["count"] += 1
            else:
                viol_unlisted.append((sig, r["path"], viol))

    merged = None
    if replay_only is None:
        # ---- 2. generated / enumerated search ---------------------------
        jobs = []
        nshards = int(budget.get("shards", nproc))
        if hasattr(module, "enumerate_cases") and budget.get("enumerate", True):
            for i in range(nshards):
                jobs.append((modname, tier, "enum", i, nshards, 0, 0, deadline, None))
        n_cases = int(budget.get("cases", 0))
        kind = "machine" if hasattr(module, "machine") and budget.get("stateful", True) else "given"
        if n_cases > 0 and (hasattr(module, "strategy") or hasattr(module, "machine")):
            per = max(1, -(-n_cases // nshards))
            for i in range(nshards):
                jobs.append(
                    (modname, tier, kind, i, nshards, seed * 1000 + i, per, deadline, None)
                )
            # modules may offer both a machine and a plain strategy
            if kind == "machine" and hasattr(module, "strategy") and budget.get("given_cases", 0):
                per2 = max(1, -(-int(budget["given_cases"]) // nshards))
                for i in range(nshards):
                    jobs.append(
                        (modname, tier, "given", i, nshards, seed * 1000 + 500 + i, per2,
                         deadline, None)
                    )
        import shutil
        import tempfile

        claim_dir = tempfile.mkdtemp(prefix="verif_claims_")
        os.environ["VERIF_CLAIM_DIR"] = claim_dir
        try:
            results = _pool_run(jobs, nproc)
        finally:
            shutil.rmtree(claim_dir, ignore_errors=True)
            os.environ.pop("VERIF_CLAIM_DIR", None)
        merged = _merge(results)
        harness_errors.extend(merged["harness_errors"])
        for f in merged["fatal"]:
            harness_errors.append({"fatal": f})

        # ---- 3. violations: known vs unlisted; shrink unlisted ------------
        for sig, slot in sorted(merged["viol"].items()):
            if slot["known"]:
                ent = next(e for e in findings if e["id"] == slot["known"])
                known_hit.setdefault(ent["id"], {"entry": ent, "count": 0})["count"] += slot["count"]
                continue
            rep = min(slot["cases"], key=lambda c: len(core.canonical(c["case"])))
            case = rep["case"]
            if budget.get("shrink", False) and len(viol_unlisted) < 3:
                # re-run the shard that found it, same seed, raising on this signature so that
                # Hypothesis shrinks it; generation is a pure function of the seed.
                job = next(
                    (j for j in jobs if j[2] in ("given", "machine") and j[3] in slot["shards"]),
                    None,
                )
                if job is not None:
                    sdl = time.time() + float(budget.get("shrink_cap_s", 120))
                    j2 = job[:7] + (sdl, sig)
                    r2 = _pool_run([j2], 1)[0]
                    cand = r2.get("last_raised") or r2.get("smallest_raised")
                    if cand is not None and len(core.canonical(cand)) <= len(core.canonical(case)):
                        case = cand
            path = _write_replay(prop_id, sig, case)
            viol_unlisted.append((sig, path, rep["violation"]))

    # ---- 4. evidence -----------------------------------------------------
    evaluations = replay_evals + (merged["evaluations"] if merged else 0)
    nontrivial = set(replay_nontrivial)
    labels = Counter(replay_labels)
    discards = Counter()
    subs = Counter()
    samples = []
    skipped = 0
    if merged:
        nontrivial.update(merged["nontrivial_hashes"])
        labels.update(merged["labels"])
        discards.update(merged["discards"])
        subs.update(merged["subs"])
        samples = _pick_samples(merged["samples"])
        skipped = merged["skipped_time"]
    if not samples:
        samples = [
            {"case": jsonable(r["case"]), "verdict": r["verdict"].to_json()}
            for r in replay_results[:5]
            if "case" in r
        ]
    n_disc = sum(discards.values())
    coverage = {
        "evaluations": int(evaluations),
        "distinct_nontrivial": len(nontrivial),
        "rule": getattr(module, "RULE", ""),
        "samples": samples,
        "labels": dict(sorted(labels.items())),
        "sub_oracles_evaluated": dict(sorted(subs.items())),
        "discards_by_reason": dict(discards),
        "discard_fraction": (n_disc / evaluations) if evaluations else 0.0,
        "replay_files_run": replay_evals,
        "cases_skipped_by_time_cap": skipped,
        "duplicate_cases_not_reevaluated": (merged["duplicates"] if merged else 0),
        "inconclusive_time_cap": bool(skipped),
        "known_findings_hit": {k: v["count"] for k, v in known_hit.items()},
        "tolerances": jsonable(getattr(module, "TOLERANCES", {})),
        "max_abs_of_measured_quantities": (merged["info_max"] if merged else {}),
        "exhaustive": False,
        "exhaustive_subdomains": getattr(module, "EXHAUSTIVE_SUBDOMAINS", []),
        "engine": getattr(module, "ENGINE", "hypothesis"),
        "unlisted_violation_signatures": sorted({s for s, _, _ in viol_unlisted}),
    }
    evidence = {
        "property_id": prop_id,
        "tier": tier,
        "seed": seed,
        "level": "exploration",
        "coverage": coverage,
        "assumptions": list(getattr(module, "ASSUMPTIONS", [])),
        "wall_s": round(time.time() - t0, 2),
        "violations": len({s for s, _, _ in viol_unlisted}),
    }
    if replay_only is None:
        ev_dir = os.environ.get("VERIF_EVIDENCE_DIR") or os.path.join(VERIF_DIR, "evidence")
        os.makedirs(ev_dir, exist_ok=True)
        ev_path = os.path.join(ev_dir, f"{prop_id}.json")
        with open(ev_path, "w") as fh:
            json.dump(evidence, fh, indent=1, sort_keys=True)
        try:
            import jsonschema

            with open(os.path.join(VERIF_DIR, "vlib", "EVIDENCE.schema.json")) as fh:
                schema = json.load(fh)
            # (a run in which every case violates has no non-trivial passing cases; report the
            #  violations rather than an evidence-schema error)
            if not harness_errors and not viol_unlisted:
                jsonschema.validate(evidence, schema)
        except ImportError:
            pass
        except Exception as exc:  # noqa: BLE001
            harness_errors.append({"evidence_schema": str(exc)[:500]})

    # ---- 5. report -------------------------------------------------------
    print(
        f"[{prop_id}] tier={tier} seed={seed} evaluations={evaluations} "
        f"distinct_nontrivial={len(nontrivial)} discards={n_disc} "
        f"wall={time.time() - t0:.1f}s"
    )
    for kid, slot in known_hit.items():
        ent = slot["entry"]
        print(f"KNOWN-FINDING: property={prop_id} {ent['id']}: {ent['description']} "
              f"(reproduced {slot['count']}x)")
    for ent in findings:
        if ent.get("status") == "known" and ent["id"] not in known_hit:
            print(f"NOTE: listed finding {ent['id']} did not reproduce in this run")
    if harness_errors:
        print(f"HARNESS-ERROR: {len(harness_errors)} error(s); first:")
        print(json.dumps(harness_errors[0], indent=1)[:6000].replace("\\n", "\n"))
        return 2
    if evaluations and n_disc / evaluations > float(budget.get("max_discard", 0.30)):
        print(f"HARNESS-ERROR: discard fraction {n_disc / evaluations:.2f} too high: "
              f"{dict(discards)}")
        return 2
    if viol_unlisted:
        seen = set()
        for sig, path, viol in viol_unlisted:
            if sig in seen:
                continue
            seen.add(sig)
            print(f"VIOLATION property={prop_id} replay={path}")
            print(f"  sub-oracle={viol['sub']} class={viol['cls']}: {viol['msg']}")
        return 1
    return 0


if __name__ == "__main__":
    sys.exit(main())
