"""End-to-end helpers shared by C01/C07/C08: run the public WallGoManager pipeline on a zoo model and
summarise the outputs as plain JSON (floats survive a JSON round trip bit-exactly).

`fresh_run(job)` executes a job in a brand-new interpreter (subprocess), which is what "a fresh
manager in a fresh process" means for the history-independence oracle.
"""
from __future__ import annotations

import json
import os
import subprocess
import sys

import numpy as np

from . import core


def settings_obj(s):
    import WallGo

    return WallGo.WallSolverSettings(
        bIncludeOffEquilibrium=bool(s.get("offEq", False)),
        meanFreePathScale=float(s.get("mfp", 50.0)),
        wallThicknessGuess=float(s.get("thick", 5.0)),
    )


def _f(x):
    if x is None:
        return None
    x = float(x)
    if x != x:
        return "nan"
    if x in (float("inf"), float("-inf")):
        return "inf" if x > 0 else "-inf"
    return x


def _arr(a):
    return [_f(v) for v in np.asarray(a, dtype=float).ravel()]


def results_summary(r, profiles=True):
    out = {
        "success": bool(r.success),
        "solutionType": r.solutionType.name,
        "message": r.message,
        "wallVelocity": _f(r.wallVelocity),
        "wallVelocityLTE": _f(r.wallVelocityLTE),
        "wallVelocityError": _f(getattr(r, "wallVelocityError", None)),
    }
    for k in ("temperaturePlus", "temperatureMinus", "velocityJouguet"):
        out[k] = _f(getattr(r, k, None)) if hasattr(r, k) else None
    for k in ("wallWidths", "wallOffsets"):
        out[k] = _arr(getattr(r, k)) if hasattr(r, k) else None
    if profiles:
        for k in ("temperatureProfile", "velocityProfile"):
            out[k] = _arr(getattr(r, k)) if hasattr(r, k) else None
        if hasattr(r, "fieldProfiles"):
            fp = np.asarray(r.fieldProfiles, dtype=float)
            out["fieldProfiles"] = [_arr(row) for row in fp]
        if hasattr(r, "Deltas") and r.Deltas is not None:
            try:
                out["Delta00"] = _arr(r.Deltas.Delta00.coefficients)
            except Exception:  # noqa: BLE001
                pass
    return out


def _safe(fun, default=None):
    try:
        return fun()
    except Exception:  # noqa: BLE001
        return default


def hydro_summary(manager):
    h = manager.hydrodynamics
    t = manager.thermodynamics
    out = {
        "vJ": _f(h.vJ),
        "vMin": _f(h.vMin),
        "Tnucl": _f(h.Tnucl),
        "alN": _f(getattr(getattr(h, "template", None), "alN", None)),
        "psiN": _f(getattr(getattr(h, "template", None), "psiN", None)),
        "TMinHighT": _f(t.freeEnergyHigh.minPossibleTemperature[0]),
        "TMaxHighT": _f(t.freeEnergyHigh.maxPossibleTemperature[0]),
        "TMinLowT": _f(t.freeEnergyLow.minPossibleTemperature[0]),
        "TMaxLowT": _f(t.freeEnergyLow.maxPossibleTemperature[0]),
        "flagsHigh": [bool(t.freeEnergyHigh.minPossibleTemperature[1]),
                      bool(t.freeEnergyHigh.maxPossibleTemperature[1])],
        "flagsLow": [bool(t.freeEnergyLow.minPossibleTemperature[1]),
                     bool(t.freeEnergyLow.maxPossibleTemperature[1])],
        "fastestDeflag": _f(_safe(h.fastestDeflag)),
        "tracedHighAtTn": _arr(_safe(lambda: t.freeEnergyHigh(h.Tnucl).fieldsAtMinimum, [float("nan")])),
        "tracedLowAtTn": _arr(_safe(lambda: t.freeEnergyLow(h.Tnucl).fieldsAtMinimum, [float("nan")])),
        "phase1": _arr(manager.phasesAtTn.phaseLocation1),
        "phase2": _arr(manager.phasesAtTn.phaseLocation2),
    }
    return out


def do_job(job):
    """job = {"spec":…, "cfg":…, "what": [..], "settings":…, "coll_dir": path|None}
    what: any of "hydro", "lte", "solve", "boundaries:<vw>"."""
    from . import zoo_potentials as zp

    out = {}
    try:
        first = job.get("first")
        if first:
            # call history: the same manager (and, for "rebound", the same model / potential object) was set up
            # before for another form of the model (other units / labelling) and asked for its LTE velocity
            manager, model, cf, rel = zp.setup_manager(first["spec"], job.get("cfg"))
            try:
                manager.wallSpeedLTE()
            except Exception:  # noqa: BLE001  (whatever the first form answers is compared elsewhere)
                pass
            if first.get("mode") == "rebound":
                cf, rel = model.rebind(job["spec"])
                info, dset = zp.phase_info(job["spec"])
                if first.get("reregister"):
                    manager.registerModel(model)
                manager.setupThermodynamicsHydrodynamics(info, dset)
            else:
                manager, model, cf, rel = zp.setup_manager(job["spec"], job.get("cfg"), manager=manager)
        else:
            manager, model, cf, rel = zp.setup_manager(job["spec"], job.get("cfg"))
    except Exception as exc:  # noqa: BLE001
        return {"setup_error": f"{type(exc).__name__}: {exc}"[:500]}
    if job.get("coll_dir"):
        import pathlib

        manager.setPathToCollisionData(pathlib.Path(job["coll_dir"]))
    for w in job.get("what", ["solve"]):
        try:
            if w == "hydro":
                out["hydro"] = hydro_summary(manager)
            elif w == "lte":
                out["lte"] = _f(manager.wallSpeedLTE())
            elif w == "solve":
                r = manager.solveWall(settings_obj(job.get("settings", {})))
                out["solve"] = results_summary(r, profiles=job.get("profiles", True))
            elif w.startswith("boundaries:"):
                vw = float(w.split(":", 1)[1])
                out[w] = _arr(manager.hydrodynamics.findHydroBoundaries(vw))
        except Exception as exc:  # noqa: BLE001
            out[w + "_error"] = f"{type(exc).__name__}: {exc}"[:500]
    return out


HISTORY_KEYS = ("vJ", "vMin", "Tnucl", "alN", "psiN", "TMinHighT", "TMaxHighT", "TMinLowT", "TMaxLowT",
                "tracedHighAtTn", "tracedLowAtTn", "phase1", "phase2")


def history_worst(H, B):
    """Largest relative difference between two {"hydro":…, "lte":…} results -> (value, name)."""
    worst = [0.0, None]

    def upd(val, key):
        if val > worst[0] or worst[1] is None:
            worst[0], worst[1] = val, key

    for key in HISTORY_KEYS:
        xa, xb = H["hydro"].get(key), B["hydro"].get(key)
        xa = xa if isinstance(xa, list) else [xa]
        xb = xb if isinstance(xb, list) else [xb]
        scale = max([abs(t) for t in xb if isinstance(t, (int, float))] + [1e-300])
        if len(xa) != len(xb):
            upd(float("inf"), key)
        for ta, tb in zip(xa, xb):
            if isinstance(ta, (int, float)) and isinstance(tb, (int, float)):
                upd(abs(ta - tb) / scale, key)
            elif ta != tb:
                upd(float("inf"), key)
    la_, lb_ = H.get("lte"), B.get("lte")
    if isinstance(la_, (int, float)) and isinstance(lb_, (int, float)):
        upd(abs(la_ - lb_), "vwLTE")
    elif la_ != lb_ or (("lte_error" in H) != ("lte_error" in B)):
        upd(float("inf"), "vwLTE")
    return tuple(worst)


def fresh_run(job, timeout=600):
    """Run do_job(job) in a fresh interpreter.  A wall-clock timeout is reported as
    {"setup_error": "timeout"...} with key "timeout": callers treat it as inconclusive (discard)."""
    env = dict(os.environ)
    env["PYTHONPATH"] = core.VERIF_DIR + os.pathsep + os.path.join(core.VERIF_DIR, ".deps")
    try:
        proc = subprocess.run(
            [sys.executable, "-m", "vlib.e2e"], input=json.dumps(job), capture_output=True, text=True,
            env=env, timeout=timeout, cwd=core.VERIF_DIR,
        )
    except subprocess.TimeoutExpired:
        return {"timeout": True}
    if proc.returncode != 0:
        raise RuntimeError(f"fresh_run failed rc={proc.returncode}: {proc.stderr[-2000:]}")
    line = [ln for ln in proc.stdout.splitlines() if ln.startswith("RESULT ")][-1]
    return json.loads(line[7:])


def _main():
    import logging
    import warnings

    warnings.filterwarnings("ignore")
    logging.disable(logging.CRITICAL)
    np.seterr(all="ignore")
    core.use_repo()
    job = json.loads(sys.stdin.read())
    res = do_job(job)
    print("RESULT " + json.dumps(res))


if __name__ == "__main__":
    _main()
