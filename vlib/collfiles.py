"""Synthetic HDF5 collision directories for WallGo (CollisionArray.newFromDirectory /
BoltzmannSolver.loadCollisions) and the small independent spectral algebra needed to build
collision tensors from an operator that is *defined in function space*.

Nothing in this module imports WallGo.  All basis algebra is numpy.polynomial.chebyshev only.

File format read by WallGo (src/WallGo/collisionArray.py, newFromDirectory)
---------------------------------------------------------------------------
  <dir>/collisions_<p1>_<p2>.hdf5            one file per ORDERED pair of particle names
      "metadata"            object carrying attributes (dataset in the files written by the
                            collision code; a group works as well):
          attrs["Basis Size"]   integer N_s (grid.N of the stored data; odd)
          attrs["Basis Type"]   "Cardinal" | "Chebyshev" (str or bytes; decoded with
                                codecs.decode(..., "unicode_escape"))
      "<p1>, <p2>"          float dataset, shape (N_s-1, N_s-1, N_s-1, N_s-1), C order, axes
                            (alpha, beta, j, k) = (rho_z node, rho_par node, pz-polynomial, pp-polynomial)
  The loaded array is indexed [a, alpha, beta, b, j, k]; momentum axes are always Cardinal
  (values at the nodes), polynomial axes are in "Basis Type".

Grid conventions (src/WallGo/grid.py, polynomial.py), N odd:
  rho_z nodes    -cos(pi*i/N),     i = 1..N-1   (end points +-1 dropped, functions vanish there)
  rho_par nodes  -cos(pi*i/(N-1)), i = 0..N-2   (end point +1 dropped, functions vanish there)
  restricted Chebyshev basis:  pz: Tbar_j = T_n - (1 | x) for n = j+2 even | odd,  j = 0..N-2
                               pp: Ttil_k = T_n - 1       for n = k+1,             k = 0..N-2
  Cardinal basis: Lagrange polynomials on the nodes *including* the dropped end points.

Meaning of the tensor.  For a distribution delta f_b with coefficients c[b, j, k] in the basis of
the polynomial axes, (C delta f)_a at node (alpha, beta) = sum_{b,j,k} C[a,alpha,beta,b,j,k] c[b,j,k].
In the Cardinal basis c are the node values, so the Cardinal tensor *is* the function-space kernel
K[a,alpha,beta,b,gamma,delta] acting on node values; the Chebyshev tensor is K contracted with the
basis matrices:  C_cheb[..., j, k] = sum_{gamma,delta} K[..., gamma, delta] Tz[gamma, j] Tp[delta, k].

In BoltzmannSolver the operator enters as  T(chi)^2 * collisionMultiplier * C, so a relaxation-time
kernel  C delta f = Gamma * delta f  (``relaxation_kernel``) gives the local rate Gamma*T^2.

API summary
-----------
  nodes(N)                                   -> rz, rp            (N-1 each)
  nodes_full(N)                              -> rz incl. +-1 (N+1), rp incl. +1 (N)
  basis_matrices(N)                          -> Tz[gamma, j], Tp[delta, k] restricted Chebyshev at the nodes
  cheb_values(N, rz, rp)                     -> restricted Chebyshev basis at arbitrary points
  cardinal_matrices(N_from, rz_to, rp_to)    -> Ez[alpha', alpha], Ep[beta', beta] Lagrange interpolation
                                                (zero boundary values) from the N_from nodes
  coeffs_to_values / values_to_coeffs        Chebyshev coefficients <-> node values of one species
  tensor_from_kernel(K, N, basis)            function-space kernel (alpha,beta,gamma,delta) -> stored tensor
  kernel_from_tensor(C, N, basis)            inverse of the above
  relaxation_kernel(N, gamma)                Gamma * identity on the momentum grid
  apply_tensor(C, coeffs)                    action of one pair tensor on coefficients -> node values
  build_tensors(names, N, basis, kernels)    dict[(a,b)] kernels -> dict[(name_a,name_b)] tensors
  write_file(...) / write_directory(...)     write the HDF5 files (with optional faults)
  write_relaxation_directory(...)            complete directory for  C = diag(Gamma_a) (+ mixing matrix)
  read_file(path)                            read back one file (independent of WallGo) for self checks
  FAULT_KINDS                                fault patterns understood by write_directory
"""
from __future__ import annotations

import os

import numpy as np
from numpy.polynomial import chebyshev as _cheb

BASES = ("Cardinal", "Chebyshev")
ATTR_ENCODINGS = ("str", "bytes", "vlen_bytes")
SIZE_DTYPES = ("int", "int32", "int64", "uint32")
FAULT_KINDS = ("missing", "size", "basis")


# ---------------------------------------------------------------------------
# independent spectral algebra
# ---------------------------------------------------------------------------
def nodes(N: int):
    """Interior Gauss-Lobatto nodes of the momentum grid of size N (rz: N-1 points, rp: N-1 points)."""
    N = int(N)
    rz = -np.cos(np.arange(1, N) * np.pi / N)
    rp = -np.cos(np.arange(0, N - 1) * np.pi / (N - 1))
    return rz, rp


def nodes_full(N: int):
    """Nodes including the dropped end points: rz (N+1 points, -1..1), rp (N points, -1..1)."""
    N = int(N)
    rz = -np.cos(np.arange(0, N + 1) * np.pi / N)
    rp = -np.cos(np.arange(0, N) * np.pi / (N - 1))
    rz[0], rz[-1], rp[0], rp[-1] = -1.0, 1.0, -1.0, 1.0
    return rz, rp


def cheb_values(N: int, rz, rp):
    """Restricted Chebyshev bases at arbitrary points.

    Returns Bz[p, j] = Tbar_j(rz_p) (j = 0..N-2, n = j+2) and Bp[p, k] = Ttil_k(rp_p) (n = k+1).
    """
    N = int(N)
    rz = np.atleast_1d(np.asarray(rz, dtype=float))
    rp = np.atleast_1d(np.asarray(rp, dtype=float))
    Vz = _cheb.chebvander(rz, N)  # columns T_0..T_N
    Vp = _cheb.chebvander(rp, N - 1)  # columns T_0..T_{N-1}
    n = np.arange(2, N + 1)
    Bz = Vz[:, 2:] - np.where(n[None, :] % 2 == 0, 1.0, rz[:, None])
    Bp = Vp[:, 1:] - 1.0
    return Bz, Bp


def basis_matrices(N: int):
    """Tz[gamma, j], Tp[delta, k]: restricted Chebyshev basis functions at the interior nodes."""
    rz, rp = nodes(N)
    return cheb_values(N, rz, rp)


def _lagrange_matrix(x_from, x_to):
    """L[p, i] = l_i(x_to[p]) for the Lagrange basis on x_from (via an exact Chebyshev-series fit)."""
    x_from = np.asarray(x_from, dtype=float)
    x_to = np.atleast_1d(np.asarray(x_to, dtype=float))
    deg = len(x_from) - 1
    V = _cheb.chebvander(x_from, deg)
    W = _cheb.chebvander(x_to, deg)
    # l(x_to) = W @ V^-1
    return np.linalg.solve(V.T, W.T).T


def cardinal_matrices(N_from: int, rz_to, rp_to):
    """Interpolation from the interior nodes of grid N_from (zero values at the dropped end points).

    Ez[p, alpha] = C_alpha(rz_to[p]) with alpha over the N_from-1 interior rz nodes,
    Ep[p, beta]  = C_beta(rp_to[p])  with beta  over the N_from-1 retained rp nodes.
    """
    rzf, rpf = nodes_full(N_from)
    Lz = _lagrange_matrix(rzf, rz_to)[:, 1:-1]
    Lp = _lagrange_matrix(rpf, rp_to)[:, :-1]
    return Lz, Lp


def coeffs_to_values(c, N: int):
    """Restricted-Chebyshev coefficients c[..., j, k] -> node values f[..., gamma, delta]."""
    Tz, Tp = basis_matrices(N)
    return np.einsum("gj,dk,...jk->...gd", Tz, Tp, np.asarray(c, dtype=float))


def values_to_coeffs(f, N: int):
    """Node values f[..., gamma, delta] -> restricted-Chebyshev coefficients c[..., j, k]."""
    Tz, Tp = basis_matrices(N)
    return np.einsum("jg,kd,...gd->...jk", np.linalg.inv(Tz), np.linalg.inv(Tp), np.asarray(f, dtype=float))


def tensor_from_kernel(K, N: int, basis: str):
    """Function-space kernel K[alpha,beta,gamma,delta] (acting on node values) -> stored tensor."""
    _check_basis(basis)
    K = np.asarray(K, dtype=float)
    _check_shape(K, N)
    if basis == "Cardinal":
        return np.array(K, dtype=float)
    Tz, Tp = basis_matrices(N)
    return np.einsum("abgd,gj,dk->abjk", K, Tz, Tp)


def kernel_from_tensor(C, N: int, basis: str):
    """Stored tensor -> function-space kernel on node values."""
    _check_basis(basis)
    C = np.asarray(C, dtype=float)
    _check_shape(C, N)
    if basis == "Cardinal":
        return np.array(C, dtype=float)
    Tz, Tp = basis_matrices(N)
    return np.einsum("abjk,jg,kd->abgd", C, np.linalg.inv(Tz), np.linalg.inv(Tp))


def relaxation_kernel(N: int, gamma: float = 1.0):
    """K = gamma * identity on the (N-1)^2 momentum nodes:  (C delta f)(p) = gamma * delta f(p)."""
    n = int(N) - 1
    K = np.zeros((n, n, n, n))
    i = np.arange(n)
    K[i[:, None], i[None, :], i[:, None], i[None, :]] = float(gamma)
    return K


def apply_tensor(C, coeffs):
    """(C c)[alpha, beta] = sum_jk C[alpha,beta,j,k] c[j,k]."""
    return np.einsum("abjk,jk->ab", np.asarray(C, dtype=float), np.asarray(coeffs, dtype=float))


def build_tensors(particle_names, N: int, basis: str, kernels):
    """kernels: dict[(a, b)] -> function-space kernel (a, b indices or names); missing pairs -> zero.

    Returns dict[(name_a, name_b)] -> tensor in ``basis`` for every ordered pair.
    """
    names = list(particle_names)
    out = {}
    n = int(N) - 1
    for ia, a in enumerate(names):
        for ib, b in enumerate(names):
            K = None
            for key in ((ia, ib), (a, b)):
                if key in kernels:
                    K = kernels[key]
            if K is None:
                K = np.zeros((n, n, n, n))
            out[(a, b)] = tensor_from_kernel(K, N, basis)
    return out


# ---------------------------------------------------------------------------
# writing
# ---------------------------------------------------------------------------
def _check_basis(basis):
    if basis not in BASES:
        raise ValueError(f"unknown basis {basis!r}")


def _check_shape(T, N):
    n = int(N) - 1
    if T.shape != (n, n, n, n):
        raise ValueError(f"tensor shape {T.shape}, expected {(n, n, n, n)} for N={N}")


def file_name(p1: str, p2: str) -> str:
    return f"collisions_{p1}_{p2}.hdf5"


def dataset_name(p1: str, p2: str) -> str:
    return f"{p1}, {p2}"


def _encode_attr(text: str, encoding: str):
    import h5py

    if encoding == "str":
        return text  # variable-length UTF-8 string, read back as str
    if encoding == "bytes":
        return np.bytes_(text.encode("ascii"))  # fixed-length ASCII, read back as numpy.bytes_
    if encoding == "vlen_bytes":
        return np.array(text.encode("ascii"), dtype=h5py.string_dtype("ascii"))
    raise ValueError(f"unknown attr encoding {encoding!r}")


def _encode_size(N: int, size_dtype: str):
    if size_dtype == "int":
        return int(N)
    return np.dtype(size_dtype).type(N)


def write_file(path, p1: str, p2: str, N_stored: int, tensor, basis: str = "Chebyshev",
               attr_encoding: str = "str", size_dtype: str = "int", metadata_kind: str = "dataset",
               data_dtype="float64", extra_attrs=None):
    """Write one collision file.  ``tensor`` has shape (N-1,)*4, axes (alpha, beta, j, k)."""
    import h5py

    _check_basis(basis)
    tensor = np.ascontiguousarray(np.asarray(tensor, dtype=float))
    _check_shape(tensor, N_stored)
    with h5py.File(str(path), "w") as fh:
        if metadata_kind == "group":
            meta = fh.create_group("metadata")
        else:
            meta = fh.create_dataset("metadata", data=np.zeros((), dtype="int32"))
        meta.attrs["Basis Size"] = _encode_size(N_stored, size_dtype)
        meta.attrs["Basis Type"] = _encode_attr(basis, attr_encoding)
        for k, val in (extra_attrs or {"Integrator": "synthetic (verif)"}).items():
            meta.attrs[k] = val
        fh.create_dataset(dataset_name(p1, p2), data=tensor.astype(data_dtype))
    return str(path)


def _pair_key(key, names):
    a, b = key
    if isinstance(a, (int, np.integer)):
        a = names[int(a)]
    if isinstance(b, (int, np.integer)):
        b = names[int(b)]
    return (a, b)


def _norm_pairs(d, names):
    if d is None:
        return {}
    if isinstance(d, dict):
        return {_pair_key(k, names): v for k, v in d.items()}
    return {_pair_key(k, names): True for k in d}


def resize_tensor(tensor, N_new: int):
    """Deterministic tensor of another size (top-left block / zero padding) used for size faults."""
    n = int(N_new) - 1
    out = np.zeros((n, n, n, n))
    m = min(n, tensor.shape[0])
    out[:m, :m, :m, :m] = tensor[:m, :m, :m, :m]
    return out


def write_directory(path, particle_names, N_stored: int, tensors, basis: str = "Chebyshev",
                    attr_encoding="str", faults=None, size_dtype: str = "int",
                    metadata_kind: str = "dataset", data_dtype="float64"):
    """Write a complete collision directory (one file per ordered pair).

    tensors        dict[(a, b)] -> ndarray (N_stored-1,)*4 in ``basis``; a, b are particle names or
                   indices into ``particle_names``.  Every ordered pair must be present.
    attr_encoding  one of ATTR_ENCODINGS, or dict[(a, b)] -> encoding for per-file choices.
    faults         None or dict with any of
                     "missing": iterable of pairs whose file is not written,
                     "size":    dict[pair] -> N_other   (file consistently written with another size),
                     "basis":   dict[pair] -> other basis label written to that file's metadata
                                (data unchanged).
    Returns dict[(name_a, name_b)] -> path written (pairs that were left out are absent).
    """
    names = list(particle_names)
    _check_basis(basis)
    os.makedirs(str(path), exist_ok=True)
    tens = {_pair_key(k, names): v for k, v in tensors.items()}
    faults = faults or {}
    unknown = set(faults) - set(FAULT_KINDS)
    if unknown:
        raise ValueError(f"unknown fault kinds {sorted(unknown)}")
    missing = _norm_pairs(faults.get("missing"), names)
    size_f = _norm_pairs(faults.get("size"), names)
    basis_f = _norm_pairs(faults.get("basis"), names)
    enc_map = attr_encoding if isinstance(attr_encoding, dict) else None
    if enc_map is not None:
        enc_map = {_pair_key(k, names): v for k, v in enc_map.items()}
    written = {}
    for a in names:
        for b in names:
            if (a, b) not in tens:
                raise ValueError(f"no tensor for ordered pair {(a, b)}")
            if (a, b) in missing:
                continue
            T = np.asarray(tens[(a, b)], dtype=float)
            N_file = int(N_stored)
            if (a, b) in size_f:
                N_file = int(size_f[(a, b)])
                T = resize_tensor(T, N_file)
            b_file = basis_f.get((a, b), basis)
            enc = enc_map.get((a, b), "str") if enc_map is not None else attr_encoding
            fpath = os.path.join(str(path), file_name(a, b))
            write_file(fpath, a, b, N_file, T, basis=b_file, attr_encoding=enc, size_dtype=size_dtype,
                       metadata_kind=metadata_kind, data_dtype=data_dtype)
            written[(a, b)] = fpath
    return written


def write_relaxation_directory(path, particle_names, N_stored: int, gammas, basis: str = "Chebyshev",
                               mixing=None, **kw):
    """Directory for the relaxation-time operator  (C delta f)_a = Gamma_a delta f_a (+ sum_b mix_ab delta f_b).

    gammas   float or sequence (one per particle);  mixing  optional PxP matrix of off-diagonal rates.
    Returns (written paths, kernels dict[(ia, ib)]).
    """
    names = list(particle_names)
    P = len(names)
    g = np.broadcast_to(np.asarray(gammas, dtype=float), (P,))
    kernels = {}
    for ia in range(P):
        for ib in range(P):
            rate = g[ia] if ia == ib else (0.0 if mixing is None else float(np.asarray(mixing)[ia][ib]))
            kernels[(ia, ib)] = relaxation_kernel(N_stored, rate)
    tensors = build_tensors(names, N_stored, basis, kernels)
    return write_directory(path, names, N_stored, tensors, basis=basis, **kw), kernels


def read_file(path):
    """Read one file back without WallGo: returns dict(size, basis_raw, datasets{name: array})."""
    import h5py

    with h5py.File(str(path), "r") as fh:
        meta = fh["metadata"]
        out = {"size": meta.attrs["Basis Size"], "basis_raw": meta.attrs["Basis Type"], "datasets": {}}
        for k in fh.keys():
            if k != "metadata":
                out["datasets"][k] = np.array(fh[k][...])
    return out
