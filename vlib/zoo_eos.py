"""EOS zoo: equations of state as ``WallGo.Thermodynamics`` objects with known analytic content.

Used by C02, C03, C05, C06, C15.  Every EOS is described by a small JSON-able *spec* dict; all
constraints the hydrodynamics needs (first-order transition with the low-T phase favoured at T_n,
positive enthalpies, 0 < c^2 < 1 on the temperature interval that matters, alpha_n above the
template model's lower bounds, positive bag constant) hold BY CONSTRUCTION of the strategy, never by
rejection.  ``build`` re-verifies them on a grid and raises ``ZooError`` (a harness error, never a
violation) if a hand-written spec breaks them.

Families
--------
``bag``       p_s = a+ T^4/3 - eps,               p_b = a- T^4/3
              spec: family, Tn, alN, psiN, g          (w_s(Tn) = g Tn^4, a-/a+ = psiN)
``template``  p_s = a+ T^mu/3 - eps,              p_b = a- T^nu/3      (mu = 1+1/cs2, nu = 1+1/cb2)
              spec: family, Tn, alN, psiN, cs2, cb2, g   (same parametrisation as the repo's
              tests/test_HydroTemplateModel.py::TestModelTemplate)
``twostep``   the repo tests' polynomial two-step model (tests/test_Hydrodynamics.py::TestModel2Step)
              p_s = P0 [a0 t^4 + (aL - aH + aH t^2 - m)^2 - m^2],  p_b = P0 [a0 t^4 + (aL t^2 - m)^2 - m^2],
              t = T/Tc.   spec: family, Tn, x (= Tn/Tc), a0, aL, aH, m, P0
``cubic``     closed-form phases of V = g/2 (T^2-T0^2) f^2 - A T f^3/3 + lam f^4/4 - a T^4
              (symmetric phase p = a T^4; broken phase through the closed-form minimum).
              spec: family, Tn, g, A, lam, a, y   (Tn = T0 + y (Tc - T0))
``traced``    the same potential handed to a real ``WallGo.Thermodynamics`` and traced with
              ``FreeEnergy.tracePhase`` over the ranges ``WallGoManager.initTemperatureRange`` would
              choose, then ``setExtrapolate()``.  About 0.5 s per object (cached per process, LRU).
              spec as ``cubic`` with family = "traced" (+ optional phaseTracerTol).

Tabulated ranges
----------------
``spec["ranges"]`` (optional) = {"high": [lo, hi], "low": [lo, hi], "genuine": [[bool,bool],[bool,bool]],
"extrapolate": bool}; lo/hi are in units of Tn.  Default: wide, [1e-3, 1e3] for both phases, no
genuine end, analytic continuation (no template extrapolation); the ``cubic`` family defaults to
its healthy interval for the low-T phase with ``extrapolate: true`` (its broken phase ends at a spinodal).  With ``extrapolate: true`` the
object behaves like a real ``Thermodynamics`` after ``setExtrapolate()``: outside the range p, dp, ddp
follow WallGo's template continuation (the base-class code is called for that), and csq is frozen at
the range end (the base class does that for every family anyway).  Ignored by ``traced`` (its ranges
are what was traced).

API
---
``st_eos(families=..., tn_decades=(-2, 3), strong=None)``  Hypothesis strategy -> spec dict
``build(spec) -> (thermo, meta)``      meta: family, Tn, alN, psiN, cs2n, cb2n, const_cs (both phases
                                       have T-independent sound speed), template_form (EOS is exactly
                                       of template form, so HydrodynamicsTemplateModel is exact),
                                       T_valid (lo, hi) interval where w>0 and 0<c^2<1 were verified,
                                       spec_hash
``build_hydro(thermo, rtol=1e-6, atol=1e-10, tmax=10.0, tmin=0.01)`` -> WallGo.Hydrodynamics
                                       (argument order of the constructor is (thermo, tmax, tmin, rtol, atol);
                                       defaults are those of WallGo.Config / WallGoManager._initHydrodynamics)
``build_template(thermo, rtol=1e-6, atol=1e-10)`` -> WallGo.HydrodynamicsTemplateModel
``st_tolerances()``                    strategy over the two (rtol, atol) settings of DESIGN C02
``spec_hash(spec)``                    short stable hash (for labels / caches)
``VCLASSES`` / ``velocity(vclass, u, vmin, cb, vJ)``
                                       wall-velocity classes with explicit mass at the landmarks (v_min,
                                       v_min + 1e-3.., c_b -+ 1e-6..1e-3, v_J - 1e-6..1e-2, v_J + 1e-4..1e-2, 0.99)
                                       and the interiors of the three branches; u in [0,1] is the position
                                       inside the class; landmarks are the solver's own (hydro.vMin,
                                       sqrt(csqLowT(Tn)), hydro.vJ), so the case stays plain data
``branch_of(vw, vp, vm)``, ``speed_bucket(vw)``  labels derived from a returned matching

``spec["allow_unfavoured"] = True`` (optional, used by C05 only) lifts the requirement p_b(Tn) > p_s(Tn), so that a
nucleation temperature above the critical one can be described (the LTE solver's static sentinel).

All randomness is Hypothesis'; ``build`` is a pure function of the spec.
"""
from __future__ import annotations

import hashlib
import json
import math
from collections import OrderedDict

from hypothesis import strategies as st

FAMILIES = ("bag", "template", "twostep", "cubic", "traced")
ANALYTIC_FAMILIES = ("bag", "template", "twostep", "cubic")
WIDE = (1e-3, 1e3)


class ZooError(Exception):
    """The spec violates a constraint the zoo guarantees (harness error, not a violation)."""


def spec_hash(spec) -> str:
    return hashlib.sha1(json.dumps(spec, sort_keys=True).encode()).hexdigest()[:10]


class _Range:
    """Stand-in for FreeEnergy: only the attributes Hydrodynamics reads."""

    def __init__(self, lo, hi, glo=False, ghi=False):
        self.minPossibleTemperature = [float(lo), bool(glo)]
        self.maxPossibleTemperature = [float(hi), bool(ghi)]


# ---------------------------------------------------------------------------------------------
# analytic Thermodynamics subclasses
# ---------------------------------------------------------------------------------------------
def _make_classes():
    import WallGo

    Base = WallGo.Thermodynamics

    class AnalyticEOS(Base):
        """p, dp, ddp per phase are analytic (methods _ps/_dps/_ddps/_pb/_dpb/_ddpb)."""

        family = "?"

        def _init_common(self, Tn, ranges):
            self.Tnucl = float(Tn)
            r = ranges or {}
            hi = r.get("high", WIDE)
            lo = r.get("low", WIDE)
            gen = r.get("genuine", [[False, False], [False, False]])
            self.freeEnergyHigh = _Range(hi[0] * Tn, hi[1] * Tn, gen[0][0], gen[0][1])
            self.freeEnergyLow = _Range(lo[0] * Tn, lo[1] * Tn, gen[1][0], gen[1][1])
            self.TMinHighT, self.TMaxHighT = hi[0] * Tn, hi[1] * Tn
            self.TMinLowT, self.TMaxLowT = lo[0] * Tn, lo[1] * Tn
            self._extrap = False
            if r.get("extrapolate", False):
                Base.setExtrapolate(self)  # uses csq/w/p at the range ends (inside the range)
                self._extrap = True

        # -- the six overridden functions; outside the range optionally WallGo's continuation
        def pHighT(self, T):
            if self._extrap and (T < self.TMinHighT or T > self.TMaxHighT):
                return Base.pHighT(self, T)
            return self._ps(T)

        def dpHighT(self, T):
            if self._extrap and (T < self.TMinHighT or T > self.TMaxHighT):
                return Base.dpHighT(self, T)
            return self._dps(T)

        def ddpHighT(self, T):
            if self._extrap and (T < self.TMinHighT or T > self.TMaxHighT):
                return Base.ddpHighT(self, T)
            return self._ddps(T)

        def pLowT(self, T):
            if self._extrap and (T < self.TMinLowT or T > self.TMaxLowT):
                return Base.pLowT(self, T)
            return self._pb(T)

        def dpLowT(self, T):
            if self._extrap and (T < self.TMinLowT or T > self.TMaxLowT):
                return Base.dpLowT(self, T)
            return self._dpb(T)

        def ddpLowT(self, T):
            if self._extrap and (T < self.TMinLowT or T > self.TMaxLowT):
                return Base.ddpLowT(self, T)
            return self._ddpb(T)

    class Template(AnalyticEOS):
        family = "template"

        def __init__(self, alN, psiN, cs2, cb2, Tn, g=1.0, ranges=None):
            self.alN, self.psiN, self.cs2, self.cb2 = alN, psiN, cs2, cb2
            self.mu = 1.0 + 1.0 / cs2
            self.nu = 1.0 + 1.0 / cb2
            wn = g * Tn ** 4
            self.wn = wn
            # a+ T^mu/3 written as (wn/mu) (T/Tn)^mu so that no huge/small power of Tn appears
            self.cps = wn / self.mu
            self.cpb = wn * psiN / self.nu
            # bag constant from the definition of alpha_n:  3 wn alN = wn(1-psi) - nu (p_s - p_b)
            dp = wn * ((1.0 - psiN) - 3.0 * alN) / self.nu
            self.eps = self.cps - self.cpb - dp
            self._init_common(Tn, ranges)

        def _ps(self, T):
            return self.cps * (T / self.Tnucl) ** self.mu - self.eps

        def _dps(self, T):
            return self.mu * self.cps * (T / self.Tnucl) ** (self.mu - 1.0) / self.Tnucl

        def _ddps(self, T):
            return (self.mu * (self.mu - 1.0) * self.cps * (T / self.Tnucl) ** (self.mu - 2.0)
                    / self.Tnucl ** 2)

        def _pb(self, T):
            return self.cpb * (T / self.Tnucl) ** self.nu

        def _dpb(self, T):
            return self.nu * self.cpb * (T / self.Tnucl) ** (self.nu - 1.0) / self.Tnucl

        def _ddpb(self, T):
            return (self.nu * (self.nu - 1.0) * self.cpb * (T / self.Tnucl) ** (self.nu - 2.0)
                    / self.Tnucl ** 2)

    class Bag(AnalyticEOS):
        family = "bag"

        def __init__(self, alN, psiN, Tn, g=1.0, ranges=None):
            self.alN, self.psiN = alN, psiN
            self.ap = 0.75 * g            # w_s = 4/3 a+ T^4 = g T^4
            self.am = psiN * self.ap
            self.eps = alN * self.ap * Tn ** 4
            self._init_common(Tn, ranges)

        def _ps(self, T):
            return self.ap * T ** 4 / 3.0 - self.eps

        def _dps(self, T):
            return 4.0 * self.ap * T ** 3 / 3.0

        def _ddps(self, T):
            return 4.0 * self.ap * T ** 2

        def _pb(self, T):
            return self.am * T ** 4 / 3.0

        def _dpb(self, T):
            return 4.0 * self.am * T ** 3 / 3.0

        def _ddpb(self, T):
            return 4.0 * self.am * T ** 2

    class TwoStep(AnalyticEOS):
        family = "twostep"

        def __init__(self, a0, aL, aH, m, Tc, Tn, P0=1.0, ranges=None):
            self.a0, self.aL, self.aH, self.m, self.Tc, self.P0 = a0, aL, aH, m, Tc, P0
            self._init_common(Tn, ranges)

        def _ps(self, T):
            t = T / self.Tc
            u = self.aL - self.aH + self.aH * t * t - self.m
            return self.P0 * (self.a0 * t ** 4 + u * u - self.m ** 2)

        def _dps(self, T):
            t = T / self.Tc
            u = self.aL - self.aH + self.aH * t * t - self.m
            return self.P0 * (4.0 * self.a0 * t ** 3 + 4.0 * self.aH * t * u) / self.Tc

        def _ddps(self, T):
            t = T / self.Tc
            u = self.aL - self.aH + self.aH * t * t - self.m
            return self.P0 * (12.0 * self.a0 * t * t + 8.0 * self.aH ** 2 * t * t
                              + 4.0 * self.aH * u) / self.Tc ** 2

        def _pb(self, T):
            t = T / self.Tc
            u = self.aL * t * t - self.m
            return self.P0 * (self.a0 * t ** 4 + u * u - self.m ** 2)

        def _dpb(self, T):
            t = T / self.Tc
            u = self.aL * t * t - self.m
            return self.P0 * (4.0 * self.a0 * t ** 3 + 4.0 * self.aL * t * u) / self.Tc

        def _ddpb(self, T):
            t = T / self.Tc
            u = self.aL * t * t - self.m
            return self.P0 * (12.0 * self.a0 * t * t + 8.0 * self.aL ** 2 * t * t
                              + 4.0 * self.aL * u) / self.Tc ** 2

    class Cubic(AnalyticEOS):
        """Closed-form phases of V = g/2 (T^2-T0^2) f^2 - A T f^3/3 + lam f^4/4 - a T^4."""

        family = "cubic"

        def __init__(self, g, A, lam, T0, a, Tn, ranges=None):
            self.g, self.A, self.lam, self.T0, self.a = g, A, lam, T0, a
            self.T1 = T0 / math.sqrt(1.0 - A * A / (4.0 * lam * g))  # broken phase disappears
            self._init_common(Tn, ranges)

        def phi(self, T):
            disc = self.A ** 2 * T * T - 4.0 * self.lam * self.g * (T * T - self.T0 ** 2)
            return (self.A * T + math.sqrt(max(disc, 0.0))) / (2.0 * self.lam)

        def _ps(self, T):
            return self.a * T ** 4

        def _dps(self, T):
            return 4.0 * self.a * T ** 3

        def _ddps(self, T):
            return 12.0 * self.a * T * T

        def _pb(self, T):
            f = self.phi(T)
            return self.a * T ** 4 - (0.5 * self.g * (T * T - self.T0 ** 2) * f * f
                                      - self.A * T * f ** 3 / 3.0 + 0.25 * self.lam * f ** 4)

        def _dpb(self, T):
            f = self.phi(T)  # envelope theorem: dp/dT = -dV/dT at fixed field
            return 4.0 * self.a * T ** 3 - (self.g * T * f * f - self.A * f ** 3 / 3.0)

        def _ddpb(self, T):
            f = self.phi(T)
            df = (self.A * f - 2.0 * self.g * T) / (2.0 * self.lam * f - self.A * T)
            return 12.0 * self.a * T * T - (self.g * f * f
                                            + (2.0 * self.g * T * f - self.A * f * f) * df)

    class CubicPotential(WallGo.EffectivePotential):
        fieldCount = 1
        effectivePotentialError = 1e-15

        def __init__(self, g, A, lam, T0, a):
            super().__init__()
            self.g, self.A, self.lam, self.T0, self.a = g, A, lam, T0, a

        def evaluate(self, fields, temperature):
            import numpy as np

            f = np.asarray(fields)[..., 0]
            T = np.asarray(temperature)
            return (0.5 * self.g * (T ** 2 - self.T0 ** 2) * f ** 2 - self.A * T * f ** 3 / 3.0
                    + 0.25 * self.lam * f ** 4 - self.a * T ** 4)

    return {"bag": Bag, "template": Template, "twostep": TwoStep, "cubic": Cubic,
            "potential": CubicPotential}


_CLASSES = None


def classes():
    """The Thermodynamics subclasses (created lazily so that WallGo is imported from $VERIF_REPO)."""
    global _CLASSES
    if _CLASSES is None:
        _CLASSES = _make_classes()
    return _CLASSES


# ---------------------------------------------------------------------------------------------
# cubic-potential helpers (shared by "cubic" and "traced")
# ---------------------------------------------------------------------------------------------
def cubic_scales(spec):
    """T0, Tc, T1 from the dimensionless couplings and Tn = T0 + y (Tc - T0)."""
    g, A, lam, y = spec["g"], spec["A"], spec["lam"], spec["y"]
    r = 1.0 / math.sqrt(1.0 - 2.0 * A * A / (9.0 * lam * g))  # Tc/T0
    T0 = spec["Tn"] / (1.0 + y * (r - 1.0))
    Tc = r * T0
    T1 = T0 / math.sqrt(1.0 - A * A / (4.0 * lam * g))
    return T0, Tc, T1


def cubic_valid_range(g, A, lam, y):
    """(lo, hi) in units of T0 on which the cubic EOS is guaranteed healthy: from 0.45 Tn up to 70 %
    of the way from Tn to the spinodal T1 of the broken phase (where its sound speed vanishes)."""
    r = 1.0 / math.sqrt(1.0 - 2.0 * A * A / (9.0 * lam * g))
    T1 = 1.0 / math.sqrt(1.0 - A * A / (4.0 * lam * g))
    Tn = 1.0 + y * (r - 1.0)
    return 0.45 * Tn, Tn + 0.7 * (T1 - Tn)


def cubic_amin(g, A, lam, y):
    """Smallest radiation coefficient `a` for which, on cubic_valid_range, the broken phase has
    w > 0, ddp > 0 and c^2 in (0.08, 0.6); the symmetric phase is pure radiation.
    Deterministic grid computation in units T0 = 1 (the strategy sets a = amin * (1 + 10^u))."""
    lo, hi = cubic_valid_range(g, A, lam, y)
    amin = 0.0
    n = 80
    for i in range(n + 1):
        T = lo + (hi - lo) * i / n
        disc = A * A * T * T - 4.0 * lam * g * (T * T - 1.0)
        f = (A * T + math.sqrt(max(disc, 0.0))) / (2.0 * lam)
        df = (A * f - 2.0 * g * T) / (2.0 * lam * f - A * T)
        X = g * T * f * f - A * f ** 3 / 3.0                       # dp = 4 a T^3 - X
        Y = g * f * f + (2.0 * g * T * f - A * f * f) * df          # ddp = 12 a T^2 - Y
        amin = max(amin, X / (4.0 * T ** 3))                        # w > 0
        amin = max(amin, (0.6 * T * Y - X) / (3.2 * T ** 3))        # c^2 < 0.6
        amin = max(amin, (X - 0.08 * T * Y) / (3.04 * T ** 3))      # c^2 > 0.08
        amin = max(amin, Y / (12.0 * T * T))                        # ddp > 0
    return amin * 1.02


# ---------------------------------------------------------------------------------------------
# build
# ---------------------------------------------------------------------------------------------
_TRACED_CACHE: "OrderedDict[str, tuple]" = OrderedDict()
_TRACED_CACHE_SIZE = 6


def _verify(thermo, meta, lo, hi, n=25):
    """Positive enthalpy and 0 < c^2 < 1 for both phases on [lo, hi]; transition direction at Tn."""
    Tn = meta["Tn"]
    for i in range(n + 1):
        T = lo * (hi / lo) ** (i / n)
        for ph, dp, ddp in (("high", thermo.dpHighT, thermo.ddpHighT), ("low", thermo.dpLowT, thermo.ddpLowT)):
            d1, d2 = float(dp(T)), float(ddp(T))
            if not (d1 > 0 and d2 > 0 and 0.0 < d1 / (T * d2) < 1.0):
                raise ZooError(f"{meta['family']}: {ph}-T phase has w or c^2 out of range at T/Tn={T / Tn:.4g} "
                               f"(dp={d1:.4g}, ddp={d2:.4g})")
    if not float(thermo.pLowT(Tn)) > float(thermo.pHighT(Tn)) and not meta.get("allow_unfavoured", False):
        raise ZooError(f"{meta['family']}: low-T phase is not favoured at Tn")


def _thermo_numbers(thermo, Tn):
    ps, pb = float(thermo.pHighT(Tn)), float(thermo.pLowT(Tn))
    ws, wb = Tn * float(thermo.dpHighT(Tn)), Tn * float(thermo.dpLowT(Tn))
    cs2 = float(thermo.dpHighT(Tn)) / (Tn * float(thermo.ddpHighT(Tn)))
    cb2 = float(thermo.dpLowT(Tn)) / (Tn * float(thermo.ddpLowT(Tn)))
    alN = ((ws - ps) - (wb - pb) - (ps - pb) / cb2) / (3.0 * ws)
    return {"alN": alN, "psiN": wb / ws, "cs2n": cs2, "cb2n": cb2, "wn": ws}


def build(spec):
    """spec -> (thermo, meta).  Pure function of the spec (traced objects are cached per process)."""
    fam = spec["family"]
    C = classes()
    Tn = float(spec["Tn"])
    ranges = spec.get("ranges")
    meta = {"family": fam, "Tn": Tn, "spec_hash": spec_hash(spec)}
    if spec.get("allow_unfavoured", False):
        # C05 only: Tn above the critical temperature (static-sentinel cases); everything else is verified as usual
        meta["allow_unfavoured"] = True
    if fam == "bag":
        th = C["bag"](spec["alN"], spec["psiN"], Tn, spec.get("g", 1.0), ranges)
        meta.update(const_cs=True, template_form=True, T_valid=(1e-3 * Tn, 1e3 * Tn))
    elif fam == "template":
        th = C["template"](spec["alN"], spec["psiN"], spec["cs2"], spec["cb2"], Tn, spec.get("g", 1.0), ranges)
        if th.eps <= 0:
            raise ZooError("template: bag constant not positive")
        meta.update(const_cs=True, template_form=True, T_valid=(1e-3 * Tn, 1e3 * Tn))
    elif fam == "twostep":
        Tc = Tn / spec["x"]
        th = C["twostep"](spec["a0"], spec["aL"], spec["aH"], spec["m"], Tc, Tn, spec.get("P0", 1.0), ranges)
        a0, aL, aH, m = spec["a0"], spec["aL"], spec["aH"], spec["m"]
        tpos = max(math.sqrt(aL * m / (a0 + aL * aL)),
                   math.sqrt(max(aH * (m - aL + aH), 0.0) / (a0 + aH * aH)))
        meta.update(const_cs=False, template_form=False, Tc=Tc, T_valid=(1.02 * tpos * Tc, 30.0 * Tn))
    elif fam == "cubic":
        T0, Tc, T1 = cubic_scales(spec)
        vlo, vhi = cubic_valid_range(spec["g"], spec["A"], spec["lam"], spec["y"])
        if ranges is None:
            # the broken phase ends at the spinodal T1: like a traced phase, it is tabulated on its
            # healthy interval only and continued with WallGo's template extrapolation outside
            ranges = {"high": list(WIDE), "low": [vlo * T0 / Tn, vhi * T0 / Tn],
                      "genuine": [[False, False], [False, True]], "extrapolate": True}
        th = C["cubic"](spec["g"], spec["A"], spec["lam"], T0, spec["a"], Tn, ranges)
        meta.update(const_cs=False, template_form=False, Tc=Tc, T0=T0, T1=T1,
                    T_valid=(vlo * T0, vhi * T0))
    elif fam == "traced":
        key = meta["spec_hash"]
        if key in _TRACED_CACHE:
            _TRACED_CACHE.move_to_end(key)
            return _TRACED_CACHE[key]
        th, extra = _build_traced(spec)
        meta.update(const_cs=False, template_form=False, **extra)
    else:
        raise ZooError(f"unknown family {fam}")
    meta.update(_thermo_numbers(th, Tn))
    lo, hi = meta["T_valid"]
    _verify(th, meta, max(lo, 0.02 * Tn), min(hi, 8.0 * Tn))
    if fam == "traced":
        _TRACED_CACHE[meta["spec_hash"]] = (th, meta)
        while len(_TRACED_CACHE) > _TRACED_CACHE_SIZE:
            _TRACED_CACHE.popitem(last=False)
    return th, meta


def _build_traced(spec):
    """A real WallGo.Thermodynamics, traced over the ranges WallGoManager.initTemperatureRange uses."""
    import WallGo
    from WallGo import Fields

    C = classes()
    Tn = float(spec["Tn"])
    T0, Tc, T1 = cubic_scales(spec)
    g, A, lam, a = spec["g"], spec["A"], spec["lam"], spec["a"]
    tol = float(spec.get("phaseTracerTol", 1e-6))
    V = C["potential"](g, A, lam, T0, a)
    phiN = (A * Tn + math.sqrt(A * A * Tn * Tn - 4.0 * lam * g * (Tn * Tn - T0 * T0))) / (2.0 * lam)
    V.configureDerivatives(WallGo.VeffDerivativeSettings(
        temperatureVariationScale=float(spec.get("tscale", 0.1)) * Tn,
        fieldValueVariationScale=[float(spec.get("fscale", 0.3)) * max(phiN, 0.1 * Tn)]))
    th = WallGo.Thermodynamics(V, Tn, Fields([phiN]), Fields([0.0]))
    th.freeEnergyHigh.disableAdaptiveInterpolation()
    th.freeEnergyLow.disableAdaptiveInterpolation()
    tm = WallGo.HydrodynamicsTemplateModel(th)
    _, _, TpMax, TmMax = tm.findMatching(0.99 * tm.vJ)
    _, _, TmMin, _ = tm.findMatching(1e-3)
    if TpMax is None:
        TpMax = 10.0 * Tn
    if TmMax is None:
        TmMax = 10.0 * Tn
    if TmMin is None:
        TmMin = 0.01 * Tn
    dT = V.derivativeSettings.temperatureVariationScale * tol ** 0.25
    th.freeEnergyHigh.tracePhase(0.8 * Tn, 1.2 * TpMax, dT, rTol=tol)
    th.freeEnergyLow.tracePhase(0.8 * TmMin, 1.2 * TmMax, dT, rTol=tol)
    th.setExtrapolate()
    lo = max(th.freeEnergyHigh.minPossibleTemperature[0], th.freeEnergyLow.minPossibleTemperature[0])
    hi = min(th.freeEnergyHigh.maxPossibleTemperature[0], th.freeEnergyLow.maxPossibleTemperature[0])
    extra = {"Tc": Tc, "T0": T0, "T1": T1, "T_valid": (lo, hi),
             "traced_ranges": {"high": [th.freeEnergyHigh.minPossibleTemperature[0],
                                        th.freeEnergyHigh.maxPossibleTemperature[0]],
                               "low": [th.freeEnergyLow.minPossibleTemperature[0],
                                       th.freeEnergyLow.maxPossibleTemperature[0]]}}
    return th, extra


def analytic_twin(spec):
    """For a traced spec: the spec of the closed-form ``cubic`` EOS of the same potential."""
    tw = {k: v for k, v in spec.items() if k not in ("phaseTracerTol", "tscale", "fscale", "ranges")}
    tw["family"] = "cubic"
    return tw


def build_hydro(thermo, rtol=1e-6, atol=1e-10, tmax=10.0, tmin=0.01):
    """WallGo.Hydrodynamics as WallGoManager._initHydrodynamics builds it."""
    import WallGo

    return WallGo.Hydrodynamics(thermo, tmax, tmin, rtol, atol)


def build_template(thermo, rtol=1e-6, atol=1e-10):
    import WallGo

    return WallGo.HydrodynamicsTemplateModel(thermo, rtol=rtol, atol=atol)


# ---------------------------------------------------------------------------------------------
# wall-velocity classes
# ---------------------------------------------------------------------------------------------
VCLASSES = ("vmin", "vmin+", "defl", "cb-", "cb+", "hyb", "vJ-", "vJ+", "det", "v099")


def velocity(vclass, u, vmin, cb, vJ):
    """Concrete wall velocity for a class; landmarks are the solver's own."""
    lo = max(vmin, 1e-3)
    top = min(cb, vJ)
    if vclass == "vmin":
        vw = lo
    elif vclass == "vmin+":
        vw = lo + 10.0 ** (-3.0 + 2.0 * u)
    elif vclass == "defl":
        vw = lo + 1e-3 + u * max(top - lo - 2e-3, 0.0)
    elif vclass == "cb-":
        vw = cb - 10.0 ** (-6.0 + 3.0 * u)
    elif vclass == "cb+":
        vw = cb + 10.0 ** (-6.0 + 3.0 * u)
    elif vclass == "hyb":
        # u = 1 gives vJ exactly (EOM evaluates the pressure there).  u -> 0 would give c_b: for
        # |vw/c_b - 1| < ~1e-8 HydrodynamicsTemplateModel.findMatching does not return when c_s and c_b
        # differ by one ulp (solve_ivp with atol = 0 takes ever smaller steps; reported separately), so the
        # class starts 1e-5 (vJ - c_b) above c_b; the classes cb- / cb+ cover c_b -+ 1e-6 .. 1e-3.
        vw = cb + max(u, 1e-5) * (vJ - cb) if vJ > cb else vJ - 1e-3 * u
    elif vclass == "vJ-":
        vw = vJ - 10.0 ** (-6.0 + 4.0 * u)
    elif vclass == "vJ+":
        vw = vJ + 10.0 ** (-4.0 + 2.0 * u)
    elif vclass == "det":
        vw = vJ + 1e-4 + u * max(0.99 - vJ - 1e-4, 0.0)
    elif vclass == "v099":
        vw = 0.99
    else:
        raise ZooError(f"unknown velocity class {vclass}")
    return min(max(vw, lo), 0.99)


def branch_of(vw, vp, vm):
    """Branch label of a returned matching (classification proper is C06's subject)."""
    if vm == vw:  # (also covers the shock-free limit v+ = v- = vw of a deflagration)
        return "deflagration"
    if vp == vw:
        return "detonation"
    return "hybrid"


def speed_bucket(vw):
    return "vw<0.01" if vw < 0.01 else "vw<0.1" if vw < 0.1 else "vw>=0.1"


# ---------------------------------------------------------------------------------------------
# strategies
# ---------------------------------------------------------------------------------------------
def _f(lo, hi):
    return st.floats(lo, hi, allow_nan=False, allow_infinity=False)


def st_tolerances():
    """(rtol, atol): WallGo's default and the tightened setting of DESIGN C02."""
    return st.sampled_from([[1e-6, 1e-10], [1e-6, 1e-10], [1e-9, 1e-12]])


@st.composite
def st_tn(draw, decades=(-2.0, 3.0)):
    if draw(st.integers(0, 3)) == 0:
        return 10.0 ** draw(st.sampled_from([decades[0], 0.0, 2.0, decades[1]]))
    return 10.0 ** draw(_f(decades[0], decades[1]))


@st.composite
def st_strength(draw, strong=None):
    """Excess of alpha_n over its lower bound, 10^u.  ~30 % of draws give alpha_n > 1/3 (v_min > 0)."""
    if strong is None:
        strong = draw(st.integers(0, 9)) < 3
    if strong:
        return 10.0 ** draw(_f(-0.45, 0.5))
    return 10.0 ** draw(_f(-3.3, -0.45))


@st.composite
def st_bag(draw, decades=(-2.0, 3.0), strong=None):
    psi = 1.0 - 0.5 * 10.0 ** draw(_f(-3.0, 0.0))
    al = (1.0 - psi) / 3.0 + draw(st_strength(strong))
    return {"family": "bag", "Tn": draw(st_tn(decades)), "alN": al, "psiN": psi,
            "g": 10.0 ** draw(_f(-1.0, 2.0))}


@st.composite
def st_csq(draw):
    if draw(st.integers(0, 4)) == 0:
        return draw(st.sampled_from([0.2, 0.25, 1.0 / 3.0]))
    return draw(_f(0.2, 1.0 / 3.0))


@st.composite
def st_template(draw, decades=(-2.0, 3.0), strong=None):
    psi = 1.0 - 0.5 * 10.0 ** draw(_f(-3.0, 0.0))
    cs2, cb2 = draw(st_csq()), draw(st_csq())
    mu, nu = 1.0 + 1.0 / cs2, 1.0 + 1.0 / cb2
    lower = max((1.0 - psi) / 3.0, (mu - nu) / (3.0 * mu), 0.0)  # low-T phase favoured; eps > 0
    al = lower + draw(st_strength(strong))
    return {"family": "template", "Tn": draw(st_tn(decades)), "alN": al, "psiN": psi,
            "cs2": cs2, "cb2": cb2, "g": 10.0 ** draw(_f(-1.0, 2.0))}


@st.composite
def st_twostep(draw, decades=(-2.0, 3.0), variant=None):
    """Generated coefficients around the repo's (a0, aL, aH, m) = (1, 0.2, 0.1, 0.4).

    m > aL makes the low-T phase the favoured one below Tc; a0 is chosen so that enthalpies are
    positive down to r*Tn (r <= 0.5): a0 >= aL m/(r x)^2 - aL^2 (and the analogue for the high-T phase).
    """
    if variant == "strongT":
        # sound speeds that depend visibly on the temperature (c_s^2 changes by several per cent between Tn and
        # T+): large quadratic couplings relative to a0, enthalpies positive down to 0.4-0.5 Tn only
        aL = draw(_f(0.2, 0.8))
        aH = aL * draw(_f(0.5, 0.9))
        m = aL * (1.0 + 10.0 ** draw(_f(-1.0, 0.3)))
        x = draw(_f(0.7, 0.98))
        r = draw(_f(0.4, 0.5))
        need = max(aL * m / (r * x) ** 2 - aL * aL, aH * (m - aL + aH) / (r * x) ** 2 - aH * aH, 0.05)
        a0 = need * (1.0 + 10.0 ** draw(_f(-2.0, -0.5)))
        return {"family": "twostep", "Tn": draw(st_tn(decades)), "x": x, "a0": a0, "aL": aL, "aH": aH,
                "m": m, "P0": 10.0 ** draw(_f(-1.0, 2.0))}
    if variant == "steepT":
        # the low-T enthalpy stays positive only down to 0.55-0.9 Tn: c_b^2 changes by 10-30 % between Tn and T-, the
        # Jouguet velocity of the template model fitted at Tn lies up to 0.1 below the true one (round-4 seeds:
        # windows derived from the template model, sound speeds taken at the wrong temperature)
        aL = draw(_f(0.3, 0.8))
        aH = aL * draw(_f(0.15, 0.7))
        m = aL * (1.0 + 10.0 ** draw(_f(-0.5, 0.3)))
        x = draw(_f(0.6, 0.97))
        r = draw(_f(0.55, 0.9))
        need = max(aL * m / (r * x) ** 2 - aL * aL, aH * (m - aL + aH) / (r * x) ** 2 - aH * aH, 0.05)
        a0 = need * (1.0 + 10.0 ** draw(_f(-2.0, -0.5)))
        return {"family": "twostep", "Tn": draw(st_tn(decades)), "x": x, "a0": a0, "aL": aL, "aH": aH,
                "m": m, "P0": 10.0 ** draw(_f(-1.0, 2.0))}
    aL = draw(_f(0.05, 0.5))
    aH = aL * draw(_f(0.0, 0.9))
    m = aL * (1.0 + 10.0 ** draw(_f(-1.0, 0.6)))
    x = draw(st.one_of(_f(0.4, 0.98), st.sampled_from([0.5, 0.7, 0.9])))  # Tn/Tc
    r = draw(_f(0.1, 0.5))
    need = max(aL * m / (r * x) ** 2 - aL * aL, aH * (m - aL + aH) / (r * x) ** 2 - aH * aH, 0.05)
    a0 = need * (1.0 + 10.0 ** draw(_f(-2.0, 1.0)))
    return {"family": "twostep", "Tn": draw(st_tn(decades)), "x": x, "a0": a0, "aL": aL, "aH": aH,
            "m": m, "P0": 10.0 ** draw(_f(-1.0, 2.0))}


@st.composite
def st_cubic(draw, decades=(-2.0, 3.0), family="cubic"):
    g = draw(_f(0.05, 0.6))
    lam = draw(_f(0.02, 0.3))
    if family == "traced":
        # The numerical trace of the low-T phase runs up to 1.2 x the template model's largest T-
        # (WallGoManager.initTemperatureRange).  If the spinodal T1 of the broken phase lies inside that
        # range, tracePhase (paranoid re-minimisation) silently continues in the symmetric minimum and the
        # tabulated "low-T phase" has a jump.  Keep T1 >= 1.45 Tn by construction:
        # T1/T0 = 1/sqrt(1-q), Tc/T0 = 1/sqrt(1-8q/9), Tn/T0 = 1 + y (Tc/T0 - 1).
        q = draw(_f(0.62, 0.9))
        r1, rc = 1.0 / math.sqrt(1.0 - q), 1.0 / math.sqrt(1.0 - 8.0 * q / 9.0)
        ymax = min(0.95, (r1 / 1.45 - 1.0) / (rc - 1.0))      # >= 0.22 for q >= 0.62
        y = max(0.1, ymax * draw(_f(0.15, 1.0)))               # Tn not too close to T0 either
    else:
        # A^2 = q * 4 lam g with q < 0.85 keeps Tc and the spinodal T1 at finite distance
        q = draw(_f(0.05, 0.85))
        y = draw(_f(0.1, 0.95))
    A = math.sqrt(q * 4.0 * lam * g)
    amin = cubic_amin(g, A, lam, y)
    a = max(amin, 0.02) * (1.0 + 10.0 ** draw(_f(-1.5, 1.5)))
    return {"family": family, "Tn": draw(st_tn(decades)), "g": g, "A": A, "lam": lam, "a": a, "y": y}


@st.composite
def st_twostep_mix(draw, decades=(-2.0, 3.0), variants=("plain",)):
    var = draw(st.sampled_from(list(variants)))
    spec = draw(st_twostep(decades, None if var == "plain" else var))
    if var != "plain":
        spec[var] = True
    return spec


def st_eos(families=ANALYTIC_FAMILIES, tn_decades=(-2.0, 3.0), strong=None, weights=None,
           twostep_variants=("plain",)):
    """Strategy over EOS specs.  `families`: subset of FAMILIES; `weights`: optional dict of integer
    weights; `strong`: force alpha_n > ~0.35 above its lower bound (True) / below (False) for the
    bag and template families (None: mixed, ~30 % strong)."""
    table = {
        "bag": st_bag(tn_decades, strong),
        "template": st_template(tn_decades, strong),
        "twostep": st_twostep_mix(tn_decades, twostep_variants),
        "cubic": st_cubic(tn_decades, "cubic"),
        "traced": st_cubic((max(tn_decades[0], -2.0), min(tn_decades[1], 3.0)), "traced"),
    }
    w = weights or {}
    order = []
    for f in families:
        order.extend([f] * int(w.get(f, 1)))

    # (st.one_of de-duplicates identical strategies, so weights are realised through an index draw)
    @st.composite
    def pick(draw):
        return draw(table[draw(st.sampled_from(order))])

    return pick()
