"""Core data types shared by every check: Verdict, case hashing, known-findings matching.

A *case* is a JSON-serialisable dict drawn by Hypothesis (or enumerated).  A check is a pure
function ``check_case(case) -> Verdict``.  The replay file *is* the case dict.
"""
from __future__ import annotations

import hashlib
import json
import math
import os
import re
import sys
import traceback

VERIF_DIR = os.path.dirname(os.path.dirname(os.path.abspath(__file__)))
REPO_DIR = os.environ.get("VERIF_REPO", "/repo")


def use_repo():
    """Put the working tree of WallGo first on sys.path (always the current tree)."""
    src = os.path.join(REPO_DIR, "src")
    if src in sys.path:
        sys.path.remove(src)
    sys.path.insert(0, src)
    deps = os.path.join(VERIF_DIR, ".deps")
    if os.path.isdir(deps) and deps not in sys.path:
        sys.path.append(deps)


def jsonable(x):
    """Convert numpy scalars/arrays and non-finite floats to JSON-friendly values."""
    try:
        import numpy as np
    except Exception:  # pragma: no cover
        np = None
    if isinstance(x, dict):
        return {str(k): jsonable(v) for k, v in x.items()}
    if isinstance(x, (list, tuple)):
        return [jsonable(v) for v in x]
    if np is not None:
        if isinstance(x, np.ndarray):
            return jsonable(x.tolist())
        if isinstance(x, np.generic):
            return jsonable(x.item())
    if isinstance(x, float):
        if math.isnan(x):
            return "nan"
        if math.isinf(x):
            return "inf" if x > 0 else "-inf"
        return x
    if isinstance(x, complex):
        return {"re": jsonable(x.real), "im": jsonable(x.imag)}
    if isinstance(x, (str, int, bool)) or x is None:
        return x
    return repr(x)


def unjson_float(x):
    """Inverse of jsonable for floats stored as strings."""
    if isinstance(x, str):
        if x == "nan":
            return float("nan")
        if x == "inf":
            return float("inf")
        if x == "-inf":
            return float("-inf")
    return x


def canonical(case) -> str:
    return json.dumps(jsonable(case), sort_keys=True, separators=(",", ":"))


def case_hash(case) -> str:
    return hashlib.sha1(canonical(case).encode()).hexdigest()[:16]


class Verdict:
    """Outcome of one case.

    violations : list of {"sub": sub-oracle name, "cls": input class, "msg": text}
    labels     : classification labels (for the distribution reported in evidence)
    nontrivial : does the case satisfy the property's stated non-triviality rule
    discard    : reason string if the case was discarded (oracle ill-conditioned, ...)
    info       : measured residuals etc. (shown in samples)
    """

    __slots__ = ("violations", "labels", "nontrivial", "discard", "info", "subs_checked")

    def __init__(self):
        self.violations = []
        self.labels = []
        self.nontrivial = False
        self.discard = None
        self.info = {}
        self.subs_checked = []

    # -- building -----------------------------------------------------------
    def fail(self, sub: str, cls: str, msg: str, **detail):
        self.violations.append(
            {"sub": sub, "cls": cls, "msg": msg[:600], "detail": jsonable(detail)}
        )
        return self

    def label(self, *labels):
        for lab in labels:
            if lab is not None:
                self.labels.append(str(lab))
        return self

    def checked(self, sub: str):
        """Record that a sub-oracle was actually evaluated (for evidence)."""
        self.subs_checked.append(sub)
        return self

    def discarded(self, reason: str):
        self.discard = reason
        return self

    def ok(self):
        return not self.violations

    def to_json(self):
        return {
            "violations": self.violations,
            "labels": self.labels,
            "nontrivial": self.nontrivial,
            "discard": self.discard,
            "info": jsonable(self.info),
            "subs_checked": self.subs_checked,
        }


def crash_verdict(exc: BaseException) -> Verdict | None:
    """Classify an uncaught exception from check_case.

    If the traceback passes through WallGo source it is a violation candidate (the code under
    test blew up on an input the generator considers valid); otherwise it is a harness error and
    None is returned so that the runner exits 2.
    """
    tb = traceback.extract_tb(exc.__traceback__)
    src = os.path.join(REPO_DIR, "src") + os.sep
    wall_frames = [f for f in tb if f.filename.startswith(src)]
    if not wall_frames:
        return None
    inner = wall_frames[-1]
    v = Verdict()
    where = f"{os.path.basename(inner.filename)}:{inner.name}"
    v.fail(
        "crash",
        f"{type(exc).__name__}@{where}",
        f"uncaught {type(exc).__name__}: {exc}",
        traceback="".join(traceback.format_exception(type(exc), exc, exc.__traceback__))[-3000:],
    )
    return v


# ---------------------------------------------------------------------------
# Known findings
# ---------------------------------------------------------------------------
def load_findings(prop_id: str):
    path = os.path.join(VERIF_DIR, "known_findings.json")
    if not os.path.exists(path):
        return []
    with open(path) as fh:
        data = json.load(fh)
    return [e for e in data.get("findings", []) if e.get("property") == prop_id]


def match_known(violation: dict, findings: list):
    """Return the matching *known* (unrepaired) finding entry, or None.

    A finding names a sub-oracle and an input class (regex, full match).  Entries with status
    "fixed" never suppress anything.
    """
    for e in findings:
        if e.get("status") != "known":
            continue
        if e.get("sub") != violation["sub"]:
            continue
        pat = e.get("cls")
        if pat is None or re.fullmatch(pat, violation["cls"]):
            return e
    return None
