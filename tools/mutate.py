#!/venv/bin/python
"""Sensitivity protocol (DESIGN 2.7): apply one textual mutation (or a patch file) to a scratch copy of
/repo/src, run a check against it with VERIF_REPO, report, remove the copy.

  tools/mutate.py C19 quick src/WallGo/helpers.py 'OLD' 'NEW'
  tools/mutate.py C19 quick --patch /verif/seeded/C19_x/patch.diff
Nothing is written to /repo, /verif/evidence or /verif/replays.
"""
import os, shutil, subprocess, sys, tempfile

def main():
    prop, tier = sys.argv[1], sys.argv[2]
    tmp = tempfile.mkdtemp(prefix="wg_mut_")
    try:
        shutil.copytree("/repo/src", os.path.join(tmp, "src"),
                        ignore=shutil.ignore_patterns("__pycache__", "*.egg-info"))
        if sys.argv[3] == "--patch":
            r = subprocess.run(["patch", "-p1", "-d", tmp, "-i", os.path.abspath(sys.argv[4])],
                               capture_output=True, text=True)
            if r.returncode != 0:
                print("PATCH FAILED", r.stdout, r.stderr); return 3
        else:
            rel, old, new = sys.argv[3], sys.argv[4], sys.argv[5]
            path = os.path.join(tmp, rel)
            s = open(path).read()
            if s.count(old) < 1:
                print(f"MUTATION TARGET NOT FOUND in {rel}: {old!r}"); return 3
            open(path, "w").write(s.replace(old, new, 1))
        env = dict(os.environ, VERIF_REPO=tmp, VERIF_FOUND_DIR=os.path.join(tmp, "found"),
                   VERIF_EVIDENCE_DIR=os.path.join(tmp, "evidence"))
        if tier.startswith("replay:"):
            cmd = ["/verif/run", prop, "--replay", tier.split(":", 1)[1]]
        else:
            cmd = ["/verif/run", prop, tier]
        r = subprocess.run(cmd, env=env, capture_output=True, text=True)
        out = r.stdout.strip().splitlines()
        print(f"exit={r.returncode}")
        for line in out[:14]:
            print("  " + line[:300])
        if r.returncode == 2:
            print(r.stdout[-3000:], r.stderr[-2000:])
        return 0
    finally:
        shutil.rmtree(tmp, ignore_errors=True)

sys.exit(main())
