#!/venv/bin/python
"""Generate /verif/MANIFEST.json from the table below and validate it against the schema.

Only properties whose check module exists under checks/ and is listed in CLAIMED are claimed;
everything else goes to not_applicable with the reason given in PENDING.
"""
import glob
import json
import os
import sys

HERE = os.path.dirname(os.path.dirname(os.path.abspath(__file__)))
sys.path.insert(0, os.path.join(HERE, ".deps"))

ALL = [f"C{i:02d}" for i in range(1, 21)]

# id -> (technique, level text, level note, design section)
PBT = "exploration by generated-input search (Hypothesis) against an explicit oracle"
CLAIMED = {
    "C01": ("Hypothesis-generated call histories on one WallGoManager; oracles: sign bracket of the re-evaluated "
            "pressure (solver protocol and grid-adapted), window, T30 identity on reported profiles, re-convergence, "
            "bit-identical replay against a fresh manager in a fresh process; outside observer of the solver's non-convergence log record per pressure evaluation (configurations with maxIterations 2 and 3)",
            "Every generated history (model point x configuration x 3-9 public calls) satisfied labelling, window, bracket, "
            "attached-data and history-independence oracles, except for the listed known finding.",
            "Polynomial model families (Z2x2, Cubic1); pressure re-evaluated through the public EOM; non-conserving "
            "mode excluded from the bracket oracle (pressure is guess-dependent there).", "DESIGN.md 3/C01"),
    "C07": ("Hypothesis metamorphic pairs: unit factor s vs 1 on the public pipeline in fresh processes, allowance from a "
            "third run at tightened tolerances (two-level forward bound) plus conditioning-aware floors; call-history oracle: the same manager / the same model object re-expressed in place after an analysis in the base units must answer like a fresh process",
            "Dimensionless outputs (alpha_n, Psi_n, vJ, vMin, LTE and wall velocity, widths*Tn, offsets, T+-/Tn) were "
            "invariant within solver-tolerance-derived allowances for every generated (model, s, setting).",
            "Exactly homogeneous polynomial models only; alpha_n >= 2e-3 by construction.", "DESIGN.md 3/C07"),
    "C08": ("Hypothesis metamorphic pairs: affine relabelling u=P(Sx+c) vs original fields, allowance from a third run at "
            "tightened tolerances; call-history oracle: the relabelled model on the same manager / the same model object re-expressed in place after an analysis of the original labelling must answer like a fresh process",
            "vJ, alpha_n, LTE/wall velocity, T+-, multiset of widths and wall-centre separations invariant and phase "
            "locations mapped affinely for every generated relabelling.",
            "Affine relabellings (permutation, reflection, translation) of 1- and 2-field models.", "DESIGN.md 3/C08"),
    "C04": ("Hypothesis over potentials x wall shapes x velocities on three branches x Delta-moments; pointwise T30/T33 "
            "oracle with the closed-form enthalpy and an independently derived out-of-equilibrium stress, backward "
            "error in T with a forward-image clause for the hybrid double root; asymptotics by own-residual segments",
            "Every profile point reported as success reproduced T30 (velocity form) and T33 within the backward window, "
            "and the tails approached (T+-, -v+-), except for the listed known finding (no-root points reported as success).",
            "tanh walls only; Delta-moments are small smooth polynomials; walls whose matching constants are inconsistent "
            "beyond 1e-3 are C02 territory and skipped.", "DESIGN.md 3/C04, 7.3"),
    "C09": ("Hypothesis over potentials (5 families) x temperatures x wall shapes x grid sizes; closed-form free-energy "
            "difference as oracle with a resolution-dependent envelope, rounding floor and convergence relation; "
            "wallProfile derivative against 6th-order differences; grids re-mapped as an out-of-equilibrium run does and directly by the user (one tail lengthened)",
            "Pressure on fixed uniform profiles equals V(low)-V(high) within the measured geometric envelope in the "
            "resolution variable, converges under M -> 2M, multiplier=0 keeps the shape; public route on bag potentials; "
            "dphi/dz exact.", "Envelope constants measured on the unchanged tree (x5), recorded in TOLERANCES.",
            "DESIGN.md 3/C09, 7.3"),
    "C10": ("Hypothesis over potentials x tracing parameters (direct and through the manager) x ~30 temperatures per object "
            "from far below to far above the tabulated ranges; thermodynamic identities, derivative consistency by "
            "in-piece stencils, one-sided continuity, closed-form p=-V, alpha_n; call histories on one object (re-trace, in-place parameter change, re-trace ending within rounding of a tabulated temperature) with a like-for-like accuracy relation; tables widened with extendInterpolationTable or handed over by the caller from re-used buffers (user-table oracle)",
            "e, w, cs2 relations, derivative consistency, continuity of p, dp, ddp, cs2 across range ends, p=-V(min) and "
            "alpha_n(closed form) held for every generated Thermodynamics object.",
            "Units fixed to 1 (unit dependence is C07/C11).", "DESIGN.md 3/C10, 7.3"),
    "C11": ("Hypothesis over potentials x start x requested range (incl. past true ends) x dT x rTol x paranoid x units x "
            "first step; closed-form branch, gradient, Hessian, ends of phases and Tc as oracle",
            "Every tabulated node is the closed-form minimum of its branch within what tracePhase promises, tables stop on "
            "the existing side of true ends with the flag set and reach requested ends otherwise, Tc equals the closed form.",
            "Second-order / transcritical ends are merge-like: only pointwise invariants asserted there.",
            "DESIGN.md 3/C11, 7.3"),
    "C12": ("Hypothesis over backgrounds x particles x function-space collision kernels x bases x modes; oracles: "
            "backward error of the linear solve, zero solution, cross-basis equality, FD->spectral convergence, "
            "independent collocation reference",
            "Residual, homogeneous-zero, basis independence of delta f and Deltas, FD convergence per amplitude class and "
            "background immutability held on all generated cases.",
            "Synthetic collision kernels defined in function space by the harness.", "DESIGN.md 3/C12"),
    "C13": ("Hypothesis over grids x mass profiles x deviations in the Gauss-Chebyshev-Lobatto exactness family; "
            "closed-form Chebyshev moments and direct boosted T^{mu nu} integrals as oracle; grids rescaled in place, caller's background buffers overwritten after setBackground, grid object used before by another collision array / solver in the other bases",
            "All four moments equal the closed-form integrals to rounding; stress tensor equals the direct momentum "
            "integral; linearity.", "deltaToTmunu is called on a minimal EOM object carrying only the particle list.",
            "DESIGN.md 3/C13"),
    "C14": ("Hypothesis-generated load histories with injected faults on synthetic HDF5 directories; oracles: stored "
            "numbers bit-equal, function-space action under basis change and interpolation (harness interpolant), "
            "per-pair independence, fault model",
            "Every generated history of loads (1-3 particles, all basis/size combinations, fault patterns) satisfied the "
            "stored-bits, action, independence and fault-atomicity oracles.",
            "Fault list as in the property (missing files, oversize target, size/basis mismatch); corrupt HDF5 not generated.",
            "DESIGN.md 3/C14"),
    "C16": ("exhaustive enumeration of the (M,N,direction,endpoints,basis) lattice on identity coefficient matrices + "
            "Hypothesis over rank 1-4 arrays; numpy.polynomial Chebyshev algebra as oracle",
            "changeBasis, evaluate, derivative, integrate, matrix, derivMatrix agree with the independent reference on the "
            "complete operator of every enumerated configuration and on generated multi-axis polynomials.",
            "Rounding bound with computed condition numbers.", "DESIGN.md 3/C16"),
    "C17": ("Hypothesis RuleBasedStateMachine over rescale histories + @given; oracles: monotonicity with measured rounding "
            "noise, window integral of the reported Jacobian, inverse map, centre slope, rescale-vs-rebuild",
            "Every reachable grid state satisfied all map/Jacobian/inverse/rebuild oracles.",
            "Probes |chi| <= 1-2^-20; tolerance of the inverse includes the measured rounding noise of the forward map.",
            "DESIGN.md 3/C17"),
    "C19": (
        "exhaustive exact-rational enumeration of stencil tables + Hypothesis @given over "
        "polynomials/points/steps/bounds/shapes/axes with exact-derivative oracle and call recorder",
        "Every row of every coefficient table satisfies the exact moment conditions (checked in "
        "Fractions, exhaustive); generated polynomials of admissible degree are differentiated to "
        "rounding accuracy for all point/bound/shape/axis classes and no evaluation leaves the bounds.",
        "Trusted: numpy float arithmetic, the harness's monomial differentiation. Hessian exactness "
        "class is total degree <= order+1.",
        "DESIGN.md 3/C19",
    ),
}

CLAIMED["C20"] = (
    "exhaustive enumeration of all 2x10000 table rows, midpoints and abscissae + Hypothesis over arguments, "
    "derivative orders and particle contents; Bessel series / mpmath quadrature of the defining integrand / closed-form "
    "imaginary parts as oracle; spline-of-oracle differential for the shipped interpolant; call histories on one Integrals() object (probe, scan of 510-990 arguments, probe)",
    "Direct evaluation, shipped tables (value and first derivative) and the one-loop thermal potential (Stefan-Boltzmann "
    "limit, Boltzmann suppression, continuity, imaginary-part options, jCW) agree with the independent oracle.",
    "Tolerances derived from quad's documented accuracy; measured envelope only next to the non-analytic points.",
    "DESIGN.md 3/C20, 7.3")

CLAIMED["C18"] = (
    "Hypothesis RuleBasedStateMachine over evaluate/derivative/extend/mode/adaptive/write-read histories for return "
    "dimension 1-4 and all input shapes; reference model of modes and adaptive counters; harness-built scipy "
    "CubicSpline on the observed table as oracle; table invariants after every step",
    "Output shape, inside-range spline values, per-side out-of-range semantics for all 16 mode pairs, derivatives, "
    "strictly increasing finite tables, individual NaN rows, agreement with f and the write/read round trip held "
    "after every step of every generated history.",
    "Smooth cheap component functions; adaptive trigger count modelled as bounds where the documentation leaves it open.",
    "DESIGN.md 3/C18, 7.3")

CLAIMED["C02"] = (
    "Hypothesis over EOS (bag, template, two-step, cubic closed form, traced) x Tn over five decades x wall-velocity "
    "classes with mass at v_min, c_b, v_J x two tolerance settings; backward-error oracle on the junction conditions "
    "(own Newton correction inside the tolerance box), boundary constants on both sides, independent reference matcher",
    "Every returned matching conserved energy and momentum flux within the backward bound, the boundary constants "
    "equal the fluxes on both sides, and where the reference finds an exact matching the returned one is it - except "
    "for the listed known findings (unconverged/fallback matchings).",
    "Reference hydrodynamics (vlib/refhydro.py) validated against bag/template closed forms; vw = c_b exactly not "
    "generated (template solver does not terminate there).", "DESIGN.md 3/C02, 7.3")
CLAIMED["C03"] = (
    "Hypothesis over the C02 domain plus independently drawn (vw, v+, T+) triples; independent integrator in the "
    "similarity variable (DOP853, rtol 1e-11) crossing the front with energy-flux conservation as oracle; efficiency "
    "factor against quadrature over the reference profile; efficiencyFactor call histories on one object (other flow type in between)",
    "The matched flow reaches Tn at rest within the backward bound, the momentum-flux condition holds at the front "
    "for constant-cs EOS, detonations have T+=Tn and v+=vw, solveHydroShock and efficiencyFactor agree with the "
    "reference.", "Near-sonic fronts below 1e-6 discarded; kappa bound 5e-3 away from vJ (measured 6.6e-4).",
    "DESIGN.md 3/C03, 7.3")
CLAIMED["C05"] = (
    "Hypothesis over EOS x Tn with alpha_n constructed so that interior roots, runaway and static sentinels each take "
    ">= 29 % of cases; sign change of the entropy mismatch of the Tn-matched flow inside the backward window; "
    "Chebyshev scan + reference root search for sentinels",
    "Interior LTE velocities are zeros of the entropy mismatch within the tolerance image; sentinels are consistent "
    "with the sign of the mismatch over the window - except for the listed known findings.",
    "Margins around thresholds are discards, as the property itself excludes them.", "DESIGN.md 3/C05, 7.3")
CLAIMED["C06"] = (
    "Hypothesis over EOS x Tn x wall-velocity classes x constructed window cuts (phase ranges set to the reference "
    "T-(v*) / T+(v*), genuine flag both ways); admissibility predicates, Chapman-Jouguet minimisation by the harness, "
    "classification flip at vJ, fastestDeflag/slowestDeton against the constructed cut",
    "Returned matchings are admissible and correctly classified, vJ is the Chapman-Jouguet point, and advertised "
    "fastest deflagration / slowest detonation coincide with constructed range ends - except for the listed known findings.",
    "Strict inequalities are arbitrated by the exact reference solution; cuts resolved worse than 0.005 discarded.",
    "DESIGN.md 3/C06, 7.3")
CLAIMED["C15"] = (
    "Hypothesis differential testing of Hydrodynamics against HydrodynamicsTemplateModel on template EOS at two "
    "tolerance levels, with the independent reference arbitrating which side is wrong; in a third of the cases the solver objects first answer efficiencyFactor for other walls (call history)",
    "vJ, vMin, matching, boundary constants, LTE velocity and efficiency factor of the two solvers agree within "
    "K tol kappa and not worse at the tighter level - except for the listed known findings.",
    "alpha_n bounded below by a positive bag constant; |vw - vJ| <= 1e-5 discarded.", "DESIGN.md 3/C15, 7.3")

PENDING_REASON = "check not built yet in this session; see DESIGN.md section 3 for the planned oracle"


# additions of seeding round 7 (appended to the technique strings)
EXTRA = {
    "C01": "; reported velocity profile ends in the wall frame at -v-, -v+ of the matching (LTE and off-equilibrium solves)",
    "C04": "; at grid points without a root the returned temperature is the residual's minimiser (documented fallback)",
    "C06": "; call-history variant: findvwLTE / maxAl asked of the solver object before vJ, matchings and windows are",
    "C09": "; EOM objects first used at another temperature of the coexistence range; profile end points and shapes on a shared EOM object",
    "C10": "; integer-typed temperatures (int, np.int64, 0-d) inside and outside the tables agree with the float evaluation; every function evaluated outside the first tables before a re-trace",
    "C13": "; tachyonic mass profiles with E^2 > 0 on every node; solver objects that computed moments for another particle list before",
    "C17": "; metamorphic input-type relation: integer / 0-d / int32 / list coordinates give the same maps and Jacobians as floats",
    "C20": "; first derivative inside a user-widened table after earlier value/derivative queries; T = 0 exactly (float, int, 0-d, array entry) with massless species",
}


def main():
    checks = []
    for pid in ALL:
        if pid not in CLAIMED:
            continue
        if not glob.glob(os.path.join(HERE, "checks", f"{pid.lower()}_*.py")):
            continue
        tech, text, note, ref = CLAIMED[pid]
        tech = tech + EXTRA.get(pid, "")
        checks.append(
            {
                "property_id": pid,
                "quick_cmd": f"./run {pid} quick",
                "thorough_cmd": f"./run {pid} thorough",
                "evidence_file": f"/verif/evidence/{pid}.json",
                "replay_cmd_template": f"./run {pid} --replay {{path}}",
                "engine": "vlib-runner",
                "level_claimed": {"category": "exploration", "text": text, "design_ref": ref},
                "level_note": note,
                "technique": tech,
            }
        )
    claimed = {c["property_id"] for c in checks}
    manifest = {
        "version": 1,
        "setup_cmd": "./setup.sh",
        "hooks": {
            "guard": "WALLGO_VERIF",
            "enable": "no hooks in the repository; checks import /repo/src directly (run sets WALLGO_VERIF=1, unused)",
            "baseline_off_cmd": "cd /repo && /venv/bin/python -m pytest -ra -q -p no:cacheprovider --timeout=900 --continue-on-collection-errors",
            "source_commits": [],
            "add_only": True,
        },
        "engines": [
            {
                "name": "vlib-runner",
                "path": "/verif/vlib/runner.py",
                "serves_properties": sorted(claimed),
                "kind_free_text": "sharded Hypothesis (given + RuleBasedStateMachine) and exhaustive "
                "enumeration driver; collect-then-shrink; replay files are the generated case dicts",
            }
        ],
        "checks": checks,
        "notes": "Family: property-based testing and fuzzing. See DESIGN.md. known_findings.json lists "
        "confirmed defects (known/fixed).",
        "not_applicable": [
            {"property_id": pid, "reason": PENDING_REASON} for pid in ALL if pid not in claimed
        ],
    }
    path = os.path.join(HERE, "MANIFEST.json")
    with open(path, "w") as fh:
        json.dump(manifest, fh, indent=1)
    try:
        import jsonschema

        with open(os.path.join(HERE, "vlib", "MANIFEST.schema.json")) as fh:
            jsonschema.validate(manifest, json.load(fh))
        print("MANIFEST.json valid;", len(checks), "checks claimed")
    except ImportError:
        print("jsonschema not available; not validated")


main()
