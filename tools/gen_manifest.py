#!/venv/bin/python
"""Generate /verif/MANIFEST.json from the table below and validate it against the schema.

Only properties whose check module exists under checks/ and is listed in CLAIMED are claimed;
everything else goes to not_applicable with the reason given in PENDING.
"""
import glob
import json
import os
import sys

HERE = os.path.dirname(os.path.dirname(os.path.abspath(__file__)))
sys.path.insert(0, os.path.join(HERE, ".deps"))

ALL = [f"C{i:02d}" for i in range(1, 21)]

# id -> (technique, level text, level note, design section)
CLAIMED = {
    "C19": (
        "exhaustive exact-rational enumeration of stencil tables + Hypothesis @given over "
        "polynomials/points/steps/bounds/shapes/axes with exact-derivative oracle and call recorder",
        "Every row of every coefficient table satisfies the exact moment conditions (checked in "
        "Fractions, exhaustive); generated polynomials of admissible degree are differentiated to "
        "rounding accuracy for all point/bound/shape/axis classes and no evaluation leaves the bounds.",
        "Trusted: numpy float arithmetic, the harness's monomial differentiation. Hessian exactness "
        "class is total degree <= order+1.",
        "DESIGN.md 3/C19",
    ),
}

PENDING_REASON = "check not built yet in this session; see DESIGN.md section 3 for the planned oracle"


def main():
    checks = []
    for pid in ALL:
        if pid not in CLAIMED:
            continue
        if not glob.glob(os.path.join(HERE, "checks", f"{pid.lower()}_*.py")):
            continue
        tech, text, note, ref = CLAIMED[pid]
        checks.append(
            {
                "property_id": pid,
                "quick_cmd": f"./run {pid} quick",
                "thorough_cmd": f"./run {pid} thorough",
                "evidence_file": f"/verif/evidence/{pid}.json",
                "replay_cmd_template": f"./run {pid} --replay {{path}}",
                "engine": "vlib-runner",
                "level_claimed": {"category": "exploration", "text": text, "design_ref": ref},
                "level_note": note,
                "technique": tech,
            }
        )
    claimed = {c["property_id"] for c in checks}
    manifest = {
        "version": 1,
        "setup_cmd": "./setup.sh",
        "hooks": {
            "guard": "WALLGO_VERIF",
            "enable": "no hooks in the repository; checks import /repo/src directly (run sets WALLGO_VERIF=1, unused)",
            "baseline_off_cmd": "cd /repo && /venv/bin/python -m pytest -ra -q -p no:cacheprovider --timeout=900 --continue-on-collection-errors",
            "source_commits": [],
            "add_only": True,
        },
        "engines": [
            {
                "name": "vlib-runner",
                "path": "/verif/vlib/runner.py",
                "serves_properties": sorted(claimed),
                "kind_free_text": "sharded Hypothesis (given + RuleBasedStateMachine) and exhaustive "
                "enumeration driver; collect-then-shrink; replay files are the generated case dicts",
            }
        ],
        "checks": checks,
        "notes": "Family: property-based testing and fuzzing. See DESIGN.md. known_findings.json lists "
        "confirmed defects (known/fixed).",
        "not_applicable": [
            {"property_id": pid, "reason": PENDING_REASON} for pid in ALL if pid not in claimed
        ],
    }
    path = os.path.join(HERE, "MANIFEST.json")
    with open(path, "w") as fh:
        json.dump(manifest, fh, indent=1)
    try:
        import jsonschema

        with open(os.path.join(HERE, "vlib", "MANIFEST.schema.json")) as fh:
            jsonschema.validate(manifest, json.load(fh))
        print("MANIFEST.json valid;", len(checks), "checks claimed")
    except ImportError:
        print("jsonschema not available; not validated")


main()
