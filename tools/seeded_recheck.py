#!/venv/bin/python
"""Re-run the /verif check of every seeded change against the CURRENT /repo HEAD and the current checks.

  tools/seeded_recheck.py [shard k n]      (shard k of n: every n-th directory, for parallel use)

Only step 3 of tools/seeded_verify.py (the check against the patched source); the confirmation data of the
seed (suite, demo) are left as recorded.  Writes meta["recheck"].
"""
import glob, json, os, subprocess, sys, time

dirs = sorted(glob.glob("/verif/seeded/*/meta.json"))
if len(sys.argv) >= 4 and sys.argv[1] == "shard":
    k, n = int(sys.argv[2]), int(sys.argv[3])
    dirs = dirs[k::n]
head = subprocess.run(["git", "-C", "/repo", "rev-parse", "--short", "HEAD"], capture_output=True, text=True).stdout.strip()
env = dict(os.environ, OMP_NUM_THREADS="1", OPENBLAS_NUM_THREADS="1")
for f in dirs:
    m = json.load(open(f))
    d = os.path.dirname(f)
    patch = os.path.join(d, "patch.diff")
    t0 = time.time()
    r = subprocess.run(["/verif/tools/mutate.py", m["property"], "quick", "--patch", patch], capture_output=True, text=True, env=env)
    lines = r.stdout.strip().splitlines()
    first = [ln.strip()[:240] for ln in lines if "sub-oracle=" in ln][:1]
    m["recheck"] = {"repo_head": head, "at": time.strftime("%Y-%m-%d %H:%M:%S"), "exit": lines[0] if lines else "",
                    "caught": bool(lines and lines[0] == "exit=1"), "first_violation": first, "wall_s": round(time.time() - t0, 1)}
    json.dump(m, open(f, "w"), indent=1)
    print(os.path.basename(d), m["recheck"]["exit"], m["recheck"]["wall_s"], flush=True)
