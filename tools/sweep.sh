#!/bin/bash
# tools/sweep.sh "<seeds>" "<ids>" [tier]  - run checks at several VERIF_SEED values; one summary line per run.
# Meant for `vp run` (works in whatever checkout it is started from; writes sweep_logs/ there).
cd "$(dirname "$0")/.."
seeds="$1"; ids="$2"; tier="${3:-quick}"
mkdir -p sweep_logs
for s in $seeds; do for id in $ids; do
  t0=$(date +%s)
  VERIF_SEED=$s ./run $id $tier > sweep_logs/${id}_${tier}_s$s.log 2>&1; rc=$?
  echo "seed=$s id=$id tier=$tier exit=$rc wall=$(( $(date +%s)-t0 ))s viol=$(grep -c '^VIOLATION' sweep_logs/${id}_${tier}_s$s.log) known=$(grep -c '^KNOWN-FINDING' sweep_logs/${id}_${tier}_s$s.log)"
  grep '^VIOLATION' sweep_logs/${id}_${tier}_s$s.log | head -5
done; done
