#!/venv/bin/python
"""Regenerate seeded/INDEX.md from seeded/*/meta.json."""
import glob, json, os
rows = []
for f in sorted(glob.glob("/verif/seeded/*/meta.json")):
    m = json.load(open(f))
    d = os.path.basename(os.path.dirname(f))
    first = (m.get("check_first_violations") or [""])[0]
    sub = first.split("sub-oracle=")[1].split(" ")[0] if "sub-oracle=" in first else ""
    rows.append((m["property"], d, "yes" if m.get("confirmed") else "NO", "caught" if m.get("caught") else ("MISSED (caught by %s)" % m["caught_by_other_check"] if m.get("caught_by_other_check") else ("outside the property as stated (see meta.json)" if m.get("outside_property") else "MISSED")),
                 m.get("check_cmd", "").split(" --patch")[0].replace("tools/mutate.py ", ""), sub,
                 (m.get("needs_to_manifest", "").split("\n")[0])[:110]))
with open("/verif/seeded/INDEX.md", "w") as fh:
    fh.write("# Seeded changes (written by independent sub-agents from the property text only)\n\n")
    fh.write("`confirmed` = patch applies, pinned suite unchanged on the patched tree (152 pass / 5 LFS failures), "
             "demo fails with the patch and passes without. `outcome` = result of the /verif check run against the "
             "patched source (tools/mutate.py --patch).\n\n")
    fh.write("| property | directory | confirmed | outcome | tier | first sub-oracle that fired |\n|---|---|---|---|---|---|\n")
    for r in rows:
        fh.write(f"| {r[0]} | {r[1]} | {r[2]} | {r[3]} | {r[4]} | {r[5]} |\n")
print(open("/verif/seeded/INDEX.md").read())
