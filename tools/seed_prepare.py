#!/venv/bin/python
"""Prepare a scratch worktree for an independent seeding agent.

  tools/seed_prepare.py C07 /tmp/wt4_C07        -> prints the prompt for the agent

The worktree gets PROPERTY.txt (the property record as text) and PREVIOUS.txt (one line per
change already written for this property in earlier rounds: directory names only, so that the
new agent chooses other locations and mechanisms). Nothing from /verif's checks is exposed.
"""
import glob, json, os, subprocess, sys

prop, wt = sys.argv[1], sys.argv[2]
rec = None
for l in open("/verif/properties.jsonl"):
    d = json.loads(l)
    if d["id"] == prop:
        rec = d
subprocess.run(["git", "-C", "/repo", "worktree", "add", "-q", "--detach", wt, "HEAD"], check=True)
with open(os.path.join(wt, "PROPERTY.txt"), "w") as f:
    f.write(f"{rec['id']}: {rec['title']}\n\nSTATEMENT\n{rec['statement']}\n\nQUANTIFIER\n{rec['quantifier']['text']} (over: {', '.join(rec['quantifier']['over'])})\n\n")
    f.write(f"WHY THE EXISTING TESTS CANNOT SETTLE IT\n{rec['why_tests_cant']}\n\nANCHORS IN THE CODE\n{json.dumps(rec['anchors'], indent=1)}\n")
prev = sorted(os.path.basename(os.path.dirname(p))[4:] for p in glob.glob(f"/verif/seeded/{prop}_*/meta.json"))
with open(os.path.join(wt, "PREVIOUS.txt"), "w") as f:
    f.write("Changes already written for this property by earlier agents (short names). Choose DIFFERENT locations and mechanisms:\n")
    for p in prev:
        f.write(f"  - {p}\n")
hint = ""
if prop in ("C01", "C04", "C07", "C08", "C09"):
    hint = open("/verif/tools/SEEDER_HINT_E2E.txt").read()
if prop in ("C02", "C03", "C05", "C06", "C15"):
    hint = open("/verif/tools/SEEDER_HINT_HYDRO.txt").read()
prompt = open("/verif/tools/SEEDER_PROMPT.txt").read().replace("{WT}", wt)
extra = (f"\n\nThe file {wt}/PREVIOUS.txt lists short names of changes earlier agents already wrote for this property; yours must differ from them in location and mechanism. "
         "In this round, favour changes whose manifestation needs (a) a multi-step call sequence on one object (stale state, cache, in-place mutation of caller data), or (b) two cooperating sites that each look fine alone, or (c) an unusual but legitimate input type/shape/regime (integer or 0-d arrays, lists, a boundary value, an extreme but documented parameter) - and make the two seeds of different kinds.\n")
print(prompt + extra + ("\n" + hint if hint else ""))
