#!/venv/bin/python
"""Confirm a seeded change and record it under /verif/seeded/<ID>_<name>/.

  tools/seeded_verify.py C17 /tmp/wt_C17/seed1 stale-cache [--tier quick|thorough] [--skip-suite]

Steps (all in a scratch worktree outside /repo and /verif, removed afterwards):
  1. apply patch.diff to a fresh worktree of /repo HEAD; run the pinned test suite there
     (expected: the 152 baseline tests pass, the 5 LFS-dependent ones fail as on the clean tree);
  2. run demo.py against the patched tree (must fail) and against /repo (must pass);
  3. run the /verif check for the property against the patched source (tools/mutate.py --patch).
Writes meta.json with what was run and what happened.
"""
import json
import os
import shutil
import subprocess
import sys
import tempfile
import time

ENV = dict(os.environ, OMP_NUM_THREADS="1", OPENBLAS_NUM_THREADS="1", PYTHONDONTWRITEBYTECODE="1")


def run(cmd, **kw):
    return subprocess.run(cmd, capture_output=True, text=True, env=kw.pop("env", ENV), **kw)


def main():
    prop, seeddir, name = sys.argv[1], os.path.abspath(sys.argv[2]), sys.argv[3]
    tier = "quick"
    if "--tier" in sys.argv:
        tier = sys.argv[sys.argv.index("--tier") + 1]
    skip_suite = "--skip-suite" in sys.argv
    patch = os.path.join(seeddir, "patch.diff")
    demo = os.path.join(seeddir, "demo.py")
    out = os.path.join("/verif/seeded", f"{prop}_{name}")
    os.makedirs(out, exist_ok=True)
    for f in ("patch.diff", "demo.py", "NOTE.md"):
        if os.path.exists(os.path.join(seeddir, f)):
            shutil.copy(os.path.join(seeddir, f), os.path.join(out, f))
    wt = tempfile.mkdtemp(prefix="sv_")
    os.rmdir(wt)
    prev = {}
    if os.path.exists(os.path.join(out, "meta.json")):
        prev = json.load(open(os.path.join(out, "meta.json")))
    meta = {"property": prop, "name": name, "verified_at": time.strftime("%Y-%m-%d %H:%M:%S"),
            "repo_head": run(["git", "-C", "/repo", "rev-parse", "--short", "HEAD"]).stdout.strip()}
    try:
        r = run(["git", "-C", "/repo", "worktree", "add", "-q", wt, "HEAD"])
        if r.returncode:
            print(r.stderr)
            return 2
        r = run(["git", "-C", wt, "apply", patch])
        meta["patch_applies"] = r.returncode == 0
        if r.returncode:
            print("patch does not apply:", r.stderr)
            meta["error"] = r.stderr[-500:]
            return 2
        penv = dict(ENV, PYTHONPATH=os.path.join(wt, "src"))
        if skip_suite:
            for k in ("suite_on_patched_tree", "suite_ok"):
                if k in prev:
                    meta[k] = prev[k]
        if not skip_suite:
            r = run(["/venv/bin/python", "-m", "pytest", "-q", "-p", "no:cacheprovider", "--timeout=900",
                     "tests"], cwd=wt, env=penv)
            tail = r.stdout.strip().splitlines()[-1] if r.stdout.strip() else ""
            meta["suite_on_patched_tree"] = tail
            meta["suite_ok"] = ("152 passed" in tail) and ("4 failed" in tail) and ("1 error" in tail)
        r = run(["/venv/bin/python", demo], cwd=seeddir, env=penv)
        meta["demo_patched_exit"] = r.returncode
        meta["demo_patched_tail"] = (r.stdout + r.stderr).strip()[-400:]
        r = run(["/venv/bin/python", demo], cwd=seeddir, env=dict(ENV, PYTHONPATH="/repo/src"))
        meta["demo_clean_exit"] = r.returncode
        if r.returncode:
            meta["demo_clean_tail"] = (r.stdout + r.stderr).strip()[-400:]
    finally:
        run(["git", "-C", "/repo", "worktree", "remove", "--force", wt])
        shutil.rmtree(wt, ignore_errors=True)
    t0 = time.time()
    r = run(["/verif/tools/mutate.py", prop, tier, "--patch", patch])
    lines = r.stdout.strip().splitlines()
    meta["check_cmd"] = f"tools/mutate.py {prop} {tier} --patch seeded/{prop}_{name}/patch.diff"
    meta["check_exit"] = lines[0] if lines else ""
    meta["check_wall_s"] = round(time.time() - t0, 1)
    meta["check_first_violations"] = [ln.strip()[:300] for ln in lines if "sub-oracle=" in ln][:3]
    meta["caught"] = bool(lines and lines[0] == "exit=1")
    meta["confirmed"] = bool(meta.get("patch_applies") and meta.get("suite_ok", False)
                             and meta["demo_patched_exit"] != 0 and meta["demo_clean_exit"] == 0)
    note = os.path.join(out, "NOTE.md")
    meta["needs_to_manifest"] = open(note).read()[:1500] if os.path.exists(note) else ""
    with open(os.path.join(out, "meta.json"), "w") as fh:
        json.dump(meta, fh, indent=1)
    print(json.dumps({k: meta[k] for k in ("confirmed", "caught", "check_exit", "suite_on_patched_tree",
                                            "demo_patched_exit", "demo_clean_exit", "check_first_violations")
                      if k in meta}, indent=1))
    return 0


sys.exit(main())
