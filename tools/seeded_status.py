#!/venv/bin/python
"""One line per seeded change verified since a given date: tools/seeded_status.py 2026-09-29T19"""
import glob, json, sys
since = sys.argv[1] if len(sys.argv) > 1 else ""
for f in sorted(glob.glob("/verif/seeded/*/meta.json")):
    m = json.load(open(f))
    if m.get("verified_at", "").replace(" ", "T") < since:
        continue
    rc = m.get("recheck", {})
    print(f"{m['property']} {m['name']:45s} confirmed={m.get('confirmed')} suite_ok={m.get('suite_ok')} demo(p/c)={m.get('demo_patched_exit')}/{m.get('demo_clean_exit')} "
          f"caught={m.get('caught')} recheck={rc.get('caught')} :: {(m.get('check_first_violations') or [''])[0][:90]}")
