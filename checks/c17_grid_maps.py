"""C17 - grid coordinate maps are monotone bijections with consistent Jacobians.

A case is a history  {"kind": "history", "init": {...grid parameters...}, "steps": [rescale calls]}.
After construction and after every rescaling call all sub-oracles are evaluated on the live object:

  monotone         z, p_z, p_par strictly increasing on ~1400 compact probe points (uniform, refined
                   towards +-1 and around +-r) and on the cached node arrays
  origin           decompactify(0) = wall centre (0 for Grid)
  jacobian         compactificationDerivatives = derivative of decompactify: on a window around every probe the
                   Gauss-Legendre integral of the reported Jacobian equals the change of the map (error
                   estimated from the quadrature and from the measured rounding noise of the map alone)
  slope-centre     Grid3Scales: d z/d chi at chi = 0 equals wallThickness / ratioPointsWall
  input-type       the maps and the Jacobian at compact 0 given as a Python int, 0-d / 1-d integer array (int64, int32)
                   or mixed list equal those at float 0.0; compactify of integer-typed physical coordinates
                   equals compactify of the same points as floats
  inverse-map      compactify(decompactify(x)) = x and decompactify(compactify(X)) = X on the same object
  cache            cached node arrays equal the maps evaluated at the compact nodes; compact nodes are
                   the Lobatto / uniform points; endpoints=True variants are padded with +-inf / inf
  rebuild          every cached array and the maps at probe points equal those of a NEW grid built with
                   the current parameters
  rebuild-inverse  same for compactify
A sub-oracle that has failed is not evaluated again in the same history; the others keep running.
"""
from __future__ import annotations

import numpy as np
from hypothesis import strategies as st

from vlib import refspectral as R
from vlib.core import Verdict

PROPERTY_ID = "C17"
ENGINE = "hypothesis RuleBasedStateMachine (rescale histories) + @given histories; replay = the history dict"
RULE = (
    "Histories: construct Grid (position scale, momentum scale in 10^[-2,2], both spacings, M,N in "
    "[2,40]) or Grid3Scales (L in 10^[-2,2], r in [0.05,0.95], smoothing in [0.01,0.9], tails = "
    "L(1/2+s)/r*(1+10^[-2,2]) independently, centre in +-10^[-2,2]*L or 0), then 0-8 calls of "
    "changePositionFalloffScale / changeMomentumFalloffScale with freshly drawn admissible arguments; "
    "all sub-oracles after every call. Non-trivial = three-scale grid with unequal tails and non-zero "
    "centre, or a history with >= 2 rescales. Distinct by canonical JSON of the history."
)
BUDGET = {
    "quick": {"cases": 400, "steps": 8, "given_cases": 200, "shrink": True, "time_cap_s": 600},
    "thorough": {"cases": 16000, "steps": 8, "given_cases": 4000, "shrink": True, "time_cap_s": 3000},
}
EPS = R.EPS
TOL_INV = 1e-12          # DESIGN: compactify(decompactify(x)) = x, absolute in compact coordinates
TOL_JAC_REL = 1e-7       # DESIGN: Jacobian vs derivative of the map, relative 1e-7
JAC_SKIP_REL = 1e-5      # a window whose own error estimate exceeds this is skipped
TOL_REBUILD = 16 * EPS   # rescale-vs-rebuild: equal up to rounding (relative, elementwise)
EDGE_BITS = 20           # probes cover |x| <= 1 - 2^-20 (nearest node for M <= 40 is 3e-3 from the end)
TOLERANCES = {
    "inverse_abs": TOL_INV,
    "inverse_phys": "16*eps*(|J(x)| + |X|): conditioning of the round trip through compact coordinates",
    "jacobian_rel": TOL_JAC_REL,
    "jacobian_rule": "|I20 - dz| <= 1e-7*|dz| + 10*(|I20 - I12| + 2*rnd + 64 eps |I20|); I_n = n-point Gauss-Legendre "
                     "integral of the reported Jacobian over [x - w, x + w], w = 2^k <= l/2, l = distance to the nearest "
                     "singularity (+-1, +-r +- i a); dz = change of decompactify over the window; rnd = 2*noise + "
                     "2*eps*S, noise = largest residual of a cubic fitted to 14 irregular samples of the map within l/512, S = magnitude of its terms + "
                     "|x|*slope; windows whose own error estimate exceeds 1e-5*|dz| are skipped and counted",
    "slope_centre": "32*eps*(2 tailIn + 2 tailOut + 2 L/r): cancellation in the smoothed steps, computed",
    "origin": "1e-12*(|centre| + tailIn + tailOut + L/r)",
    "rebuild_rel": TOL_REBUILD,
}
EXHAUSTIVE_SUBDOMAINS = []
ASSUMPTIONS = [
    "Admissible Grid3Scales parameters are those accepted by its own assertions (tails > L(1/2+s)/r, "
    "0 < r < 1, s > 0); smoothing < 1 as the docstring requires.",
    "The asymptotic tail slopes 2*lambda/(1-chi^2) listed in DESIGN are NOT asserted: the property text "
    "does not state them and with smoothing up to 0.9 they hold only approximately.",
    "Rescale-vs-rebuild is compared to 16 eps relative instead of bitwise so that an implementation that "
    "rescales cached arrays multiplicatively would still pass.",
    "Monotonicity is sampled (about 1300 probes with |x| <= 1 - 2^-20, + nodes), not proved. Closer to the "
    "ends the three-scale map loses all precision (observed inf/nan for 1-|chi| <= 2^-40 with r = 0.05, "
    "s = 0.01); this is not asserted because no grid with M <= 10^3 has a node there.",
    "A pair of probes must be strictly increasing only if the expected increment (finite-difference slope x "
    "spacing) exceeds the measured rounding noise of the map; a decrease beyond the noise always fails.",
    "Windows for p_par are clipped at rho = -1 (a grid node, the physical boundary p_par = 0).",
]


# ---------------------------------------------------------------------------
# construction / steps (shared by replay, @given and the state machine)
# ---------------------------------------------------------------------------
def build(params):
    from WallGo.grid import Grid
    from WallGo.grid3Scales import Grid3Scales

    if params["gk"] == "Grid":
        return Grid(params["M"], params["N"], params["L"], params["T"], params["spacing"])
    return Grid3Scales(params["M"], params["N"], params["tailIn"], params["tailOut"], params["L"],
                       params["T"], params["r"], params["s"], params["center"], params["spacing"])


class State:
    def __init__(self, init):
        self.params = dict(init)
        self.grid = build(self.params)
        self.nresc = 0
        self.rejected = 0
        self.dead = False
        self.failed = set()

    def apply(self, step):
        g = self.grid
        if step["op"] == "mom":
            g.changeMomentumFalloffScale(step["T"])
            self.params["T"] = step["T"]
        elif step["op"] == "pos":
            if self.params["gk"] == "Grid":
                g.changePositionFalloffScale(step["L"])
                self.params["L"] = step["L"]
            else:
                g.changePositionFalloffScale(step["tailIn"], step["tailOut"], step["L"], step["center"])
                for k in ("tailIn", "tailOut", "L", "center"):
                    self.params[k] = step[k]
        elif step["op"] == "pos_bad":
            # an INADMISSIBLE rescale request (a tail shorter than the documented minimum, or a non-positive wall
            # thickness): Grid3Scales refuses it with an AssertionError.  A refused call is part of "every sequence
            # of rescaling calls": afterwards the object must still be the grid of the last ACCEPTED scales, which
            # check_state verifies against a rebuild from self.params (left untouched here).
            try:
                g.changePositionFalloffScale(step["tailIn"], step["tailOut"], step["L"], step["center"])
            except AssertionError:
                self.rejected += 1
                return
            # accepted after all (the precondition is not ours to demand): nothing further is known about the state
            self.dead = True
            return
        else:
            raise ValueError(step["op"])
        self.nresc += 1


# ---------------------------------------------------------------------------
# probes and finite differences
# ---------------------------------------------------------------------------
def smoothing_width(L, r, s, tail):
    """a such that the smoothed step (2 tail - L/r)(1 - r/sqrt(a^2+r^2))/2 equals s L/r at the origin
    (re-derived from the class docstring, independent of WallGo's formula)."""
    A = 2.0 * tail - L / r
    q = 1.0 - 2.0 * s * L / (r * A)
    return r * np.sqrt(max(1.0 / (q * q) - 1.0, 0.0))


def probes(params):
    u = np.linspace(-1.0, 1.0, 1201)[1:-1]
    k = np.arange(1, EDGE_BITS + 1)
    edge = 1.0 - 2.0 ** (-k.astype(float))
    pts = [u, edge, -edge, np.array([0.0])]
    if params["gk"] == "Grid3Scales":
        r = params["r"]
        for c, tail in ((r, params["tailOut"]), (-r, params["tailIn"])):
            a = smoothing_width(params["L"], r, params["s"], tail)
            t = np.concatenate([2.0 ** (-np.arange(0, 11.0)), [0.0]])
            w = max(min(a, 0.5), 1e-6) * 4
            pts += [c + w * t, c - w * t]
    x = np.unique(np.concatenate(pts))
    x = x[np.abs(x) <= 1.0 - 2.0 ** (-EDGE_BITS)]
    keep = np.concatenate([[True], np.diff(x) > 1e-9])  # near-coincident probes carry no information
    return x[keep]


def length_scale(params, direction, x):
    ell = 1.0 - np.abs(x)
    if direction == "z" and params["gk"] == "Grid3Scales":
        r = params["r"]
        aO = smoothing_width(params["L"], r, params["s"], params["tailOut"])
        aI = smoothing_width(params["L"], r, params["s"], params["tailIn"])
        ell = np.minimum(ell, np.sqrt(aO ** 2 + (x - r) ** 2))
        ell = np.minimum(ell, np.sqrt(aI ** 2 + (x + r) ** 2))
    return ell


def map_scale(params, direction, x, val):
    """Magnitude S of the terms whose sum is the map value (for the rounding estimate)."""
    with np.errstate(all="ignore"):
        at = 1.0 + np.abs(np.arctanh(np.clip(x, -1 + 1e-16, 1 - 1e-16)))
    if direction == "z":
        if params["gk"] == "Grid":
            return np.abs(val) + params["L"]
        return (np.abs(val) + abs(params["center"])
                + 4.0 * (params["tailIn"] + params["tailOut"] + params["L"] / params["r"]) * at)
    return np.abs(val) + params["T"] * at


_GL = {n: np.polynomial.legendre.leggauss(n) for n in (12, 20)}


def window_integral(jac, lo, hi, n):
    """Gauss-Legendre integral of the reported Jacobian over [lo, hi] (arrays)."""
    t, w = _GL[n]
    mid, half = 0.5 * (hi + lo), 0.5 * (hi - lo)
    pts = mid[:, None] + half[:, None] * t[None, :]
    with np.errstate(all="ignore"):
        val = np.asarray(jac(pts.ravel()), dtype=float).reshape(pts.shape)
    return half * (val @ w)


_NK = 14
_NT = 2.0 * np.mod((np.arange(_NK) + 1.0) * 0.6180339887498949, 1.0) - 1.0   # golden-ratio offsets in (-1,1)
_NA = np.vander(_NT, 4)
_NP = np.eye(_NK) - _NA @ np.linalg.pinv(_NA)                                 # residual projector of a cubic fit


def map_noise(f, x, delta, lower=None):
    """Empirical rounding noise of the map near x: the map is sampled at 14 irregular (non-dyadic, so
    that periodic rounding patterns are not aliased away) offsets within +-delta, delta <= l/256, a
    cubic is fitted and the largest residual is returned (x4).  The smooth remainder of the map
    beyond a cubic is < 1e-10 * l * slope at this width; what is left is rounding, including the
    slowly varying 'staircase' error of cancelling terms."""
    c = x if lower is None else np.maximum(x, lower + delta)
    with np.errstate(all="ignore"):
        F = np.array([f(c + delta * t) for t in _NT])
        res = _NP @ F
    noise = 4.0 * np.max(np.abs(res), axis=0)
    return np.where(np.isfinite(noise), noise, np.inf)


def _rel_equal(a, b, tol):
    a = np.asarray(a, dtype=float)
    b = np.asarray(b, dtype=float)
    if a.shape != b.shape:
        return False, f"shapes {a.shape} vs {b.shape}"
    fin = np.isfinite(a) & np.isfinite(b)
    if not np.array_equal(a[~fin], b[~fin]):
        return False, "non-finite entries differ"
    d = np.abs(a[fin] - b[fin])
    bound = tol * np.maximum(np.abs(a[fin]), np.abs(b[fin]))
    if d.size and np.any(d > bound):
        i = int(np.argmax(d - bound))
        return False, f"{a[fin][i]!r} vs {b[fin][i]!r}"
    return True, ""


def _grid_cls(params):
    return params["gk"]


DIRS = ("z", "pz", "pp")


def _maps(grid, direction, x):
    """decompactify / jacobian of one direction at compact points x (others held at 0)."""
    z = np.zeros_like(x)
    args = [z, z, z]
    i = DIRS.index(direction)
    args[i] = x
    return grid.decompactify(*args)[i], grid.compactificationDerivatives(*args)[i]


def _decomp(grid, direction):
    i = DIRS.index(direction)

    def f(x):
        z = np.zeros_like(x)
        args = [z, z, z]
        args[i] = x
        return np.asarray(grid.decompactify(*args)[i], dtype=float)

    return f


def check_state(st_: State, v: Verdict, tag: str):
    g, p = st_.grid, st_.params
    gk = p["gk"]
    failed = st_.failed
    x = probes(p)

    def fail(sub, cls, msg, **kw):
        failed.add(sub)
        v.fail(sub, cls, f"[{tag}] {msg}", **kw)

    vals, jacs = {}, {}
    for d in DIRS:
        xd = x if d != "pp" else np.concatenate([[-1.0], x])
        with np.errstate(all="ignore"):
            vals[d], jacs[d] = _maps(g, d, xd)
        vals[d] = np.asarray(vals[d], dtype=float)
        jacs[d] = np.asarray(jacs[d], dtype=float)

    # window data of the maps themselves (independent of the reported Jacobian):
    # for every probe x a window [x - l/2, x + l/2], l = distance to the nearest singularity
    fd = {}
    for d in DIRS:
        xd = x if d != "pp" else np.concatenate([[-1.0], x])
        ell = length_scale(p, d, xd)
        lower = None
        if d == "pp":
            ell = 1.0 - xd  # the map is analytic through rho = -1 (p_par = 0); windows are clipped there
            lower = -1.0
        w = 2.0 ** np.floor(np.log2(ell / 2.0))
        lo = xd - w if lower is None else np.maximum(xd - w, lower)
        hi = xd + w
        f = _decomp(g, d)
        with np.errstate(all="ignore"):
            zlo, zhi = f(lo), f(hi)
            noise = np.maximum(map_noise(f, lo, ell / 512.0, lower), map_noise(f, hi, ell / 512.0, lower))
        slope = (zhi - zlo) / (hi - lo)
        # rounding of the map: measured noise, its terms (S) and one ulp of its argument (|x| * slope)
        S = map_scale(p, d, xd, vals[d]) + np.abs(xd) * np.abs(np.where(np.isfinite(slope), slope, 0.0))
        rnd = 2.0 * noise + 2.0 * EPS * S
        fd[d] = (xd, lo, hi, zhi - zlo, slope, rnd)

    # ---- monotone ---------------------------------------------------------------
    if "monotone" not in failed:
        v.checked("monotone")
        for d in DIRS:
            xd, _, _, _, d3, rnd = fd[d]
            dv = np.diff(vals[d])
            pair_noise = 4.0 * (rnd[:-1] + rnd[1:])
            with np.errstate(all="ignore"):
                expect = np.diff(xd) * np.minimum(np.abs(d3[:-1]), np.abs(d3[1:])) * 0.5
            bad = ~np.isfinite(dv) | (dv < -pair_noise) | ((dv <= 0) & (expect > pair_noise))
            if np.any(bad):
                i = int(np.argmax(bad))
                fail("monotone", f"{gk} {d}", f"map not strictly increasing between compact {xd[i]!r} and {xd[i + 1]!r}: "
                     f"{vals[d][i]!r} -> {vals[d][i + 1]!r} (measured rounding noise {pair_noise[i]:.2e})")
                break
        else:
            for name in ("xiValues", "pzValues", "ppValues"):
                arr = np.asarray(getattr(g, name), dtype=float)
                if arr.size > 1 and np.any(np.diff(arr) <= 0):
                    fail("monotone", f"{gk} {name}", f"cached {name} not strictly increasing")
                    break
            if np.any(jacs["z"] <= 0) or np.any(jacs["pz"] <= 0) or np.any(jacs["pp"] <= 0):
                fail("monotone", f"{gk} jacobian-sign", "reported Jacobian not positive on the probes")

    # ---- origin -------------------------------------------------------------------
    if "origin" not in failed:
        v.checked("origin")
        z0 = float(np.asarray(g.decompactify(np.array(0.0), np.array(0.0), np.array(-1.0))[0]))
        pz0 = float(np.asarray(g.decompactify(np.array(0.0), np.array(0.0), np.array(-1.0))[1]))
        pp0 = float(np.asarray(g.decompactify(np.array(0.0), np.array(0.0), np.array(-1.0))[2]))
        if gk == "Grid":
            centre, sc = 0.0, p["L"]
        else:
            centre, sc = p["center"], abs(p["center"]) + p["tailIn"] + p["tailOut"] + p["L"] / p["r"]
        if not abs(z0 - centre) <= 1e-12 * sc:
            fail("origin", gk, f"decompactify(0) = {z0!r}, wall centre = {centre!r}")
        elif pz0 != 0.0 or abs(pp0) > 4 * EPS * p["T"]:
            fail("origin", f"{gk} momentum", f"p_z(0) = {pz0!r}, p_par(-1) = {pp0!r}; both must vanish")

    # ---- jacobian vs finite differences of the map ------------------------------------
    if "jacobian" not in failed:
        v.checked("jacobian")
        worst, nskip, ntot = 0.0, 0, 0
        for d in DIRS:
            xd, lo, hi, dz, slope, rnd = fd[d]
            i_ = DIRS.index(d)

            def jac(pts, i_=i_):
                zz = np.zeros_like(pts)
                args = [zz, zz, zz]
                args[i_] = pts
                return g.compactificationDerivatives(*args)[i_]

            I20 = window_integral(jac, lo, hi, 20)
            I12 = window_integral(jac, lo, hi, 12)
            est = np.abs(I20 - I12) + 2.0 * rnd + 64 * EPS * np.abs(I20)
            tol = TOL_JAC_REL * np.abs(dz) + 10 * est
            ok = np.isfinite(dz) & np.isfinite(I20) & (10 * est <= JAC_SKIP_REL * np.abs(dz))
            ntot += xd.size
            nskip += int(np.sum(~ok))
            err = np.abs(I20 - dz)
            bad = ok & ~(err <= tol)
            if np.any(ok):
                worst = max(worst, float(np.max(err[ok] / tol[ok])))
            if np.any(bad):
                i = int(np.argmax(np.where(bad, err / tol, 0)))
                fail("jacobian", f"{gk} {d}", f"integral of the reported Jacobian over compact [{lo[i]!r}, {hi[i]!r}] is "
                     f"{I20[i]!r} but the map changes by {dz[i]!r} (bound {tol[i]:.2e}); mean reported "
                     f"{I20[i] / (hi[i] - lo[i])!r} vs mean slope of the map {slope[i]!r}")
                break
        v.info["jac_err/bound"] = max(v.info.get("jac_err/bound", 0.0), worst)
        v.info["jac_probes_skipped_frac"] = max(v.info.get("jac_probes_skipped_frac", 0.0), nskip / max(ntot, 1))

    # ---- slope at the centre ----------------------------------------------------------
    if gk == "Grid3Scales" and "slope-centre" not in failed:
        v.checked("slope-centre")
        j0 = float(np.asarray(g.compactificationDerivatives(np.array(0.0), np.array(0.0), np.array(0.0))[0]))
        want = p["L"] / p["r"]
        tol = 32 * EPS * (2 * p["tailIn"] + 2 * p["tailOut"] + 2 * want)
        v.info["slope_err/bound"] = max(v.info.get("slope_err/bound", 0.0), abs(j0 - want) / tol)
        if not abs(j0 - want) <= tol:
            fail("slope-centre", gk, f"dz/dchi(0) = {j0!r}, wallThickness/ratioPointsWall = {want!r}")

    # ---- same point, other input type ---------------------------------------------------------
    # A coordinate given as a Python int, a 0-d / 1-d integer array or a list is the same mathematical point as the
    # float; maps and Jacobians must agree there (compact 0 is the only integer inside (-1, 1); physical
    # coordinates take any integer).
    if "input-type" not in failed:
        v.checked("input-type")
        sc_origin = p["L"] if gk == "Grid" else abs(p["center"]) + p["tailIn"] + p["tailOut"] + p["L"] / p["r"]
        sc_origin += p["T"]
        f0 = np.array(0.0)
        kinds = (("int", (0, 0, 0)), ("0-d int", (np.array(0), np.array(0), np.array(0))),
                 ("int array", (np.zeros(3, dtype=int),) * 3), ("int32 array", (np.zeros(2, dtype=np.int32),) * 3),
                 ("list", ([0.0, 0], [0, 0.0], [0, 0])))
        msg = None
        with np.errstate(all="ignore"):
            for fn in ("decompactify", "compactificationDerivatives"):
                ref = [float(np.asarray(a)) for a in getattr(g, fn)(f0, f0, f0)]
                for nm, args in kinds:
                    try:
                        if nm == "list":
                            args = tuple(np.asarray(a) for a in args)
                        got = getattr(g, fn)(*args)
                    except (TypeError, ValueError, AttributeError) as e:  # not accepted: an outcome, not a value
                        v.label(f"input-type:{fn}:{nm}:refused:{type(e).__name__}")
                        continue
                    for comp, a, b in zip(DIRS, got, ref):
                        a = np.asarray(a, dtype=float).ravel()
                        if a.size == 0 or not np.all(np.abs(a - b) <= 64 * EPS * (abs(b) + sc_origin)):
                            msg = (f"{fn}[{comp}] at compact 0 given as {nm}: {a.tolist()[:3]!r}, given as float: {b!r}")
                            break
                    if msg:
                        break
                if msg:
                    break
            if msg is None:
                # physical coordinates: integer-valued points given with an integer dtype
                scL = max(round(p["L"]), 1)
                scT = max(round(p["T"]), 1)
                zi = np.array([-3, -1, 0, 2, 7], dtype=np.int64) * scL
                pzi = np.array([-2, 0, 1, 5, 40], dtype=np.int64) * scT
                ppi = np.array([0, 1, 3, 10, 90], dtype=np.int64) * scT
                ref = [np.asarray(a, dtype=float) for a in g.compactify(zi.astype(float), pzi.astype(float), ppi.astype(float))]
                got = [np.asarray(a, dtype=float) for a in g.compactify(zi, pzi, ppi)]
                for comp, a, b in zip(DIRS, got, ref):
                    if a.shape != b.shape or not np.all(np.abs(a - b) <= 1e-13):
                        msg = f"compactify[{comp}] of integer-typed physical coordinates {a.tolist()!r} vs float-typed {b.tolist()!r}"
                        break
        if msg:
            fail("input-type", gk, msg)

    # ---- inverse map ---------------------------------------------------------------------
    zeros = np.zeros_like(x)
    xpp = np.concatenate([[-1.0], x])
    for sub_dir, key, cls in (("z", "inverse-map", gk), ("mom", "inverse-map-momentum", f"{gk} momentum")):
        if key in failed:
            continue
        v.checked(key)
        if sub_dir == "z":
            with np.errstate(all="ignore"):
                back = np.asarray(g.compactify(vals["z"], zeros, zeros)[0], dtype=float)
            err = np.abs(back - x)
            # rounding noise of the forward map around x (measured: fd["z"] rnd), converted to chi
            # with the Jacobian: the best any inverse of that map can do
            rnd_z = fd["z"][5]
            with np.errstate(all="ignore"):
                noise_chi = np.where(np.isfinite(rnd_z), rnd_z, 0.0) / np.abs(jacs["z"])
            if not np.all(err <= TOL_INV + 4 * noise_chi):
                i = int(np.argmax(np.where(np.isnan(err), np.inf, err)))
                fail("inverse-map", cls, f"compactify(decompactify(chi)) - chi = {back[i] - x[i]:.3e} at chi = {x[i]!r} "
                     f"(z = {vals['z'][i]!r})", max_err=float(np.nanmax(err)))
                continue
            # physical -> compact -> physical
            with np.errstate(all="ignore"):
                z2 = np.asarray(g.decompactify(back, zeros, zeros)[0], dtype=float)
            tolp = 16 * EPS * (np.abs(jacs["z"]) + np.abs(vals["z"]) + map_scale(p, "z", x, vals["z"]))
            # the forward map is only defined up to its own (measured) rounding noise
            tolp = tolp + 4 * np.where(np.isfinite(rnd_z), rnd_z, 0.0)
            if not np.all(np.abs(z2 - vals["z"]) <= tolp):
                i = int(np.argmax(np.abs(z2 - vals["z"]) / tolp))
                fail("inverse-map", cls, f"decompactify(compactify(z)) = {z2[i]!r} for z = {vals['z'][i]!r}")
        else:
            n = x.size
            with np.errstate(all="ignore"):
                _, bz, bp = g.compactify(np.zeros(n + 1), np.concatenate([[0.0], vals["pz"]]), vals["pp"])
            e1 = np.abs(np.asarray(bz)[1:] - x)
            e2 = np.abs(np.asarray(bp) - xpp)
            if not (np.all(e1 <= TOL_INV) and np.all(e2 <= TOL_INV)):
                fail(key, cls, f"momentum round trip: max errors rho_z {np.nanmax(e1):.3e}, rho_par {np.nanmax(e2):.3e}")

    # ---- cache consistency ----------------------------------------------------------------
    if "cache" not in failed:
        v.checked("cache")
        M, N = p["M"], p["N"]
        if p["spacing"] == "Spectral":
            want = (R.lobatto_nodes(M)[1:-1], R.lobatto_nodes(N)[1:-1], R.lobatto_nodes(N - 1)[:-1] if N > 1 else np.array([-1.0]))
        else:
            want = (-1 + 2.0 * np.arange(1, M) / M, -1 + 2.0 * np.arange(1, N) / N, -1 + 2.0 * np.arange(0, N - 1) / (N - 1))
        have = (g.chiValues, g.rzValues, g.rpValues)
        msg = None
        for nm, a, b in zip(("chiValues", "rzValues", "rpValues"), have, want):
            a = np.asarray(a, dtype=float)
            if a.shape != b.shape or np.any(np.abs(a - b) > 8 * EPS):
                msg = f"{nm} are not the {p['spacing']} nodes"
        if msg is None:
            cz, cr, cp = have
            with np.errstate(all="ignore"):
                phys = g.decompactify(cz, cr, cp)
                der = g.compactificationDerivatives(cz, cr, cp)
            for nm, a, b in zip(("xiValues", "pzValues", "ppValues", "dxidchi", "dpzdrz", "dppdrp"),
                                (g.xiValues, g.pzValues, g.ppValues, g.dxidchi, g.dpzdrz, g.dppdrp),
                                tuple(phys) + tuple(der)):
                ok, why = _rel_equal(a, b, TOL_REBUILD)
                if not ok:
                    msg = f"cached {nm} differs from the map at the compact nodes ({why})"
                    break
        if msg is None:
            c0 = g.getCoordinates(False)
            c1 = g.getCoordinates(True)
            d0 = g.getCompactificationDerivatives(False)
            d1 = g.getCompactificationDerivatives(True)
            k0 = g.getCompactCoordinates(False)
            k1 = g.getCompactCoordinates(True)
            inf = np.inf
            exp_c1 = (np.r_[-inf, g.xiValues, inf], np.r_[-inf, g.pzValues, inf], np.r_[g.ppValues, inf])
            exp_d1 = (np.r_[inf, g.dxidchi, inf], np.r_[inf, g.dpzdrz, inf], np.r_[g.dppdrp, inf])
            exp_k1 = (np.r_[-1.0, g.chiValues, 1.0], np.r_[-1.0, g.rzValues, 1.0], np.r_[g.rpValues, 1.0])
            for nm, got, exp in (("getCoordinates(False)", c0, (g.xiValues, g.pzValues, g.ppValues)),
                                 ("getCoordinates(True)", c1, exp_c1),
                                 ("getCompactificationDerivatives(False)", d0, (g.dxidchi, g.dpzdrz, g.dppdrp)),
                                 ("getCompactificationDerivatives(True)", d1, exp_d1),
                                 ("getCompactCoordinates(False)", k0, have),
                                 ("getCompactCoordinates(True)", k1, exp_k1)):
                if len(got) != 3 or not all(np.array_equal(np.asarray(a, dtype=float), np.asarray(b, dtype=float)) for a, b in zip(got, exp)):
                    msg = f"{nm} is not the cached interior arrays padded with the points at infinity"
                    break
        if msg:
            fail("cache", gk, msg)

    # ---- rescale vs rebuild ----------------------------------------------------------------
    need = [s for s in ("rebuild", "rebuild-inverse") if s not in failed]
    if need:
        g2 = build(p)
        if "rebuild" in need:
            v.checked("rebuild")
            msg = None
            for nm in ("chiValues", "rzValues", "rpValues", "xiValues", "pzValues", "ppValues",
                       "dxidchi", "dpzdrz", "dppdrp"):
                ok, why = _rel_equal(getattr(g, nm), getattr(g2, nm), TOL_REBUILD)
                if not ok:
                    msg = f"cached {nm} of the rescaled grid differs from a new grid with the same parameters ({why})"
                    break
            if msg is None:
                for d in DIRS:
                    xd = x if d != "pp" else xpp
                    with np.errstate(all="ignore"):
                        v2, j2 = _maps(g2, d, xd)
                    for nm, a, b in ((f"decompactify[{d}]", vals[d], v2), (f"compactificationDerivatives[{d}]", jacs[d], j2)):
                        ok, why = _rel_equal(a, b, TOL_REBUILD)
                        if not ok:
                            msg = f"{nm} of the rescaled grid differs from a new grid ({why})"
                            break
                    if msg:
                        break
            if msg:
                fail("rebuild", gk, msg, params=p)
        if "rebuild-inverse" in need:
            v.checked("rebuild-inverse")
            with np.errstate(all="ignore"):
                c1 = g.compactify(vals["z"], vals["pz"], vals["pp"][1:])
                c2 = g2.compactify(vals["z"], vals["pz"], vals["pp"][1:])
            for nm, a, b in zip(DIRS, c1, c2):
                ok, why = _rel_equal(a, b, TOL_REBUILD)
                if not ok:
                    fail("rebuild-inverse", gk if nm == "z" else f"{gk} momentum",
                         f"compactify[{nm}] of the rescaled grid differs from a new grid with the same parameters ({why})")
                    break


def _finish(v: Verdict, init, steps):
    gk = init["gk"]
    v.label(f"grid:{gk}", f"spacing:{init['spacing']}", f"steps:{min(len(steps), 8)}",
            *[f"op:{s['op']}" for s in steps])
    if gk == "Grid3Scales":
        uneq = init["tailIn"] != init["tailOut"]
        v.label("centre:zero" if init["center"] == 0 else "centre:nonzero",
                "tails:unequal" if uneq else "tails:equal",
                "smoothing:>0.5" if init["s"] > 0.5 else "smoothing:<=0.5")
        nt = uneq and init["center"] != 0
    else:
        nt = False
    v.nontrivial = bool(nt or len(steps) >= 2)
    fr = v.info.get("jac_probes_skipped_frac", 0.0)
    v.label("jac_skipped:" + ("0" if fr == 0 else "<1%" if fr < 0.01 else "<10%" if fr < 0.1 else ">=10%"))
    r = v.info.get("jac_err/bound", 0.0)
    v.label("jac_err/bound:" + ("<0.01" if r < 0.01 else "<0.1" if r < 0.1 else "<1" if r <= 1 else ">1"))


def check_case(case) -> Verdict:
    v = Verdict()
    assert case["kind"] == "history"
    state = State(case["init"])
    check_state(state, v, "init")
    for i, step in enumerate(case["steps"]):
        state.apply(step)
        if state.dead:
            v.label("inadmissible-rescale-accepted")
            break
        check_state(state, v, f"after step {i + 1}: {step['op']}")
    if state.rejected:
        v.label("history-with-refused-rescale")
    _finish(v, case["init"], case["steps"])
    return v


# ---------------------------------------------------------------------------
# strategies
# ---------------------------------------------------------------------------
def st_scale():
    return st.floats(-2.0, 2.0, allow_nan=False).map(lambda u: float(10.0 ** u))


@st.composite
def st_tail(draw, L, r, s):
    u = draw(st.floats(-2.0, 2.0, allow_nan=False))
    return float(L * (0.5 + s) / r * (1.0 + 10.0 ** u))


@st.composite
def st_center(draw, L):
    k = draw(st.sampled_from(["zero", "pos", "neg", "pos", "neg"]))
    if k == "zero":
        return 0.0
    return float((1 if k == "pos" else -1) * L * draw(st_scale()))


@st.composite
def st_init(draw):
    gk = draw(st.sampled_from(["Grid", "Grid3Scales", "Grid3Scales"]))
    M = draw(st.integers(2, 40))
    N = draw(st.integers(2, 40))
    spacing = draw(st.sampled_from(["Spectral", "Spectral", "Uniform"]))
    T = draw(st_scale())
    L = draw(st_scale())
    if gk == "Grid":
        return {"gk": gk, "M": M, "N": N, "L": L, "T": T, "spacing": spacing}
    r = draw(st.floats(0.05, 0.95))
    s = draw(st.floats(0.01, 0.9))
    same = draw(st.integers(0, 9)) == 0
    tin = draw(st_tail(L, r, s))
    tout = tin if same else draw(st_tail(L, r, s))
    return {"gk": gk, "M": M, "N": N, "tailIn": tin, "tailOut": tout, "L": L, "T": T, "r": r, "s": s,
            "center": draw(st_center(L)), "spacing": spacing}


@st.composite
def st_bad_step(draw, params):
    """An inadmissible request for a Grid3Scales object (see State.apply)."""
    r, s = params["r"], params["s"]
    L = draw(st_scale())
    kind = draw(st.sampled_from(["tailIn", "tailOut", "L<=0"]))
    step = {"op": "pos_bad", "L": L, "tailIn": draw(st_tail(L, r, s)), "tailOut": draw(st_tail(L, r, s)),
            "center": draw(st_center(L)), "bad": kind}
    if kind == "L<=0":
        step["L"] = draw(st.sampled_from([0.0, -L]))
    else:
        step[kind] = float(L * (0.5 + s) / r * (1.0 - 10.0 ** draw(st.floats(-3.0, -0.01))))
    return step


@st.composite
def st_step(draw, params):
    op = draw(st.sampled_from(["pos", "pos", "mom", "pos", "pos", "mom", "bad"]))
    if op == "bad":
        if params["gk"] == "Grid":
            op = "pos"
        else:
            return draw(st_bad_step(params))
    if op == "mom":
        return {"op": "mom", "T": draw(st_scale())}
    L = draw(st_scale())
    if params["gk"] == "Grid":
        return {"op": "pos", "L": L}
    r, s = params["r"], params["s"]
    return {"op": "pos", "L": L, "tailIn": draw(st_tail(L, r, s)), "tailOut": draw(st_tail(L, r, s)),
            "center": draw(st_center(L))}


@st.composite
def st_history(draw):
    init = draw(st_init())
    n = draw(st.integers(0, 4))
    steps = [draw(st_step(init)) for _ in range(n)]
    return {"kind": "history", "init": init, "steps": steps}


def strategy(tier):
    return st_history()


def machine(tier, acc):
    from hypothesis.stateful import RuleBasedStateMachine, initialize, precondition, rule

    class GridMachine(RuleBasedStateMachine):
        def __init__(self):
            super().__init__()
            self.init = None
            self.steps = []
            self.state = None
            self.verdict = Verdict()
            self.dead = False

        @initialize(init=st_init())
        def start(self, init):
            self.init = init
            self.state = State(init)
            check_state(self.state, self.verdict, "init")

        def _do(self, step):
            self.steps.append(step)
            self.state.apply(step)
            if self.state.dead:
                self.verdict.label("inadmissible-rescale-accepted")
                return
            if step["op"] == "pos_bad":
                self.verdict.label("history-with-refused-rescale")
            check_state(self.state, self.verdict, f"after step {len(self.steps)}: {step['op']}")

        @precondition(lambda self: self.state is not None and not self.state.dead
                      and self.state.params["gk"] == "Grid3Scales")
        @rule(data=st.data())
        def refused_rescale(self, data):
            self._do(data.draw(st_bad_step(self.state.params), label="bad"))

        @precondition(lambda self: self.state is not None and not self.state.dead)
        @rule(data=st.data())
        def rescale_position(self, data):
            p = self.state.params
            L = data.draw(st_scale(), label="L")
            if p["gk"] == "Grid":
                step = {"op": "pos", "L": L}
            else:
                step = {"op": "pos", "L": L,
                        "tailIn": data.draw(st_tail(L, p["r"], p["s"]), label="tailIn"),
                        "tailOut": data.draw(st_tail(L, p["r"], p["s"]), label="tailOut"),
                        "center": data.draw(st_center(L), label="center")}
            self._do(step)

        @precondition(lambda self: self.state is not None and not self.state.dead)
        @rule(T=st_scale())
        def rescale_momentum(self, T):
            self._do({"op": "mom", "T": T})

        def teardown(self):
            if self.init is None:
                return
            case = {"kind": "history", "init": self.init, "steps": list(self.steps)}
            _finish(self.verdict, self.init, self.steps)
            acc.record(case, self.verdict)

    return GridMachine
