"""C02 - energy and momentum flux are conserved across the wall.

Sub-oracles (all tolerances are the solver's own (rtol, atol) times K = 10, DESIGN 2.4.1)
  finite         the returned tuple consists of finite numbers (a tuple with v = 0 or T = 0, the limiting
                 solution exactly at the template model's v_min, is labelled degenerate and skipped:
                 admissibility is C06's subject)
  flux           backward error of the junction conditions evaluated with the EOS object's own p, w:
                   deflagration/hybrid: an exact solution of the two flux equations exists with
                     |dT+-| <= K (atol + rtol T+-) and |dv+| <= K (atol + rtol v+) of the returned numbers
                     (Newton correction with v- fixed; v+ is allowed to move inside its own tolerance
                     because the solver's outer root is in v+ and the 2x2 system in (T+,T-) alone has
                     condition number ~ 1/alpha for weak transitions)
                   detonation: the energy-flux residual, as a function of T- with v- eliminated by the
                     momentum equation, changes sign inside T-(1 +- K rtol) +- K atol, and the returned
                     v- lies in the image of that window under the junction relation
  c-plus         findHydroBoundaries: c1 = -w+ g+^2 v+, c2 = p+ + w+ g+^2 v+^2 from the same matching
                 (relative 1e-12 of the enthalpy scale), T+/T- identical to findMatching
  c-minus        the same constants formed on the minus side agree within the forward image of the
                 backward-error box
  vmid           velocityMid = -(v+ + v-)/2
  exact          whenever the independent reference matcher (vlib.refhydro) finds a matching for this
                 (EOS, Tn, vw) on the branch WallGo used, the returned tuple agrees with it within the
                 propagated solver tolerances (slopes measured by the reference)
  tol-honoured   (only for the tightened setting (1e-9, 1e-12)) a `flux` or `exact` failure that would pass with
                 the default setting (1e-6, 1e-10) is reported under this name instead: the result is a
                 solution to default accuracy, but tightening the tolerance did not tighten it
Both WallGo.Hydrodynamics (all EOS families) and WallGo.HydrodynamicsTemplateModel (template-form EOS)
are checked.
"""
from __future__ import annotations

import math
import os

from hypothesis import strategies as st

from vlib import refhydro as R
from vlib import zoo_eos as Z
from vlib.core import Verdict

PROPERTY_ID = "C02"
ENGINE = "hypothesis @given over (EOS zoo x Tn x tolerances x velocity class); independent reference matcher"
RULE = (
    "Case = EOS spec (bag / template / two-step polynomial / closed-form cubic potential / numerically "
    "traced cubic potential; Tn over five decades) x solver tolerances {(1e-6,1e-10),(1e-9,1e-12)} x "
    "solver {Hydrodynamics, HydrodynamicsTemplateModel} x wall velocity drawn from classes with explicit "
    "mass at v_min, v_min+1e-3.., c_b +- 1e-6..1e-3, v_J - 1e-6..1e-2, v_J + 1e-4..1e-2, 0.99 and the "
    "interiors of the three branches. Non-trivial = a matching was returned (not None / WallGoError) "
    "and could be assigned to a branch; distinct by canonical JSON of the case "
    "(EOS parameters, Tn, velocity class and position, tolerances, solver)."
)
BUDGET = {
    "quick": {"cases": 2000, "shrink": True, "time_cap_s": 900},
    "thorough": {"cases": 60000, "shrink": True, "time_cap_s": 3300},
}
K = 10.0
DEFAULT_TOL = (1e-6, 1e-10)
TOLERANCES = {
    "K": K,
    "backward_error_T": "K*(atol + rtol*T) with the (rtol, atol) given to the solver",
    "c_plus_rel": "1e-12 relative to |c1| resp. w+(1+g^2 v^2)+|p+| (p+ can be a cancelling difference of O(w) terms)",
    "vmid_abs": 1e-15,
    "exact": "dvp <= K*(atol+rtol*vp) + K*rtol*Tn/|dTn'/dvp|; dT+- <= |dT+-/dvp|*dvp + K*(atol+rtol*T) along the "
             "reference family of exact junctions; slopes by the reference's finite differences",
    "ode_error_allowance": "K*rtol relative on the shock-front temperature (measured: max ratio in info.exact_ratio)",
}
ASSUMPTIONS = [
    "The EOS object's p/dp/ddp/csq are the model's equation of state; w = T p', e = T p' - p are formed by the harness.",
    "Branch labels follow the returned tuple (v+ == vw: detonation; v- == vw: deflagration; else hybrid); "
    "admissibility and correct classification are C06's subject.",
    "WallGoError / a tuple of None from the matching is an outcome (counted), not a violation.",
    "Velocities are placed relative to the solver's own vMin, c_b(Tn), vJ; vw = vMin exactly is included because "
    "EOM uses hydrodynamics.vMin as the lower end of its velocity bracket.",
    "When the reference matcher fails (no bracket, integration failure) the case is a discard for the 'exact' "
    "sub-oracle; the other sub-oracles are still evaluated.",
]
EXHAUSTIVE_SUBDOMAINS = []

VCLASSES = ["vmin", "vmin+", "defl", "defl", "cb-", "cb+", "hyb", "hyb", "vJ-", "vJ-", "vJ+", "det", "det", "v099"]
FAMILY_WEIGHTS = {"quick": {"bag": 6, "template": 8, "twostep": 8, "cubic": 6, "traced": 1},
                  "thorough": {"bag": 3, "template": 4, "twostep": 4, "cubic": 3, "traced": 2}}


# ---------------------------------------------------------------------------------------------
# strategy
# ---------------------------------------------------------------------------------------------
@st.composite
def st_case(draw, tier):
    spec = draw(Z.st_eos(families=Z.FAMILIES, weights=FAMILY_WEIGHTS[tier], twostep_variants=("plain", "plain", "strongT")))
    tol = draw(Z.st_tolerances())
    if spec["family"] == "traced" and tier == "quick":
        tol = [1e-6, 1e-10]  # a traced EOS costs ~1 s to build and ~3 s per matching at 1e-9: thorough tier only
    vclass = draw(st.sampled_from(VCLASSES))
    u = draw(st.floats(0.0, 1.0))
    solver = "general"
    if spec["family"] in ("bag", "template") and draw(st.integers(0, 3)) == 0:
        solver = "template"
    case = {"kind": "matching", "eos": spec, "tol": tol, "solver": solver, "vclass": vclass, "u": u}
    if draw(st.integers(0, 3)) == 0:
        case["decoy"] = {"alN": round(10.0 ** draw(st.floats(-2.0, -0.5)), 4), "psiN": round(draw(st.floats(0.6, 0.95)), 3)}
    return case


def strategy(tier):
    return st_case(tier)


velocity = Z.velocity


# ---------------------------------------------------------------------------------------------
# helpers
# ---------------------------------------------------------------------------------------------
def _is_num(x):
    try:
        return x is not None and math.isfinite(float(x))
    except (TypeError, ValueError):
        return False


branch_of = Z.branch_of


def box(T, rtol, atol):
    return K * (atol + rtol * abs(T))


def check_detonation_flux(v, cls, eos, Tn, vw, vp, vm, Tp, Tm, rtol, atol):
    """Sign change of the energy-flux residual in T- (v- from the momentum equation) inside the
    solver's tolerance window; v- consistent with the junction relation on that window."""
    psn, wsn = eos.ps(Tn), eos.ws(Tn)
    Fn = wsn * R.g2(vw) * vw

    def vm_mom(T):
        return vw + (psn - eos.pb(T)) / Fn

    def g(T):
        x = vm_mom(T)
        if not 0.0 < x < 1.0:
            return float("nan")
        return (eos.wb(T) * R.g2(x) * x - Fn) / Fn

    def h(T):  # v- from v+ v- = dp/de and v+/v- = (e_b + p_s)/(e_s + p_b)
        esn = wsn - psn
        pb, eb = eos.pb(T), eos.eb(T)
        a = (psn - pb) / (esn - eb)
        b = (eb + psn) / (esn + pb)
        return math.sqrt(a / b) if a / b > 0 else float("nan")

    w = box(Tm, rtol, atol)
    lo, hi = Tm - w, Tm + w
    glo, ghi, gm = g(lo), g(hi), g(Tm)
    v.info["deton_g"] = [glo, gm, ghi]
    if Tp != Tn or vp != vw:
        v.fail("flux", cls, f"detonation must have T+ = Tn and v+ = vw, got T+/Tn-1={Tp / Tn - 1:.3e}, v+-vw={vp - vw:.3e}")
        return
    if not (math.isfinite(glo) and math.isfinite(ghi)):
        v.fail("flux", cls, f"junction relation has no v- in (0,1) around the returned T-={Tm:.6g} (vw={vw:.6g})")
        return
    # near the Jouguet point g has a double root: its maximum inside the window also certifies a root
    # (exactly at the Jouguet velocity the double root makes g <= 0 everywhere up to rounding: a residual of
    # a few ulp of the flux is a root)
    ok = (glo * ghi <= 0 or (max(glo, ghi, gm) >= 0 >= min(glo, ghi, gm))
          or min(abs(glo), abs(gm), abs(ghi)) <= 64 * 2.0 ** -52)
    if not ok:
        v.fail("flux", cls,
               f"energy flux does not balance for any T- within K(atol+rtol T) of the returned one: "
               f"residual/flux = {glo:.3e} .. {gm:.3e} .. {ghi:.3e} (vw={vw:.6g}, T-={Tm:.8g}, window {w:.2e})",
               vw=vw, Tm=Tm, residuals=[glo, gm, ghi])
        return
    # v- : distance to the image of the window under the momentum relation, allowed = variation of h
    vlo, vhi = sorted((vm_mom(lo), vm_mom(hi)))
    dist = max(vlo - vm, vm - vhi, 0.0)
    hl, hh, hm = h(lo), h(hi), h(Tm)
    allow = 1.5 * max(abs(hl - hm), abs(hh - hm)) + 1e-13 if all(map(math.isfinite, (hl, hh, hm))) else 1e-13
    v.info["deton_vm_dist_over_allow"] = dist / allow
    if dist > allow:
        v.fail("flux", cls,
               f"returned v-={vm:.10g} is not the junction value for any T- in the tolerance window "
               f"([{vlo:.10g},{vhi:.10g}], slack {allow:.2e})", vw=vw, vm=vm)


def _check_case(case) -> Verdict:
    import numpy as np
    from WallGo import WallGoError

    v = Verdict()
    spec = case["eos"]
    rtol, atol = (float(x) for x in case["tol"])
    solver = case["solver"]
    fam = spec["family"]
    v.label(f"family:{fam}", f"solver:{solver}", f"tol:{rtol:g}", f"vclass:{case['vclass']}")
    if fam == "twostep":
        v.label("twostep:" + ("strongT" if spec.get("strongT") else "steepT" if spec.get("steepT") else "plain"))
    try:
        th, meta = Z.build(spec)
    except Z.ZooError as exc:
        if fam != "traced":
            raise
        # a numerically traced phase that does not satisfy the quantifier (positive sound speeds)
        v.label("zoo:traced-unhealthy")
        v.info["zoo_error"] = str(exc)[:200]
        return v.discarded("zoo:traced-unhealthy")
    Tn = meta["Tn"]
    eos = R.Eos(th, meta["T_valid"][0])
    v.label("alpha>1/3" if meta["alN"] > 1.0 / 3.0 else "alpha<1/3")

    # ---- solver object and landmarks -------------------------------------------------------
    fallback = {"n": 0}
    try:
        if solver == "general":
            hyd = Z.build_hydro(th, rtol, atol)
            vmin, cb, vJ = hyd.vMin, math.sqrt(float(th.csqLowT(Tn))), hyd.vJ
            orig = hyd.template.findMatching

            def counted(vwT, _orig=orig):
                fallback["n"] += 1
                return _orig(vwT)

            hyd.template.findMatching = counted
        else:
            hyd = Z.build_template(th, rtol, atol)
            vmin, cb, vJ = hyd.vMin, hyd.cb, hyd.vJ
    except WallGoError as exc:
        v.label("outcome:init-WallGoError")
        v.info["init_error"] = str(exc)[:200]
        return v
    vw = velocity(case["vclass"], case["u"], vmin, cb, vJ)
    v.info.update(vw=vw, vMin=vmin, cb=cb, vJ=vJ, alN=meta["alN"], psiN=meta["psiN"])
    base_cls = f"{solver}/{fam}"

    # ---- another object for another EOS, same Tn and vw, used first (as in a parameter scan) --------
    if case.get("decoy") and solver == "general":
        v.label("decoy-object-first")
        try:
            th2, _ = Z.build({"family": "template", "Tn": Tn, "alN": float(case["decoy"]["alN"]),
                              "psiN": float(case["decoy"]["psiN"]), "cs2": 0.26, "cb2": 0.23, "g": 1.0})
            h2 = Z.build_hydro(th2, rtol, atol)
            h2.findMatching(vw)
            h2.findHydroBoundaries(vw)
        except Exception:  # noqa: BLE001  (the decoy's own outcome is irrelevant)
            pass

    # ---- the matching ------------------------------------------------------------------------
    try:
        res = hyd.findMatching(vw)
    except WallGoError as exc:
        v.label("outcome:WallGoError")
        v.info["error"] = str(exc)[:200]
        return v
    if any(x is None for x in res):
        v.label("outcome:none")
        return v
    if not all(_is_num(x) for x in res):
        v.fail("finite", f"{base_cls}/{case['vclass']}", f"non-finite matching {res!r} at vw={vw:.6g}")
        return v
    vp, vm, Tp, Tm = (float(x) for x in res)
    branch = branch_of(vw, vp, vm)
    took_fallback = fallback["n"] > 0
    v.label(f"branch:{branch}", "outcome:matching")
    if took_fallback:
        v.label("template-fallback-taken")
    if solver == "general" and branch != "detonation" and not hyd.success:
        v.label("hybr-unconverged-flag")
    vbucket = Z.speed_bucket(vw)
    v.label(f"speed:{vbucket}")
    at_vmin, at_vj = vw == max(vmin, 1e-3), vw == vJ
    if at_vmin:
        v.label("vw==vMin")
    if at_vj:
        v.label("vw==vJ")
    # (the 2x2 solve's acceptance test is in units of v^2: besides slow walls, strong transitions just
    #  above vMin have v+ << vw)
    slow_vp = vbucket == "vw>=0.1" and branch != "detonation" and vp < 0.03
    if slow_vp:
        v.label("slow-v+")
    cls = (f"{base_cls}/{branch}/{vbucket}" + ("/slow-v+" if slow_vp else "")
           + ("/at-vMin" if at_vmin else "") + ("/at-vJ" if at_vj else "")
           + ("/fallback" if took_fallback else "")
           + ("/unconverged-flag" if (solver == "general" and branch != "detonation" and not hyd.success) else ""))
    v.info["matching"] = [vp, vm, Tp, Tm]
    v.checked("finite")
    if not (0.0 < vp < 1.0 and 0.0 < vm < 1.0 and Tp > 0.0 and Tm > 0.0):
        # admissibility is C06's subject; fluxes cannot be formed (e.g. the template solver exactly at its
        # vMin returns the limiting solution v+ = 0, T- = 0)
        v.label("outcome:degenerate-matching")
        v.nontrivial = False
        return v
    v.nontrivial = True
    lo_valid, hi_valid = meta["T_valid"]
    if not (lo_valid <= Tm <= hi_valid and lo_valid <= Tp <= hi_valid):
        v.label("T-in-extrapolated-or-unverified-range")

    # ---- flux: backward error -------------------------------------------------------------------
    v.checked("flux")
    r1, r2 = R.wall_residuals(eos, vp, vm, Tp, Tm)
    v.info["flux_residuals"] = [r1, r2]
    bTp, bTm = box(Tp, rtol, atol), box(Tm, rtol, atol)
    flux_failed = False
    if branch == "detonation":
        nviol = len(v.violations)
        check_detonation_flux(v, cls, eos, Tn, vw, vp, vm, Tp, Tm, rtol, atol)
        flux_failed = len(v.violations) > nviol
        if flux_failed and rtol < DEFAULT_TOL[0]:
            v2 = Verdict()
            check_detonation_flux(v2, cls, eos, Tn, vw, vp, vm, Tp, Tm, *DEFAULT_TOL)
            if not v2.violations:
                for viol in v.violations[nviol:]:
                    viol["sub"], viol["cls"] = "tol-honoured", f"{solver}/{branch}/junction"
    else:
        ratio, tshift, (dTp, dTm), cond = R.junction_backward_error(
            eos, vp, vm, Tp, Tm, K * (atol + rtol * vp), bTp, bTm)
        n0 = R.newton_correction(eos, vp, vm, Tp, Tm)
        v.info.update(newton_fixed_v=[n0[0], n0[1]], newton=[dTp, dTm], dvp_over_box=tshift, cond=cond,
                      flux_ratio=ratio)
        if not ratio <= 1.0:
            flux_failed = True
            sub = "flux"
            if rtol < DEFAULT_TOL[0]:
                r_def = R.junction_backward_error(
                    eos, vp, vm, Tp, Tm, K * (DEFAULT_TOL[1] + DEFAULT_TOL[0] * vp),
                    box(Tp, *DEFAULT_TOL), box(Tm, *DEFAULT_TOL))[0]
                v.info["flux_ratio_default_tol"] = r_def
                if r_def <= 1.0:
                    sub = "tol-honoured"
            v.fail(sub, cls if sub == "flux" else f"{solver}/{branch}/junction",
                   f"junction conditions violated: no exact solution inside the tolerance box; nearest needs "
                   f"(dT+, dT-) = ({dTp:.3e}, {dTm:.3e}) with v+ moved to the edge of its box, allowed "
                   f"({bTp:.2e}, {bTm:.2e}) = {ratio:.3g} x; relative flux mismatch energy {r1:.3e}, "
                   f"momentum {r2:.3e} (vw={vw:.6g}, rtol={rtol:g}, hybr flag={getattr(hyd, 'success', None)})",
                   vw=vw, matching=[vp, vm, Tp, Tm], newton=[dTp, dTm], cond=cond)

    # ---- boundary constants -----------------------------------------------------------------------
    hb = hyd.findHydroBoundaries(vw)
    if all(_is_num(x) for x in hb) and not (vw < vmin):
        c1, c2, Tpb, Tmb, vmid = (float(x) for x in hb)
        v.checked("c-plus")
        wp, pp = eos.ws(Tp), eos.ps(Tp)
        c1p, c2p = -wp * R.g2(vp) * vp, pp + wp * R.g2(vp) * vp * vp
        if Tpb != Tp or Tmb != Tm:
            if abs(Tpb - Tp) > 1e-12 * Tp or abs(Tmb - Tm) > 1e-12 * Tm:
                v.fail("c-plus", cls, f"findHydroBoundaries temperatures ({Tpb!r},{Tmb!r}) differ from findMatching ({Tp!r},{Tm!r})")
        sc2 = wp * (1.0 + R.g2(vp) * vp * vp) + abs(pp)  # p may be a small difference of O(w) terms
        if abs(c1 - c1p) > 1e-12 * abs(c1p) or abs(c2 - c2p) > 1e-12 * sc2:
            v.fail("c-plus", cls,
                   f"c1,c2 = ({c1:.12g},{c2:.12g}) but -w+g+^2v+ = {c1p:.12g}, p+ + w+g+^2v+^2 = {c2p:.12g} (vw={vw:.6g})",
                   c=[c1, c2], expected=[c1p, c2p])
        v.checked("vmid")
        if abs(vmid + 0.5 * (vp + vm)) > 1e-15:
            v.fail("vmid", cls, f"velocityMid={vmid!r}, expected {-0.5 * (vp + vm)!r}")
        # minus side, forward image of the backward-error box (a consequence of `flux`: skipped if that failed)
        if flux_failed:
            return v
        v.checked("c-minus")
        wm, pm = eos.wb(Tm), eos.pb(Tm)
        c1m, c2m = -wm * R.g2(vm) * vm, pm + wm * R.g2(vm) * vm * vm
        if branch == "detonation":
            def fl(T):
                esn, psn = eos.es(Tn), eos.ps(Tn)
                pb, eb = eos.pb(T), eos.eb(T)
                a, b = (psn - pb) / (esn - eb), (eb + psn) / (esn + pb)
                x = math.sqrt(a / b) if a / b > 0 else float("nan")
                wb = eos.wb(T)
                return -wb * R.g2(x) * x, pb + wb * R.g2(x) * x * x
            f0, fa, fb = fl(Tm), fl(Tm - bTm), fl(Tm + bTm)
            b1 = 2.0 * max(abs(fa[0] - f0[0]), abs(fb[0] - f0[0]))
            b2 = 2.0 * max(abs(fa[1] - f0[1]), abs(fb[1] - f0[1]))
        else:
            gp, gm = R.g2(vp) * vp, R.g2(vm) * vm
            b1 = abs(eos.dws(Tp) * gp) * bTp + abs(eos.dwb(Tm) * gm) * bTm
            b2 = abs(eos.dws(Tp) * gp * vp + eos.dps(Tp)) * bTp + abs(eos.dwb(Tm) * gm * vm + eos.dpb(Tm)) * bTm
        b1 += 1e-12 * abs(c1p)
        b2 += 1e-12 * sc2
        v.info["cminus_ratio"] = max(abs(c1 - c1m) / b1, abs(c2 - c2m) / b2) if b1 > 0 and b2 > 0 else None
        if not (abs(c1 - c1m) <= b1 and abs(c2 - c2m) <= b2):
            v.fail("c-minus", cls,
                   f"boundary constants differ between the two sides of the wall: c1 {c1:.10g} vs {c1m:.10g} "
                   f"(allowed {b1:.2e}), c2 {c2:.10g} vs {c2m:.10g} (allowed {b2:.2e}) at vw={vw:.6g}",
                   plus=[c1, c2], minus=[c1m, c2m], allowed=[b1, b2])
    else:
        v.label("boundaries:none-or-zero")

    # ---- exact rather than approximate: independent reference matcher --------------------------
    if flux_failed:
        return v
    try:
        if branch == "detonation":
            ref = R.detonation(eos, Tn, vw)
        else:
            ref = R.match_deflag(eos, Tn, vw, hint_vp=vp)
    except R.RefFailure as exc:
        ref = None
        why = str(exc)
    if ref is None or not ref.ok:
        why = why if ref is None else ref.reason
        v.label(f"ref:{why}")
        if why in R.NO_SOLUTION_REASONS:
            # the reference says there is no exact matching of this type: nothing to compare with;
            # the flux oracle above has already judged the returned tuple
            v.label("ref-says-no-solution")
        else:
            v.discarded(f"reference:{why.split(':')[0]}")
        return v
    v.checked("exact")
    v.label(f"ref-kind:{ref.kind}")
    rvp, rvm, rTp, rTm = ref.tuple()
    if branch == "detonation":
        allow_Tm = box(rTm, rtol, atol)
        # v-: image of the T- window (slope of the junction relation measured on the reference)
        dv = 0.0
        try:
            esn, psn = eos.es(Tn), eos.ps(Tn)

            def hh(T):
                pb, eb = eos.pb(T), eos.eb(T)
                return math.sqrt(((psn - pb) / (esn - eb)) / ((eb + psn) / (esn + pb)))
            dv = max(abs(hh(rTm + allow_Tm) - hh(rTm)), abs(hh(rTm - allow_Tm) - hh(rTm)))
        except (ValueError, ZeroDivisionError):
            dv = float("inf")
        allow = {"vp": 0.0, "vm": 1.5 * dv + 1e-13, "Tp": 0.0, "Tm": allow_Tm}
    else:
        if ref.dTn_dvp is None or not abs(ref.dTn_dvp) > 0:
            v.label("ref:no-slopes")
            v.discarded("reference:no-slopes")
            return v
        dvp_allow = K * (atol + rtol * rvp) + K * rtol * Tn / abs(ref.dTn_dvp)
        allow = {"vp": dvp_allow + 1e-14,
                 "Tp": abs(ref.dTp_dvp) * dvp_allow + box(rTp, rtol, atol),
                 "Tm": abs(ref.dTm_dvp) * dvp_allow + box(rTm, rtol, atol)}
        if branch == "deflagration":
            allow["vm"] = 0.0
        else:  # v- = c_b(T-): image of the T- allowance
            c0 = math.sqrt(eos.cb2(rTm))
            allow["vm"] = 1.5 * max(abs(math.sqrt(eos.cb2(rTm + allow["Tm"])) - c0),
                                    abs(math.sqrt(eos.cb2(max(rTm - allow["Tm"], 1e-300))) - c0)) + 1e-13
    got = {"vp": vp, "vm": vm, "Tp": Tp, "Tm": Tm}
    want = {"vp": rvp, "vm": rvm, "Tp": rTp, "Tm": rTm}
    ratios = {k: (abs(got[k] - want[k]) / allow[k] if allow[k] > 0 else (0.0 if got[k] == want[k] else float("inf")))
              for k in got}
    v.info["exact_ratio"] = max(ratios.values())
    v.info["exact_rel_diff"] = max(abs(got[k] / want[k] - 1.0) for k in got)
    if ref.kind != branch:
        v.label(f"branch-mismatch:{branch}->{ref.kind}")
    bad = [k for k, r in ratios.items() if not r <= 1.0]
    if bad and ref.kind == branch and branch != "detonation":
        # Exact matchings need not be unique (e.g. a sound speed frozen beyond the tabulated range gives a
        # second hybrid).  The returned tuple is accepted if it is itself an exact matching to backward
        # error: junction (checked above), v- on its branch condition, and the reference flow started from
        # the returned (v+, T+) reaching Tn.
        try:
            sh_own = R.integrate_shock(eos, vw, vp, Tp, want_kappa=False)
            b_own, _ = R.shock_backward_bound(eos, Tn, vw, vp, vm, Tp, Tm, branch, rtol, atol, K)
            vm_ok = (vm == vw) if branch == "deflagration" else abs(vm - math.sqrt(eos.cb2(Tm))) <= 1e-9
            if sh_own.ok and sh_own.kind != "front-at-wall" and abs(sh_own.Tn_out - Tn) <= b_own and vm_ok:
                v.label("second-exact-solution")
                v.info["second_solution"] = {"returned": [vp, vm, Tp, Tm], "reference": [rvp, rvm, rTp, rTm]}
                bad = []
        except R.RefFailure:
            pass
    if bad and ref.kind == branch:
        k0 = max(bad, key=lambda k: ratios[k])
        sub = "exact"
        if rtol < DEFAULT_TOL[0]:
            scale = DEFAULT_TOL[0] / rtol  # every allowance is (at least) linear in the tolerances
            if all(ratios[k] <= scale for k in bad):
                sub = "tol-honoured"
        if sub == "exact" and solver == "general" and branch != "detonation":
            # classification only: does the returned point satisfy the solver's OWN shock condition?
            # (brentq converging onto a discontinuity of the shooting function leaves it non-zero)
            try:
                own = float(hyd.solveHydroShock(vw, vp, Tp)) - Tn
                v.info["own_shock_residual_rel"] = own / Tn
                if abs(own) > 20.0 * (atol + rtol * Tn):
                    cls += "/spurious-root"
                    v.label("spurious-root")
            except (WallGoError, ValueError):
                pass
        v.fail(sub, cls if sub == "exact" else f"{solver}/{branch}/root",
               f"an exact matching exists for vw={vw:.8g} but the returned one is not it: "
               + ", ".join(f"{k}={got[k]:.10g} (exact {want[k]:.10g}, allowed +-{allow[k]:.2e})" for k in bad)
               + f"; worst {k0}: {ratios[k0]:.3g} x allowed",
               vw=vw, returned=[vp, vm, Tp, Tm], reference=[rvp, rvm, rTp, rTm], allowed=allow)
    return v


WATCHDOG_S = int(os.environ.get("VERIF_WATCHDOG_S", "120"))  # per-case wall-clock guard: a solver that does not return is reported as a discard, never a violation


class _CaseTimeout(Exception):
    pass


def _with_watchdog(fun, case):
    """Run fun(case) under a SIGALRM guard (main thread only; no-op elsewhere)."""
    import signal
    import threading

    if threading.current_thread() is not threading.main_thread() or not hasattr(signal, "SIGALRM"):
        return fun(case)

    def handler(signum, frame):
        raise _CaseTimeout()

    old = signal.signal(signal.SIGALRM, handler)
    signal.alarm(WATCHDOG_S)
    try:
        return fun(case)
    except _CaseTimeout:
        v = Verdict()
        v.label("watchdog-timeout")
        v.info["watchdog_s"] = WATCHDOG_S
        dump = os.environ.get("VERIF_WATCHDOG_DUMP")  # debugging aid: keep the case that did not return
        if dump:
            import json

            from vlib.core import case_hash, jsonable
            os.makedirs(dump, exist_ok=True)
            with open(os.path.join(dump, f"{PROPERTY_ID}_{case_hash(case)}.json"), "w") as fh:
                json.dump(jsonable(case), fh, indent=1, sort_keys=True)
        return v.discarded("watchdog-timeout")
    finally:
        signal.alarm(0)
        signal.signal(signal.SIGALRM, old)


def check_case(case) -> Verdict:
    return _with_watchdog(_check_case, case)
