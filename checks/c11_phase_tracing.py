"""C11 - a traced phase is one genuine minimum, tabulated only where it exists.

Two kinds of cases
  trace   one FreeEnergy of a zoo potential (Cubic1: both phases end in true spinodals T0 / T1;
          Z2x2: instability() tells 'true' ends from second-order 'merge' ends), traced with generated
          start temperature, requested range, dT, rTol, paranoid, first step, in units {1e-2, 1, 1e2}.
  tc      a Thermodynamics with both phases traced over a generated common range, then
          findCriticalTemperature.

Sub-oracles (trace)
  node-branch     every tabulated point lies on the closed-form branch of the starting point (not on
                  the other phase): coarse test, half the distance to the other phase
  node-exists     no tabulated abscissa lies beyond a TRUE end of the phase by more than the backward
                  window K*rTol*T
  node-position   |phi_k - phi_exact(T_k)| <= K*rTol*M*cond_k  (cond_k = lambda_max(path)/lambda_min(k),
                  closed-form Hessians; skipped where K*rTol*cond_k > COND_CAP = ill-conditioned node)
  node-gradient   |grad V_exact(phi_k, T_k)| <= K*rTol*lambda_max(path)*M (backward error, all nodes)
  node-hessian    closed-form Hessian at the tabulated point is positive definite (>= -FD noise bound)
  node-veff       tabulated V = V(tabulated fields, T_k) to rounding
  interp          50 interpolated temperatures >= 5 dT from the table ends: fields and V agree with the
                  exact minimum within nodal tolerance + 5 x error of the ideal spline (exact data on the
                  observed abscissae)
  end-reach       phase exists on the requested side with margin: table reaches the requested end,
                  flag False
  end-flag        requested range crosses a TRUE end: flag True (and the table stops: node-exists)
  end-margin      min/maxPossibleTemperature[0] = table end +- 2 dT, flags consistent with the table
  first-step      phaseTracerFirstStep documented "in units of dT": a ValueError from scipy because the
                  value is used as an absolute step is recorded (then the case is re-traced without it)
  trace-assert    'Temperature range negative' is an outcome only if the phase offers < 8 dT inside the request
  fresh-object    a never-traced FreeEnergy has the documented initial state [0, False], [inf, False]
  object-isolation  (multi cases: several FreeEnergy objects traced one after the other in one process - independent
                  benchmark points, or the pair built by WallGo.Thermodynamics) tracing a later object does not
                  change range / flags / table of an earlier one; every object is judged by the single-object oracles
Sub-oracles (tc)
  tc-value        |Tc - Tc_exact| <= K*(xtol + rTol*Tc) + spline error of Delta V / |d Delta V/dT|
  tc-order        low-T phase has the lower free energy just below the returned Tc
"""
from __future__ import annotations

import math

import numpy as np
from hypothesis import strategies as st

from vlib import zoo_potentials as zp
from vlib.core import Verdict

PROPERTY_ID = "C11"
ENGINE = "hypothesis @given over zoo potentials (closed-form branches, ends of phases, Tc)"
RULE = (
    "Generated: family (Cubic1, Z2x2) and couplings, phase, units in {1e-2,1,1e2}, start temperature "
    "anywhere in the closed-form existence interval, requested range (free / crossing the lower, the "
    "upper or both ends of the phase / start within a step of a requested end), dT in 10^[-3,-1] T, "
    "rTol in {1e-4,1e-6,1e-8}, paranoid, first step None or fraction; multi-object histories (2-3 independent "
    "benchmark points, or the Thermodynamics pair with different ranges, in one process); critical-temperature cases. "
    "Non-trivial = requested range crosses at least one TRUE end of the phase, or dT/rTol at an "
    "extreme of its range (dT_rel <= 2e-3 or >= 5e-2, rTol in {1e-4,1e-8}); tc cases: Tc returned. "
    "Distinct by canonical JSON of the case."
)
BUDGET = {
    "quick": {"cases": 800, "shrink": False, "time_cap_s": 400},
    "thorough": {"cases": 6000, "shrink": True, "shrink_cap_s": 120, "time_cap_s": 2400},
}
EPS = 2.0 ** -52
K_TOL = 10.0
COND_CAP = 0.03
FLOOR_C = 4.0
TRACE_TIME_LIMIT_S = 30.0
INSIDE_MARGIN = 0.01
TOLERANCES = {
    "K": K_TOL,
    "backward_window": "beyond a true end: K*rTol*max(T, G/|d gradV/dT|)",
    "gradient_scale_G": "max(lambda_max(path)*M_path, Tstart^3)  (Tstart^3 is the tracer's own normalisation)",
    "node_position": "K*rTol*G/lambda_min(node) (closed-form Hessians)",
    "node_gradient": "K*rTol*G",
    "cond_cap": COND_CAP,
    "resolution_floor": "FLOOR_C*sqrt(2*eps*|V|/lambda_min) in position (FLOOR_C*sqrt(2*eps*|V|*lambda_max) in gradient), "
                        "FLOOR_C=4: a minimum of a function known to relative rounding eps cannot be located better",
    "hessian_noise": "64*eps*|V|/h^2, h = fieldScale*(1e-15)^(1/6) (WallGo's own FD step)",
    "veff_rounding": "32*eps*sum|terms|",
    "interp": "2*nodal + 5*|ideal-spline error| (exact data on observed abscissae)",
    "inside_margin": INSIDE_MARGIN,
    "tc": "K*(xtol + rTol*Tc) + 5*|ideal-spline error of DeltaV|/|d DeltaV/dT|",
}
ASSUMPTIONS = [
    "Closed-form branches of vlib.zoo_potentials are the oracle; 'true' vs 'merge' ends as given by "
    "zoo_potentials.existence_ext(): instability() with two corrections - (1) the Cubic1 symmetric phase at T0 is a "
    "transcritical exchange of stability with phi_-(T) (a minimum continues for T<T0 at phi_-<0), i.e. merge-like, "
    "not a true disappearance as DESIGN assumed; (2) a Z2x2 orthogonal instability is a true end only if "
    "lh*ls < lhs^2/4 (subcritical), otherwise the mixed minimum continues the branch (merge-like).",
    "Only Cubic1/low at T1 (saddle-node) and subcritical Z2x2 orthogonal instabilities are TRUE ends.",
    "The tracer promises rTol relative to max(|phi|,T) per RK45 step; the gradient of V is conserved along "
    "the ODE flow, so position errors are amplified by lambda_max(path)/lambda_min(node): this condition "
    "number (closed form) multiplies the forward tolerance; the gradient residual is the backward test.",
    "A tabulated abscissa beyond a true end by less than K*rTol*T is within the requested tolerance.",
    "At a merge-like end either stopping or continuing on the continuous branch (origin / phi_- / mixed point) is "
    "accepted; whether the tracer stops there is recorded as a label together with the unit factor.",
    "phaseTracerFirstStep is passed as documented (a fraction of dT).",
    "The interpolation table is observed through _interpolationPoints/_interpolationValues (getattr guard); "
    "public accessors are used for interpolated values, ranges and flags.",
]
EXHAUSTIVE_SUBDOMAINS = []

RTOLS = [1e-4, 1e-6, 1e-8]
UNITS = [1e-2, 1.0, 1e2]


# ---------------------------------------------------------------------------
# strategies
# ---------------------------------------------------------------------------
def _r(x, n=10):
    return float(f"{x:.{n}g}")


@st.composite
def st_spec(draw):
    fam = draw(st.sampled_from(["Cubic1", "Z2x2"]))
    spec = draw(zp.st_cubic1() if fam == "Cubic1" else zp.st_z2x2())
    spec = dict(spec)
    spec["units"] = draw(st.sampled_from(UNITS))
    return spec


@st.composite
def st_dtrel(draw, lo=-3.0, hi=-1.0):
    pick = draw(st.sampled_from(["lo", "hi", "mid", "mid", "mid"]))
    if pick == "lo":
        return 10.0 ** lo
    if pick == "hi":
        return 10.0 ** hi
    return _r(10.0 ** draw(st.floats(lo, hi)), 4)


@st.composite
def st_trace_case(draw):
    spec = draw(st_spec())
    which = draw(st.sampled_from(["high", "low"]))
    cf0 = zp.closed(dict(spec, units=1.0))
    ex = cf0.instability(which)
    lo, hi = ex["lo"], ex["hi"]  # numerical ends; kinds are re-derived in check_case
    rTol = draw(st.sampled_from(RTOLS))
    dT_rel = draw(st_dtrel())
    paranoid = draw(st.booleans())
    first = None
    if draw(st.sampled_from([0, 0, 1])):
        first = _r(draw(st.floats(0.05, 1.0)), 3)
    modes = ["free", "free"]
    if lo > 0:
        modes += ["cross_lo", "cross_lo"]
    if math.isfinite(hi):
        modes += ["cross_hi", "cross_hi"]
    if lo > 0 and math.isfinite(hi):
        modes += ["cross_both"]
    modes += ["near_req_end"]
    mode = draw(st.sampled_from(modes))
    nUp = 10.0 ** draw(st.floats(0.6, 2.2))
    nDown = 10.0 ** draw(st.floats(0.6, 2.2))
    x = draw(st.floats(0.05, 0.95))
    y = draw(st.floats(0.02, 0.98))
    w = draw(st.floats(-2.5, -0.1))

    def interior():
        if not math.isfinite(hi):
            return lo * (1.0 + 10.0 ** (w + 0.4))
        if lo == 0:
            return hi * (1.0 - 10.0 ** w)
        return lo + y * (hi - lo)

    Ts = interior()
    if mode == "cross_lo":
        f = min(x * nDown * dT_rel, 0.6)
        nDown = f / (x * dT_rel)
        Tc_ = lo / (1.0 - f)
        if Tc_ < 0.98 * hi:
            Ts = Tc_
        else:
            mode = "free"
    elif mode == "cross_hi":
        f = x * nUp * dT_rel
        Tc_ = hi / (1.0 + f)
        if Tc_ > 1.02 * lo and Tc_ > 0.2 * hi:
            Ts = Tc_
        else:
            mode = "free"
    elif mode == "cross_both":
        Ts = lo + y * (hi - lo)
        dT_rel = max(dT_rel, (hi - lo) / Ts / 200.0)
        nDown = (Ts - lo) / (dT_rel * Ts) * (1.0 + 2.0 * x)
        nUp = (hi - Ts) / (dT_rel * Ts) * (1.0 + 2.0 * (1 - x))
    elif mode == "near_req_end":
        # start within a fraction of a step of one requested end
        if draw(st.booleans()):
            nDown = 10.0 ** draw(st.floats(-1.3, 0.2))
        else:
            nUp = 10.0 ** draw(st.floats(-1.3, 0.2))
    dT = dT_rel * Ts
    # cap cost and relative overshoot
    nUp = min(nUp, 3.0 / dT_rel, 250.0)
    nDown = min(nDown, 0.9 / dT_rel, 250.0)
    TMax = Ts + nUp * dT
    TMin = max(Ts - nDown * dT, 0.05 * Ts)
    return {
        "kind": "trace", "spec": spec, "which": which, "mode": mode,
        "Ts": _r(Ts, 12), "TMin": _r(TMin, 12), "TMax": _r(TMax, 12), "dT": _r(dT, 6),
        "rTol": rTol, "paranoid": paranoid, "first": first,
    }


@st.composite
def st_tc_case(draw):
    spec = draw(st_spec())
    cf0 = zp.closed(dict(spec, units=1.0))
    Tc = cf0.Tc
    Tn = Tc * (1.0 - spec["delta"])
    rTol = draw(st.sampled_from(RTOLS))
    paranoid = draw(st.booleans())
    dT_rel = draw(st_dtrel(-3.0, -1.5))
    up = 10.0 ** draw(st.floats(-2.0, -0.5))
    dn = 10.0 ** draw(st.floats(-2.0, -0.6))
    below = draw(st.sampled_from([0, 0, 0, 0, 0, 0, 0, 1]))
    TMax = Tc * (1.0 + 2.5 * dT_rel + up) if not below else Tn + 0.5 * (Tc - Tn)
    TMin = Tn * (1.0 - dn) - 2.5 * dT_rel * Tc
    dT_rel = max(dT_rel, (TMax - TMin) / Tc / 250.0)
    return {
        "kind": "tc", "spec": spec, "TMin": _r(TMin, 12), "TMax": _r(TMax, 12), "dT": _r(dT_rel * Tc, 6),
        "rTol": rTol, "paranoid": paranoid,
        # which phases the USER traces before asking for Tc; findCriticalTemperature traces the others itself over
        # the coexistence range ("none": the range is given through min/maxPossibleTemperature, the only way to
        # give one to never-traced phases)
        "pretrace": draw(st.sampled_from(["both", "both", "high", "low", "none"])),
    }


@st.composite
def st_multi_case(draw):
    """Several FreeEnergy objects created and traced one after the other in ONE process, the way a user does:
    'points' = independent benchmark points (own potential, units, ranges); 'pair' = the two objects that
    WallGo.Thermodynamics builds, traced with different ranges (order high->low as the manager, or low->high)."""
    if draw(st.booleans()):
        n = draw(st.sampled_from([2, 2, 3]))
        return {"kind": "multi", "layout": "points", "items": [draw(st_trace_case()) for _ in range(n)]}
    spec = draw(st_spec())
    cf0 = zp.closed(dict(spec, units=1.0))
    Tn = cf0.Tc * (1.0 - spec["delta"])
    items = []
    for which in ("high", "low"):
        dT_rel = draw(st_dtrel(-3.0, -1.3))
        dn = 10.0 ** draw(st.floats(-2.0, -0.5))
        up = 10.0 ** draw(st.floats(-2.0, -0.5))
        TMin, TMax = Tn * (1.0 - dn), Tn * (1.0 + up)
        dT_rel = max(dT_rel, (TMax - TMin) / Tn / 250.0)
        dT_rel = min(dT_rel, (TMax - TMin) / Tn / 8.0)
        items.append({"kind": "trace", "spec": spec, "which": which, "mode": "pair", "Ts": _r(Tn, 12),
                      "TMin": _r(TMin, 12), "TMax": _r(TMax, 12), "dT": _r(dT_rel * Tn, 6),
                      "rTol": draw(st.sampled_from(RTOLS)), "paranoid": draw(st.booleans()), "first": None})
    if draw(st.booleans()):
        items.reverse()
    return {"kind": "multi", "layout": "pair", "items": items}


def strategy(tier):
    return st.one_of(st_trace_case(), st_trace_case(), st_trace_case(), st_multi_case(), st_multi_case(),
                     st_tc_case())


# ---------------------------------------------------------------------------
# closed-form helpers
# ---------------------------------------------------------------------------
def _sum_abs_terms(cf, x, T):
    """Sum of |terms| of the polynomial potential (for the rounding bound of V)."""
    x = np.abs(np.asarray(x, dtype=float))
    if isinstance(cf, zp.Z2x2):
        h, s = x[0], x[1]
        return (0.5 * (abs(cf.muh2) + cf.ch * T * T) * h * h + 0.25 * cf.lh * h ** 4
                + 0.5 * (abs(cf.mus2) + cf.cs * T * T) * s * s + 0.25 * cf.ls * s ** 4
                + 0.25 * abs(cf.lhs) * h * h * s * s + cf.a * T ** 4)
    f = x[0]
    return (0.5 * cf.g * (T * T + cf.T0 ** 2) * f * f + abs(cf.A) * T * f ** 3 / 3
            + 0.25 * cf.lam * f ** 4 + cf.a * T ** 4)


def _other_phase(which):
    return "low" if which == "high" else "high"


existence = zp.existence_ext
branch_point = zp.branch_point


def _beyond_true_end(ex, T):
    """relative distance by which T lies beyond a TRUE end (0 if not), and the side."""
    if ex["lo_kind"] == "true" and T < ex["lo"]:
        return (ex["lo"] - T) / ex["lo"], "lo"
    if ex["hi_kind"] == "true" and T > ex["hi"]:
        return (T - ex["hi"]) / ex["hi"], "hi"
    return 0.0, None


def _near_true_end(ex, T):
    for side in ("lo", "hi"):
        X = ex[side]
        if ex[side + "_kind"] == "true" and math.isfinite(X) and X > 0 and abs(T - X) <= INSIDE_MARGIN * X:
            return side
    return None


def _classify_end(ex, side, E, back):
    """How the requested end E relates to the existence interval on this side."""
    X, kind = ex[side], ex[side + "_kind"]
    if kind in ("zero", "none") or not math.isfinite(X) or X <= 0:
        return "inside", kind
    rel = (E - X) / X if side == "lo" else (X - E) / X  # > 0 : inside
    if rel >= INSIDE_MARGIN:
        return "inside", kind
    if rel <= -max(3 * back, 1e-6):
        return "cross", kind
    return "marginal", kind


def _fd_hess_noise(V, Vabs):
    fs = np.asarray(V.derivativeSettings.fieldValueVariationScale, dtype=float)
    h = float(np.min(fs)) * (V.effectivePotentialError ** (1.0 / 6.0))
    return 64.0 * EPS * Vabs / (h * h)


def _cls(spec, which, paranoid, extra=""):
    s = f"{spec['family']}/{which} units={spec.get('units', 1.0):g} paranoid={paranoid}"
    return s + (" " + extra if extra else "")


# ---------------------------------------------------------------------------
# node scan (shared by trace and tc cases)
# ---------------------------------------------------------------------------
class Scan:
    pass


def scan_nodes(v, V, cf, spec, which, ex, Tk, vals, rTol, paranoid, Tstart, flags_txt=""):
    """All pointwise oracles on the observed table.  Returns a Scan with per-node closed-form data and
    hop_at (index of the first node off the branch / beyond a true end, or None)."""
    s = float(spec.get("units", 1.0))
    nf, n = cf.nf, Tk.size
    back = K_TOL * rTol
    sc = Scan()
    sc.refs = np.full((n, nf), np.nan)
    sc.status = [None] * n
    sc.lam_min = np.full(n, np.nan)
    sc.lam_max = np.full(n, np.nan)
    for k in range(n):
        x, stt = branch_point(cf, which, ex, Tk[k])
        sc.status[k] = stt
        if x is None:
            continue
        sc.refs[k] = x
        if stt in ("exact", "cont"):
            ev = np.linalg.eigvalsh(cf.hess(x, Tk[k]))
            sc.lam_min[k], sc.lam_max[k] = ev[0], ev[-1]
    sc.Mk = np.maximum(np.nan_to_num(np.linalg.norm(sc.refs, axis=1)), Tk)
    sc.M_path = float(np.max(sc.Mk))
    fin = np.isfinite(sc.lam_max)
    if np.any(fin):
        sc.lam_max_path = float(np.max(sc.lam_max[fin]))
    else:  # no closed form anywhere: scale from the tabulated points themselves
        sc.lam_max_path = float(max(np.linalg.eigvalsh(cf.hess(vals[k, :nf], Tk[k]))[-1] for k in range(n)))
    # gradient scale: the tracer's own normalisation (|dV|/T0^3 <= rTol in its non-paranoid test) or the
    # natural scale lambda_max*M of the potential along the path, whichever is larger
    sc.G = max(sc.lam_max_path * sc.M_path, float(Tstart) ** 3)
    sc.hop_at = None
    sc.worst_pos = sc.worst_grad = 0.0
    sc.n_ill = 0
    other = _other_phase(which)
    once = set()
    for sub in ("node-branch", "node-exists", "node-hessian", "node-veff", "node-gradient"):
        v.checked(sub)
    # ---- pass 1: same branch (coarse): closer to the branch than half way to the other phase; scanned
    #      outwards from the start temperature so that the reported node is the one where the branch is left
    i0 = int(np.argmin(np.abs(Tk - Tstart)))
    order = list(range(i0, n)) + list(range(i0 - 1, -1, -1))
    hops = []
    blocked_up = blocked_dn = False
    for k in order:
        if (k >= i0 and blocked_up) or (k < i0 and blocked_dn):
            continue
        T = Tk[k]
        phi = vals[k, :nf]
        ref, stt = sc.refs[k], sc.status[k]
        if stt is None:
            continue
        dist = float(np.linalg.norm(phi - ref))
        oth = cf.phase(other, T)
        have_oth = bool(np.all(np.isfinite(oth))) and cf.exists(other, T) and np.linalg.norm(oth - ref) > 0
        coarse = 0.5 * float(np.linalg.norm(oth - ref)) if have_oth else 0.5 * sc.Mk[k]
        if dist > coarse:
            hops.append(k)
            if k >= i0:
                blocked_up = True
            else:
                blocked_dn = True
            beyond, bside = _beyond_true_end(ex, T)
            near = bside or _near_true_end(ex, T)
            if not near:  # the hop may have happened between two nodes that straddle the end
                kp = k - 1 if k >= i0 else k + 1
                if 0 <= kp < n:
                    for side in ("lo", "hi"):
                        X = ex[side]
                        if ex[side + "_kind"] == "true" and min(T, Tk[kp]) <= X <= max(T, Tk[kp]):
                            near = side
            where = f"at-end={near}:true" if near else "inside-existence"
            dother = float(np.linalg.norm(phi - oth)) if have_oth else float("nan")
            v.fail("node-branch", _cls(spec, which, paranoid, f"{where} rTol={rTol:g}"),
                   f"tabulated point {k}/{n} at T={T / s:.9g} (units {s:g}) is {dist / s:.4g} away from the "
                   f"closed-form branch of the starting phase ({ref / s}); distance to the other phase "
                   f"{dother / s:.3g}; neighbouring nodes T={Tk[max(k - 1, 0)] / s:.9g}, {Tk[min(k + 1, n - 1)] / s:.9g}; "
                   f"table range [{Tk[0] / s:.6g},{Tk[-1] / s:.6g}] {flags_txt}",
                   T=T / s, phi=(phi / s).tolist(), ref=(ref / s).tolist())
    sc.hop_at = hops[0] if hops else None
    k_lo = max([k + 1 for k in hops if k < i0], default=0)
    k_hi = min([k for k in hops if k >= i0], default=n)
    # ---- pass 2: pointwise oracles on the nodes that are on the branch ----------------------------
    for k in range(k_lo, k_hi):
        T = Tk[k]
        phi = vals[k, :nf]
        ref, stt = sc.refs[k], sc.status[k]
        at_end = ""
        if stt is not None:
            beyond, bside = _beyond_true_end(ex, T)
            near = bside or _near_true_end(ex, T)
            at_end = f"at-end={near}:true" if near else ""
            # ---- tabulated only where the phase exists ----------------------------------------------
            if beyond > 0:
                # backward window in T: the gradient tolerance divided by |d grad V/dT| at the end point
                xe = ref
                dgdT = float(np.linalg.norm((cf.grad(xe, ex[bside] * (1 + 1e-6)) - cf.grad(xe, ex[bside] * (1 - 1e-6)))
                                            / (2e-6 * ex[bside])))
                back_k = max(back, K_TOL * rTol * sc.G / max(dgdT * ex[bside], 1e-300))
                if beyond > back_k and sc.hop_at is None and "exists" not in once:
                    once.add("exists")
                    v.fail("node-exists", _cls(spec, which, paranoid, f"end={bside}:true rTol={rTol:g}"),
                           f"tabulated abscissa T={T / s:.10g} lies beyond the true end {ex[bside] / s:.10g} of the "
                           f"phase by {beyond:.3g} relative (> backward window {back_k:.2g}); fields {phi / s}",
                           T=T / s)
        # ---- Hessian at the tabulated point --------------------------------------------------------
        lam_tab = float(np.linalg.eigvalsh(cf.hess(phi, T))[0])
        noise = _fd_hess_noise(V, abs(vals[k, nf]))
        if lam_tab < -noise and "hess" not in once:
            once.add("hess")
            v.fail("node-hessian", _cls(spec, which, paranoid, at_end),
                   f"closed-form Hessian at tabulated point T={T / s:.9g}, fields {phi / s} has smallest "
                   f"eigenvalue {lam_tab / s ** 2:.4g} < -noise {noise / s ** 2:.2g}: not a local minimum", T=T / s)
        # ---- V consistency ---------------------------------------------------------------------------
        tolV = 32 * EPS * _sum_abs_terms(cf, phi, T)
        dV = abs(vals[k, nf] - float(cf.V(phi, T)))
        if dV > tolV and "veff" not in once:
            once.add("veff")
            v.fail("node-veff", _cls(spec, which, paranoid),
                   f"tabulated V differs from V(tabulated fields, T_k) by {dV / s ** 4:.3g} (rounding bound "
                   f"{tolV / s ** 4:.2g}) at T={T / s:.9g}", T=T / s)
        # ---- gradient (backward error); not defined beyond a true end (no stationary point there) -------
        if stt != "ghost":
            g = float(np.linalg.norm(cf.grad(phi, T)))
            lmx = sc.lam_max[k] if np.isfinite(sc.lam_max[k]) else sc.lam_max_path
            tolg = K_TOL * rTol * sc.G + FLOOR_C * math.sqrt(2 * EPS * abs(vals[k, nf]) * max(lmx, 0.0))
            sc.worst_grad = max(sc.worst_grad, g / tolg)
            if g > tolg and "grad" not in once:
                once.add("grad")
                v.fail("node-gradient", _cls(spec, which, paranoid, f"rTol={rTol:g}"),
                       f"closed-form gradient at tabulated point T={T / s:.9g} is {g / s ** 3:.3g} > "
                       f"K*rTol*max(lambda_max*M, Tstart^3) = {tolg / s ** 3:.3g}", T=T / s)
        # ---- forward position error where well conditioned ---------------------------------------------
        if stt in ("exact", "cont") and sc.lam_min[k] > 0 and K_TOL * rTol * sc.G / (sc.lam_min[k] * sc.M_path) <= COND_CAP:
            if "posck" not in once:
                once.add("posck")
                v.checked("node-position")
            cond = sc.G / (sc.lam_min[k] * sc.M_path)
            tolp = K_TOL * rTol * sc.M_path * cond + FLOOR_C * math.sqrt(2 * EPS * abs(vals[k, nf]) / sc.lam_min[k])
            dist = float(np.linalg.norm(phi - ref))
            sc.worst_pos = max(sc.worst_pos, dist / tolp)
            if dist > tolp and "pos" not in once:
                once.add("pos")
                v.fail("node-position", _cls(spec, which, paranoid, f"rTol={rTol:g}"),
                       f"tabulated fields at T={T / s:.9g} are {dist / s:.3g} from the exact minimum; "
                       f"tolerance K*rTol*M*cond = {tolp / s:.3g} (cond {cond:.3g})", T=T / s)
        else:
            sc.n_ill += 1
    return sc


# ---------------------------------------------------------------------------
# trace cases
# ---------------------------------------------------------------------------
class TraceTimeout(Exception):
    pass


class time_limit:
    """Wall-clock guard around one tracePhase call (SIGALRM, main thread only).  A trace of the generated
    size takes < 3 s; TRACE_TIME_LIMIT_S is only ever reached when the code under test misbehaves grossly,
    and then yields the label outcome:timeout (inconclusive for that case), never a violation."""

    def __init__(self, seconds):
        self.seconds = seconds
        self.armed = False

    def _raise(self, signum, frame):
        raise TraceTimeout()

    def __enter__(self):
        import signal
        import threading

        if threading.current_thread() is threading.main_thread() and hasattr(signal, "setitimer"):
            self.old = signal.signal(signal.SIGALRM, self._raise)
            signal.setitimer(signal.ITIMER_REAL, self.seconds)
            self.armed = True
        return self

    def __exit__(self, *exc):
        import signal

        if self.armed:
            signal.setitimer(signal.ITIMER_REAL, 0)
            signal.signal(signal.SIGALRM, self.old)
        return False


def _do_trace(V, cf, case, s, first, fe=None):
    if fe is None:
        fe = zp.make_free_energy(V, cf, case["which"], case["Ts"] * s)
    with time_limit(TRACE_TIME_LIMIT_S):
        fe.tracePhase(case["TMin"] * s, case["TMax"] * s, case["dT"] * s, rTol=case["rTol"],
                      spinodal=True, paranoid=case["paranoid"], phaseTracerFirstStep=first)
    return fe


def _object_state(fe):
    return (float(fe.minPossibleTemperature[0]), bool(fe.minPossibleTemperature[1]),
            float(fe.maxPossibleTemperature[0]), bool(fe.maxPossibleTemperature[1]),
            float(fe.interpolationRangeMin()), float(fe.interpolationRangeMax()))


def check_fresh(fe, v, cls):
    """A FreeEnergy object that was never traced has the documented initial range [0, inf], not flagged."""
    v.checked("fresh-object")
    mn, mx = list(fe.minPossibleTemperature), list(fe.maxPossibleTemperature)
    if not (mn[0] == 0.0 and mn[1] is False and mx[0] == np.inf and mx[1] is False) or fe.hasInterpolation():
        v.fail("fresh-object", cls,
               f"a newly created FreeEnergy object starts with minPossibleTemperature={mn}, maxPossibleTemperature={mx}, "
               f"hasInterpolation={fe.hasInterpolation()} instead of [0.0, False], [inf, False], no table")


def check_trace(case, v: Verdict, prebuilt=None):
    """All oracles on one traced FreeEnergy.  prebuilt = (V, cf, fe): use this (untraced) object instead of
    creating one.  Returns the traced object (or None)."""
    spec = case["spec"]
    s = float(spec.get("units", 1.0))
    which, rTol, paranoid = case["which"], case["rTol"], case["paranoid"]
    if prebuilt is None:
        V, model, cf = zp.configured_potential(spec)
        fe0 = zp.make_free_energy(V, cf, which, case["Ts"] * s)
    else:
        V, cf, fe0 = prebuilt
    ex = existence(cf, which)
    Ts, TMin, TMax, dT = case["Ts"] * s, case["TMin"] * s, case["TMax"] * s, case["dT"] * s
    dT_rel = case["dT"] / case["Ts"]
    check_fresh(fe0, v, f"{spec['family']}/{which}")
    back = K_TOL * rTol
    v.label(f"family:{spec['family']}", f"phase:{which}", f"units:{s:g}", f"rTol:{rTol:g}",
            f"paranoid:{paranoid}", f"first:{'none' if case['first'] is None else 'fraction'}",
            f"mode:{case['mode']}",
            "dT:" + ("lo" if dT_rel <= 2e-3 else "hi" if dT_rel >= 5e-2 else "mid"))
    cl_lo, kind_lo = _classify_end(ex, "lo", TMin, back)
    cl_hi, kind_hi = _classify_end(ex, "hi", TMax, back)
    v.label(f"end-lo:{cl_lo}/{kind_lo}", f"end-hi:{cl_hi}/{kind_hi}")
    crosses_true = (cl_lo == "cross" and kind_lo == "true") or (cl_hi == "cross" and kind_hi == "true")
    v.nontrivial = bool(crosses_true or dT_rel <= 2e-3 or dT_rel >= 5e-2 or rTol in (1e-4, 1e-8))

    first = case["first"]
    fe = None
    for attempt in (0, 1):
        try:
            fe = _do_trace(V, cf, case, s, first, fe=fe0 if attempt == 0 else None)
            break
        except TraceTimeout:
            v.label("outcome:timeout")
            return None
        except AssertionError as exc:
            msg = str(exc)
            v.label("outcome:assert:" + msg[:28].replace(" ", "_"))
            # "Temperature range negative" is an outcome only if the phase really offers less than ~4 dT of
            # table inside the request; otherwise the table had to cover the requested range
            lo_eff = max(TMin, ex["lo"]) if ex["lo"] > 0 else TMin
            hi_eff = min(TMax, ex["hi"]) if math.isfinite(ex["hi"]) else TMax
            v.checked("trace-assert")
            if msg.startswith("Temperature range negative") and hi_eff - lo_eff >= 8 * dT \
                    and lo_eff + dT <= Ts <= hi_eff - dT:
                v.fail("trace-assert", _cls(spec, which, paranoid, f"rTol={rTol:g}"),
                       f"tracePhase raised '{msg[:60]}' although the phase exists on [{lo_eff / s:.8g},{hi_eff / s:.8g}] "
                       f"inside the request [{TMin / s:.8g},{TMax / s:.8g}] = {(hi_eff - lo_eff) / dT:.3g} dT; object reports "
                       f"min/max possible {fe0.minPossibleTemperature}, {fe0.maxPossibleTemperature}")
            return None
        except RuntimeError as exc:
            v.label("outcome:RuntimeError:" + str(exc)[:24].replace(" ", "_"))
            return None
        except ValueError as exc:
            if first is not None and "first_step" in str(exc) and attempt == 0:
                v.checked("first-step")
                v.fail("first-step", f"first=fraction units={s:g}",
                       f"phaseTracerFirstStep={first} (documented: in units of dT={dT:.4g}) is passed to RK45 "
                       f"as an absolute step and rejected: {exc}; range below/above start "
                       f"{Ts - TMin:.4g}/{TMax - Ts:.4g}")
                first = None
                continue
            raise
    if first is not None:
        v.checked("first-step")
    tab = zp.table_of(fe)
    if tab is None:
        v.label("table:unobservable")
        return fe
    Tk, vals = tab
    nf = cf.nf
    n = Tk.size
    v.info["n_nodes"] = int(n)
    tmin_tab, tmax_tab = float(np.min(Tk)), float(np.max(Tk))
    pmin, fmin = fe.minPossibleTemperature
    pmax, fmax = fe.maxPossibleTemperature

    v.checked("node-order")
    if np.any(np.diff(Tk) <= 0):
        v.fail("node-order", _cls(spec, which, paranoid), "tabulated temperatures are not strictly increasing")
        return fe

    sc = scan_nodes(v, V, cf, spec, which, ex, Tk, vals, rTol, paranoid, Ts, flags_txt=f"flags {fmin},{fmax}")
    v.info["worst_pos_over_tol"] = sc.worst_pos
    v.info["worst_grad_over_tol"] = sc.worst_grad
    v.info["ill_conditioned_nodes"] = sc.n_ill
    hopped = sc.hop_at is not None

    # ---- ends -----------------------------------------------------------------
    v.checked("end-margin")
    rmin = float(fe.interpolationRangeMin())
    rmax = float(fe.interpolationRangeMax())
    ulp = 8 * EPS * max(abs(tmax_tab), dT)
    cb = _cls(spec, which, paranoid)
    if abs(rmin - tmin_tab) > ulp or abs(rmax - tmax_tab) > ulp:
        v.fail("end-margin", cb, f"interpolationRange [{rmin},{rmax}] differs from table [{tmin_tab},{tmax_tab}]")
    if abs(pmin - (tmin_tab + 2 * dT)) > ulp:
        v.fail("end-margin", cb + " side=min",
               f"minPossibleTemperature {pmin / s:.10g} != lowest tabulated T + 2 dT = {(tmin_tab + 2 * dT) / s:.10g}")
    if abs(pmax - (tmax_tab - 2 * dT)) > ulp:
        v.fail("end-margin", cb + " side=max",
               f"maxPossibleTemperature {pmax / s:.10g} != highest tabulated T - 2 dT = {(tmax_tab - 2 * dT) / s:.10g}")
    reached_lo = abs(tmin_tab - TMin) <= ulp
    reached_hi = abs(tmax_tab - TMax) <= ulp
    if tmin_tab < TMin - ulp or tmax_tab > TMax + ulp:
        v.fail("end-margin", cb + " outside-request",
               f"table [{tmin_tab / s},{tmax_tab / s}] extends outside the requested range [{TMin / s},{TMax / s}]")
    else:
        if bool(fmin) != (not reached_lo):
            v.fail("end-margin", cb + " side=min flag",
                   f"flag of the lower end is {fmin} although lowest tabulated T {tmin_tab / s:.10g} vs requested {TMin / s:.10g}")
        if bool(fmax) != (not reached_hi):
            v.fail("end-margin", cb + " side=max flag",
                   f"flag of the upper end is {fmax} although highest tabulated T {tmax_tab / s:.10g} vs requested {TMax / s:.10g}")

    for side, cl, kind, reached, flag, tend, E in (
        ("lo", cl_lo, kind_lo, reached_lo, fmin, tmin_tab, TMin),
        ("hi", cl_hi, kind_hi, reached_hi, fmax, tmax_tab, TMax),
    ):
        if hopped:
            break
        if cl == "inside":
            v.checked("end-reach")
            if not reached or flag:
                one = " start-within-one-step" if abs(Ts - E) < dT else ""
                v.fail("end-reach", _cls(spec, which, paranoid, f"side={side}{one} rTol={rTol:g}"),
                       f"phase exists on the requested {side} side (end of phase {ex[side] / s:.8g} [{kind}], requested "
                       f"{E / s:.10g}, start {Ts / s:.10g}) but the table stops at {tend / s:.10g} with flag {flag} "
                       f"(distance {abs(tend - E) / dT:.3g} dT, {n} nodes)", requested=E / s, table_end=tend / s)
        elif cl == "cross" and kind == "true":
            v.checked("end-flag")
            dd = abs(tend - ex[side])
            v.label("true-end-stop-distance:" + ("<1dT" if dd < dT else "<5dT" if dd < 5 * dT else ">=5dT"))
            if not flag:
                v.fail("end-flag", _cls(spec, which, paranoid, f"side={side} rTol={rTol:g}"),
                       f"requested range crosses the true end {ex[side] / s:.8g} of the phase on the {side} "
                       f"side but the end is not flagged; table end {tend / s:.10g}, requested {E / s:.10g}")
        elif cl == "cross" and kind == "merge":
            v.label(f"merge-end:{'stopped' if flag else 'continued'}:units={s:g}")
    if hopped:
        return fe

    # ---- interpolated values ------------------------------------------------
    lo_i, hi_i = tmin_tab + 5 * dT, tmax_tab - 5 * dT
    if not (hi_i > lo_i and n >= 8):
        return fe
    if any(st_ is None for st_ in sc.status):
        v.label("interp:skipped-no-closed-form")
        return fe
    from scipy.interpolate import CubicSpline

    Vex = np.array([float(cf.V(sc.refs[k], Tk[k])) for k in range(n)])
    ideal = CubicSpline(Tk, np.column_stack([sc.refs, Vex]), axis=0)
    m = 50
    frac = ((np.arange(m) + 0.5) / m + 0.6180339887 * np.arange(m)) % 1.0
    Tq = np.sort(lo_i + frac * (hi_i - lo_i))
    out = fe(Tq)
    fq = np.asarray(out.fieldsAtMinimum, dtype=float).reshape(m, nf)
    vq = np.asarray(out.veffValue, dtype=float).reshape(m)
    v.checked("interp")
    idx = np.searchsorted(Tk, Tq)
    bad_f = bad_v = None
    worst_i = 0.0
    n_eval = 0
    for j in range(m):
        T = Tq[j]
        r, stt = branch_point(cf, which, ex, T)
        if stt not in ("exact", "cont"):
            continue
        i0, i1 = max(idx[j] - 2, 0), min(idx[j] + 2, n)
        lm = sc.lam_min[i0:i1]
        if not np.all(np.isfinite(lm)) or np.any(lm <= 0):
            continue
        cond = sc.G / (float(np.min(lm)) * sc.M_path)
        if K_TOL * rTol * cond > COND_CAP:
            continue
        tolnode = K_TOL * rTol * sc.M_path * cond + FLOOR_C * math.sqrt(2 * EPS * abs(vq[j]) / float(np.min(lm)))
        a, b = Tk[max(idx[j] - 2, 0)], Tk[min(idx[j] + 1, n - 1)]
        ts = np.linspace(a, b, 13)
        pts = [branch_point(cf, which, ex, t) for t in ts]
        if any(p[1] not in ("exact", "cont") for p in pts):
            continue
        ex_f = np.array([p[0] for p in pts])
        ex_v = np.array([float(cf.V(ex_f[i], ts[i])) for i in range(ts.size)])
        idl = ideal(ts)
        envf = float(np.max(np.linalg.norm(idl[:, :nf] - ex_f, axis=1)))
        envv = float(np.max(np.abs(idl[:, nf] - ex_v)))
        n_eval += 1
        tolf = 2 * tolnode + 5 * envf
        errf = float(np.linalg.norm(fq[j] - r))
        worst_i = max(worst_i, errf / tolf)
        if errf > tolf and bad_f is None:
            bad_f = (T, errf, tolf)
        lam_loc = float(np.max(sc.lam_max[i0:i1]))
        tolv = lam_loc * tolnode ** 2 + 5 * envv + 64 * EPS * _sum_abs_terms(cf, r, T)
        errv = abs(vq[j] - float(cf.V(r, T)))
        if errv > tolv and bad_v is None:
            bad_v = (T, errv, tolv)
    v.info["worst_interp_over_tol"] = worst_i
    v.info["interp_points"] = n_eval
    if bad_f:
        v.fail("interp", _cls(spec, which, paranoid, f"fields rTol={rTol:g}"),
               f"interpolated fields at T={bad_f[0] / s:.9g} are {bad_f[1] / s:.3g} from the exact minimum "
               f"(tolerance {bad_f[2] / s:.3g})")
    if bad_v:
        v.fail("interp", _cls(spec, which, paranoid, f"veff rTol={rTol:g}"),
               f"interpolated V at T={bad_v[0] / s:.9g} is {bad_v[1] / s ** 4:.3g} from V at the exact minimum "
               f"(tolerance {bad_v[2] / s ** 4:.3g})")

    return fe

# ---------------------------------------------------------------------------
# critical temperature
# ---------------------------------------------------------------------------
def check_tc(case, v: Verdict):
    import WallGo
    from WallGo import WallGoError

    spec = case["spec"]
    s = float(spec.get("units", 1.0))
    rTol, paranoid = case["rTol"], case["paranoid"]
    V, model, cf = zp.configured_potential(spec)
    Tn = zp.nucleation_temperature(spec)
    TMin, TMax, dT = case["TMin"] * s, case["TMax"] * s, case["dT"] * s
    v.label(f"family:{spec['family']}", "kind:tc", f"units:{s:g}", f"rTol:{rTol:g}", f"paranoid:{paranoid}")
    th = WallGo.Thermodynamics(V, float(Tn), WallGo.Fields(cf.phase("low", Tn)), WallGo.Fields(cf.phase("high", Tn)))
    th.freeEnergyHigh.disableAdaptiveInterpolation()
    th.freeEnergyLow.disableAdaptiveInterpolation()
    check_fresh(th.freeEnergyHigh, v, f"{spec['family']}/high")
    check_fresh(th.freeEnergyLow, v, f"{spec['family']}/low")
    pre = case.get("pretrace", "both")
    v.label(f"tc-pretrace:{pre}")
    try:
        with time_limit(2 * TRACE_TIME_LIMIT_S):
            if pre in ("both", "high"):
                th.freeEnergyHigh.tracePhase(TMin, TMax, dT, rTol=rTol, paranoid=paranoid)
            if pre in ("both", "low"):
                th.freeEnergyLow.tracePhase(TMin, TMax, dT, rTol=rTol, paranoid=paranoid)
            if pre == "none":
                for fe in (th.freeEnergyHigh, th.freeEnergyLow):
                    fe.minPossibleTemperature[0] = TMin
                    fe.maxPossibleTemperature[0] = TMax
    except TraceTimeout:
        v.label("outcome:timeout")
        return
    except (AssertionError, RuntimeError) as exc:
        v.label("outcome:trace:" + type(exc).__name__)
        return
    # both tables must be on their branches before Tc means anything
    tabs = {}
    for which, fe in (("high", th.freeEnergyHigh), ("low", th.freeEnergyLow)):
        tab = zp.table_of(fe)
        if tab is None:
            continue
        tabs[which] = tab
        sc = scan_nodes(v, V, cf, spec, which, existence(cf, which), tab[0], tab[1], rTol, paranoid, Tn,
                        flags_txt=f"flags {fe.minPossibleTemperature[1]},{fe.maxPossibleTemperature[1]} (tc case)")
        if sc.hop_at is not None:
            v.label("tc:skipped-after-hop")
            return
    Tc = cf.Tc

    def coexist():
        return (max(th.freeEnergyHigh.minPossibleTemperature[0], th.freeEnergyLow.minPossibleTemperature[0]),
                min(th.freeEnergyHigh.maxPossibleTemperature[0], th.freeEnergyLow.maxPossibleTemperature[0]))

    lo, hi = coexist()
    if pre != "both" and not (lo + dT <= Tn <= hi - dT):
        # the range left after the safety margins of the user's own trace no longer contains the temperature the
        # other phase starts from: tracing from outside the requested range is not a request tracePhase supports
        # (ValueError from the spline, seen at seed 1) - the user traces the rest too
        v.label("tc-pretrace:start-outside-coexistence-range->both")
        try:
            with time_limit(2 * TRACE_TIME_LIMIT_S):
                if not th.freeEnergyHigh.hasInterpolation():
                    th.freeEnergyHigh.tracePhase(TMin, TMax, dT, rTol=rTol, paranoid=paranoid)
                if not th.freeEnergyLow.hasInterpolation():
                    th.freeEnergyLow.tracePhase(TMin, TMax, dT, rTol=rTol, paranoid=paranoid)
        except TraceTimeout:
            v.label("outcome:timeout")
            return
        except (AssertionError, RuntimeError) as exc:
            v.label("outcome:trace:" + type(exc).__name__)
            return
        lo, hi = coexist()
    inside = lo + dT < Tc < hi
    try:
        with time_limit(2 * TRACE_TIME_LIMIT_S):
            got = th.findCriticalTemperature(dT, rTol=rTol, paranoid=paranoid)
    except TraceTimeout:
        v.label("outcome:timeout")
        return
    except WallGoError as exc:
        lo, hi = coexist()
        inside = lo + dT < Tc < hi
        v.label("outcome:tc:WallGoError:" + ("Tc-inside-range" if inside else "Tc-outside-range"))
        v.info["msg"] = str(exc)[:120]
        return
    except (AssertionError, RuntimeError) as exc:
        if pre == "both":
            raise
        v.label("outcome:tc-trace:" + type(exc).__name__)
        return
    if pre != "both":
        # the phases findCriticalTemperature traced itself are judged like any other table, and they must have
        # been traced at all ("the critical temperature returned for two TRACED phases")
        for which, fe in (("high", th.freeEnergyHigh), ("low", th.freeEnergyLow)):
            if which in tabs:
                continue
            tab = zp.table_of(fe)
            v.checked("tc-traced")
            if tab is None:
                v.fail("tc-traced", f"{spec['family']}/{which} pretrace={pre}",
                       f"findCriticalTemperature returned {got / s:.8g} but the {which}-T phase, which the caller had "
                       f"not traced, still has no table (range {fe.minPossibleTemperature}, {fe.maxPossibleTemperature})")
                return
            tabs[which] = tab
            sc = scan_nodes(v, V, cf, spec, which, existence(cf, which), tab[0], tab[1], rTol, paranoid, Tn,
                            flags_txt=f"flags {fe.minPossibleTemperature[1]},{fe.maxPossibleTemperature[1]} "
                                      f"(tc case, traced by findCriticalTemperature)")
            if sc.hop_at is not None:
                v.label("tc:skipped-after-hop")
                return
        lo, hi = coexist()
        inside = lo + dT < Tc < hi
    v.label("tc:returned:" + ("Tc-inside-range" if inside else "Tc-outside-range"))
    v.nontrivial = True
    v.checked("tc-value")
    cls = f"{spec['family']} units={s:g} paranoid={paranoid} rTol={rTol:g}"
    if not (lo <= got <= hi):
        v.fail("tc-value", cls, f"returned Tc={got / s:.8g} lies outside the coexistence range [{lo / s:.8g},{hi / s:.8g}]")
        return
    slope = abs(cf.dp_phase("low", Tc) - cf.dp_phase("high", Tc))
    env = float("nan")
    if len(tabs) == 2 and inside:
        from scipy.interpolate import CubicSpline

        env = 0.0
        for which, (Tk, vals) in tabs.items():
            exw = existence(cf, which)
            okk = (Tk >= exw["lo"]) & (Tk <= exw["hi"])
            if np.sum(okk) < 4:
                env = float("nan")
                break
            Vex = np.array([-cf.p_phase(which, t) for t in Tk[okk]])
            ideal = CubicSpline(Tk[okk], Vex)
            ts = np.linspace(max(Tc - 2 * dT, Tk[okk][0]), min(Tc + 2 * dT, Tk[okk][-1]), 21)
            env += float(np.max(np.abs(ideal(ts) - np.array([-cf.p_phase(which, t) for t in ts]))))
    xtol = min(rTol * got, 0.5 * dT)
    M = max(float(np.linalg.norm(cf.phase("low", Tc))), float(np.linalg.norm(cf.phase("high", Tc))), Tc)
    lam = max(float(np.linalg.eigvalsh(cf.hess(cf.phase(w, Tc), Tc))[-1]) for w in ("high", "low"))
    nodal = lam * (K_TOL * rTol * M) ** 2
    tol = K_TOL * (xtol + rTol * Tc) + (5 * env + 2 * nodal) / slope
    err = abs(got - Tc)
    if np.isfinite(tol):
        v.info["tc_err_over_tol"] = err / tol
        if err > tol:
            v.fail("tc-value", cls, f"Tc={got / s:.10g} differs from closed form {Tc / s:.10g} by {err / s:.3g} "
                                    f"(tolerance {tol / s:.3g}; spline part {5 * env / slope / s:.2g})")
    else:
        v.label("tc:tolerance-unavailable")
    v.checked("tc-order")
    d = max(3 * (tol if np.isfinite(tol) else K_TOL * (xtol + rTol * Tc)), 1e-9 * got)
    Tb = got - d
    if Tb > lo:
        fl = float(np.asarray(th.freeEnergyLow(Tb).veffValue))
        fh = float(np.asarray(th.freeEnergyHigh(Tb).veffValue))
        if not fl < fh:
            v.fail("tc-order", cls, f"just below the returned Tc (T={Tb / s:.10g}) the low-T phase is not favoured: "
                                    f"V_low - V_high = {(fl - fh) / s ** 4:.3g}")


def check_multi(case, v: Verdict):
    """Several FreeEnergy objects in one process.  Every object must behave as it would alone in a fresh
    process: the single-object oracles are applied to each, a new object starts in the documented initial
    state, and tracing a later object must not change what an earlier one reports."""
    import WallGo

    items = case["items"]
    v.label(f"multi:{case['layout']}:{len(items)}")
    traced = []
    nontrivial = False
    if case["layout"] == "pair":
        spec = items[0]["spec"]
        s = float(spec.get("units", 1.0))
        V, model, cf = zp.configured_potential(spec)
        Tn = items[0]["Ts"] * s
        th = WallGo.Thermodynamics(V, float(Tn), WallGo.Fields(cf.phase("low", Tn)), WallGo.Fields(cf.phase("high", Tn)))
        th.freeEnergyHigh.disableAdaptiveInterpolation()
        th.freeEnergyLow.disableAdaptiveInterpolation()
        objs = {"high": th.freeEnergyHigh, "low": th.freeEnergyLow}
    for k, item in enumerate(items):
        pre = (V, cf, objs[item["which"]]) if case["layout"] == "pair" else None
        fe = check_trace(item, v, prebuilt=pre)
        nontrivial = nontrivial or v.nontrivial
        if fe is not None and fe.hasInterpolation():
            traced.append((k, item, fe, _object_state(fe)))
        # ---- earlier objects must still report what they reported right after their own trace --------
        v.checked("object-isolation")
        for (j, it, fj, st0) in traced[:-1] if (fe is not None and fe.hasInterpolation()) else traced:
            st1 = _object_state(fj)
            if st1 != st0:
                v.fail("object-isolation", f"{it['spec']['family']}/{it['which']} layout={case['layout']}",
                       f"object {j} ({it['which']}-T phase) reported (minPossible, flag, maxPossible, flag, table min, max) = "
                       f"{st0} after its own trace and {st1} after object {k} ({item['which']}-T phase) was traced")
                break
    v.nontrivial = bool(nontrivial or len(traced) >= 2)


def check_case(case) -> Verdict:
    v = Verdict()
    if case["kind"] == "trace":
        check_trace(case, v)
    elif case["kind"] == "multi":
        check_multi(case, v)
    elif case["kind"] == "tc":
        check_tc(case, v)
    else:
        raise ValueError(case["kind"])
    return v
