"""C14 - collision data act identically after loading, basis change and interpolation.

A case is a *history* of loads into one BoltzmannSolver (fixed particle list, momentum grid size
N_t and requested basis).  Every step writes a fresh synthetic directory (vlib.collfiles) and calls
``BoltzmannSolver.loadCollisions``; a step either carries a fault pattern or is a good directory.

Sub-oracles
  load-ok            a complete, consistent directory with N_s >= N_t must load
  shape              installed array has shape (P,N_t-1,N_t-1,P,N_t-1,N_t-1), requested basis, finite
  stored-bits        N_s == N_t and stored basis == requested basis: [a,:,:,b,:,:] is bit-equal to
                     the dataset stored for the ordered pair (a,b)
  basis-action       N_s == N_t: the loaded operator and the stored operator give the same grid
                     function for every distribution (compared on a basis of the distribution space)
  interp-action      N_t < N_s: for every ordered pair, the loaded operator applied to every
                     distribution with restricted-Chebyshev content below N_t equals the polynomial
                     interpolant (zero boundary values, harness built on numpy.polynomial) of the
                     stored operator's action, evaluated at the target nodes
  independence       the same, for the pair loaded alone / in a permuted sub-list of the particles
  changeBasis-direct CollisionArray.changeBasis on a deep copy: same action, original untouched
  interp-direct-source / interp-action (class suffix "direct")
                     CollisionArray.interpolateCollisionArray called on the installed array: source
                     untouched, result in the source's basis, acting as the interpolant of the source
  fault-raises       missing file or stored grid smaller than the target must raise
  fault-error-type   ... a CollisionLoadError (missing / oversized); CollisionLoadError or
                     AssertionError for inter-file size / basis mismatches (type kept as a label)
  fault-prev-kept    after any failed load solver.collisionArray is the previously installed
                     object with bit-identical contents (None if nothing was loaded before)
"""
from __future__ import annotations

import copy
import os
import pathlib
import shutil
import tempfile

import numpy as np
from hypothesis import strategies as st

from vlib import collfiles as cf
from vlib.core import Verdict

PROPERTY_ID = "C14"
ENGINE = "hypothesis @given over load histories (plain-data cases), harness oracle on numpy.polynomial"

# Confirmed defects that the generator steers around BY CONSTRUCTION (set to False after a repair):
#   interp_multi  CollisionArray.interpolateCollisionArray scrambles every pair when >= 2 particles
#                 are interpolated to a smaller grid (replays/C14/known_interp_multi.json).
AVOID = {"interp_multi": False}  # defect repaired in /repo (fix: commit 38ba7a6); class searched again
if os.environ.get("VERIF_NO_AVOID"):  # testing aid: VERIF_NO_AVOID=1 ./run C14 quick  (e.g. on a patched tree)
    AVOID = {k: False for k in AVOID}

RULE = (
    "History of 1-4 loads into one BoltzmannSolver: 1-3 particles (generated names), target N_t odd "
    "in [3,13], requested basis in {Cardinal,Chebyshev}; per step a directory with stored N_s odd "
    "(N_s = N_t and N_t+2 carry most mass, up to 13), stored basis, attribute encodings, one tensor "
    "per ordered pair (seeded normal / integer / pair-marker / relaxation kernel) and optionally a "
    "fault (any non-empty subset of files missing, N_s < N_t, one file of another size, one file of "
    "the other basis).  Non-trivial = a good load with >= 2 particles and N_t < N_s, or a fault "
    "step after a successful load; distinct by canonical JSON of the case."
)
BUDGET = {
    "quick": {"cases": 2400, "shrink": True, "time_cap_s": 600},
    "thorough": {"cases": 40000, "shrink": True, "time_cap_s": 2400},
}
EPS = 2.0 ** -52
K_ACTION = 64.0
TOLERANCES = {
    "action": "max|loaded - expected| <= K_ACTION*eps*kappa*n_s^2*max|stored pair tensor|, "
              "kappa = cond(Tz_s)cond(Tp_s)cond(Tz_t)cond(Tp_t)*Lebesgue_z*Lebesgue_p (all computed)",
    "K_ACTION": K_ACTION,
    "eps": EPS,
    "stored-bits": "bit equality",
    "fault-prev-kept": "object identity and bit equality",
    "measured": "largest err/bound on the unchanged tree over seeds 1,2,3,5,8 (quick) is recorded in "
                "info.max_err_over_bound (order 1e-3)",
}
ASSUMPTIONS = [
    "Tensors of (N_s-1)^4 numbers per pair are too large to draw element-wise: Hypothesis draws the "
    "tensor family, an integer seed and a scale, and the entries come from numpy PCG64 seeded with "
    "(seed, a, b, N) - a pure function of the case.",
    "'Evaluated at the new grid points' is read with the repository's own convention for the "
    "momentum axes (endpoints=False): the polynomial interpolant through the stored nodes that "
    "vanishes at rho_z = +-1 and rho_par = +1.",
    "Inter-file size/basis mismatches may be rejected with AssertionError (the failure mode the "
    "source documents for newFromDirectory) as well as CollisionLoadError; if such a directory were "
    "accepted, the installed array is checked against what each file states.",
    "Particle names are alphanumeric (an underscore would make file names of different pairs collide).",
    "Spectral grid spacing only.",
]
EXHAUSTIVE_SUBDOMAINS = []

NAME_POOL = ["top", "gluon", "W", "t", "tL", "top2", "Higgs", "b", "q3", "Z0", "psi", "chi1", "Top"]
ALNUM = "abcdefghijklmnopqrstuvwxyzABCDEFGHIJKLMNOPQRSTUVWXYZ0123456789"
TENSOR_KINDS = ["normal", "normal", "integer", "marker", "relax"]
# cost guard: P^2 (N_s-1)^4 (N_t-1)^2 doubles are allocated by Polynomial.evaluate
MAX_EVAL_ELEMS = 6.0e6


# ---------------------------------------------------------------------------
# tensors (pure functions of the spec)
# ---------------------------------------------------------------------------
def make_tensor(spec, ia, ib, N):
    n = N - 1
    kind = spec["kind"]
    scale = 10.0 ** spec.get("scale_exp", 0)
    if kind == "normal":
        rng = np.random.Generator(np.random.PCG64([int(spec["seed"]), ia, ib, N]))
        return scale * rng.standard_normal((n, n, n, n))
    if kind == "integer":
        rng = np.random.Generator(np.random.PCG64([int(spec["seed"]), ia, ib, N, 7]))
        return rng.integers(-9, 10, size=(n, n, n, n)).astype(float)
    if kind == "marker":
        idx = np.arange(n ** 4, dtype=float).reshape((n, n, n, n))
        return scale * (100.0 * (ia + 1) + 10.0 * (ib + 1) + (idx + 1.0) / (n ** 4 + 1.0))
    if kind == "relax":
        rng = np.random.Generator(np.random.PCG64([int(spec["seed"]), ia, ib, N, 11]))
        gamma = scale * (1.0 + ia + 0.5 * ib) * (1.0 if ia == ib else 0.25)
        K = cf.relaxation_kernel(N, gamma) + 0.05 * scale * rng.standard_normal((n, n, n, n))
        return cf.tensor_from_kernel(K, N, spec.get("basis", "Chebyshev"))
    raise ValueError(kind)


# ---------------------------------------------------------------------------
# strategy
# ---------------------------------------------------------------------------
def _odd(lo, hi):
    return [n for n in range(lo, hi + 1) if n % 2 == 1]


@st.composite
def st_names(draw, P):
    out = []
    while len(out) < P:
        if draw(st.integers(0, 3)) == 0:
            nm = draw(st.text(alphabet=ALNUM, min_size=1, max_size=6))
        else:
            nm = draw(st.sampled_from(NAME_POOL))
        k = 0
        while (nm if k == 0 else f"{nm}x{k}") in out:  # distinct by construction, no rejection
            k += 1
        out.append(nm if k == 0 else f"{nm}x{k}")
    return out


@st.composite
def st_tensor_spec(draw):
    return {"kind": draw(st.sampled_from(TENSOR_KINDS)), "seed": draw(st.integers(0, 2 ** 20)),
            "scale_exp": draw(st.sampled_from([0, 0, 0, -6, 3, 8]))}


def _max_ns(P, Nt):
    best = Nt
    for Ns in _odd(Nt, 13):
        if P * P * (Ns - 1) ** 4 * (Nt - 1) ** 2 <= MAX_EVAL_ELEMS:
            best = Ns
    return best


@st.composite
def st_dir(draw, P, Nt, good, avoided):
    hi = _max_ns(P, Nt)
    choices = [Nt, Nt] + ([Nt + 2, Nt + 2] if Nt + 2 <= hi else []) + _odd(Nt, hi)
    Ns = draw(st.sampled_from(choices))
    if good and AVOID.get("interp_multi") and P >= 2 and Ns > Nt:
        Ns = Nt
        avoided.append("interp_multi")
    d = {
        "Ns": Ns,
        "basis": draw(st.sampled_from(cf.BASES)),
        "enc": draw(st.sampled_from(["str", "str", "bytes", "vlen_bytes", "mixed"])),
        "size_dtype": draw(st.sampled_from(["int", "int", "int32", "int64", "uint32"])),
        "meta": draw(st.sampled_from(["dataset", "dataset", "group"])),
        "tensor": draw(st_tensor_spec()),
    }
    # storage precision of the datasets ("exactly the numbers stored"): all double (usual), single precision for the
    # first pair only / for every other pair / for all pairs
    dd = draw(st.sampled_from([None, None, None, "first32", "first32", "alternate32", "all32"]))
    if dd:
        d["data_dtype"] = dd
    return d


@st.composite
def st_fault(draw, P, Nt, d):
    kinds = ["missing", "missing"]
    if Nt > 3:
        kinds += ["oversize", "oversize"]
    if P >= 2:
        kinds += ["size", "size", "basis", "basis"]
    kind = draw(st.sampled_from(kinds))
    pairs = [[a, b] for a in range(P) for b in range(P)]
    if kind == "missing":
        sub = draw(st.lists(st.sampled_from(pairs), min_size=1, max_size=len(pairs), unique_by=tuple))
        return {"kind": "missing", "pairs": sorted(sub)}
    if kind == "oversize":
        d["Ns"] = draw(st.sampled_from(_odd(3, Nt - 2)))
        return {"kind": "oversize"}
    pair = draw(st.sampled_from(pairs))
    if kind == "size":
        other = draw(st.sampled_from([n for n in _odd(3, 15) if n != d["Ns"]]))
        return {"kind": "size", "pair": pair, "N": other}
    return {"kind": "basis", "pair": pair}


@st.composite
def st_case(draw):
    P = draw(st.sampled_from([1, 1, 2, 2, 3]))
    names = draw(st_names(P))
    Nt = draw(st.sampled_from([3, 3, 5, 5, 7, 7, 9, 11, 13]))
    if P == 3 and Nt > 9:
        Nt = 9
    req = draw(st.sampled_from(cf.BASES))
    grid = draw(st.sampled_from(["Grid", "Grid", "Grid3Scales"]))
    M = draw(st.integers(3, 6))
    nsteps = draw(st.integers(1, 4))
    steps, avoided = [], []
    for i in range(nsteps):
        faulty = draw(st.sampled_from([False, False, False, True] if i == 0 else [False, True, True]))
        d = draw(st_dir(P, Nt, not faulty, avoided))
        step = {"dir": d, "fault": None}
        if faulty:
            step["fault"] = draw(st_fault(P, Nt, d))
        else:
            nsub = draw(st.sampled_from([0, 0, 1, 2])) if P >= 2 else 0
            subs = []
            for _ in range(nsub):
                subs.append(draw(st.lists(st.integers(0, P - 1), min_size=1, max_size=P - 1 if P > 2 else 2,
                                          unique=True)))
            step["subsets"] = subs
            step["direct_change"] = draw(st.booleans())
            step["direct_interp"] = None
            if Nt > 3 and draw(st.booleans()):
                if AVOID.get("interp_multi") and P >= 2:
                    avoided.append("interp_multi")
                else:
                    step["direct_interp"] = draw(st.sampled_from(_odd(3, Nt - 2)))
        steps.append(step)
    case = {"kind": "history", "names": names, "Nt": Nt, "req_basis": req, "grid": grid, "M": M,
            "T0": draw(st.sampled_from([1.0, 100.0, 0.37])), "steps": steps}
    if avoided:
        case["avoided"] = sorted(set(avoided))
        case["n_avoided"] = len(avoided)
    return case


def strategy(tier):
    return st_case()


# ---------------------------------------------------------------------------
# harness oracle
# ---------------------------------------------------------------------------
_KAPPA_CACHE = {}


def _kappa(N):
    if N not in _KAPPA_CACHE:
        Tz, Tp = cf.basis_matrices(N)
        _KAPPA_CACHE[N] = float(np.linalg.cond(Tz) * np.linalg.cond(Tp))
    return _KAPPA_CACHE[N]


def expected_operator(S, Ns_file, basis_file, Nt):
    """Stored operator's action on the low-order restricted-Chebyshev basis functions (j,k < N_t-1),
    interpolated to the target nodes: E[alpha', beta', j, k].  Returns (E, lebesgue)."""
    nt = Nt - 1
    if basis_file == "Chebyshev":
        Sc = S[:, :, :nt, :nt]
    else:
        Bz, Bp = cf.basis_matrices(Ns_file)
        Sc = np.einsum("abgd,gj,dk->abjk", S, Bz[:, :nt], Bp[:, :nt])
    if Ns_file == Nt:
        return np.array(Sc), 1.0
    Ez, Ep = cf.cardinal_matrices(Ns_file, *cf.nodes(Nt))
    leb = float(np.abs(Ez).sum(axis=1).max() * np.abs(Ep).sum(axis=1).max())
    return np.einsum("pa,qb,abjk->pqjk", Ez, Ep, Sc), leb


def loaded_operator(L, Nt, basis_loaded):
    """Loaded pair tensor -> action on the restricted-Chebyshev basis functions at the target nodes."""
    if basis_loaded == "Chebyshev":
        return np.asarray(L)
    Tz, Tp = cf.basis_matrices(Nt)
    return np.einsum("abgd,gj,dk->abjk", L, Tz, Tp)


def action_bound(S, Ns_file, Nt, leb):
    return K_ACTION * EPS * _kappa(Ns_file) * _kappa(Nt) * leb * (Ns_file - 1) ** 2 * float(np.abs(S).max())


def _particles(names, order=None):
    import WallGo

    idx = range(len(names)) if order is None else order
    return [WallGo.Particle(names[i], i, lambda f: 0.0 * f.getField(0), lambda f: 0.0, "Fermion", 1)
            for i in idx]


def _make_grid(case):
    import WallGo

    if case.get("grid") == "Grid3Scales":
        return WallGo.Grid3Scales(case["M"], case["Nt"], 3.0, 4.0, 1.0, case.get("T0", 1.0))
    return WallGo.Grid(case["M"], case["Nt"], 1.0, case.get("T0", 1.0))


def _pair_dtype(d, ia, ib, P):
    dd = d.get("data_dtype")
    k = ia * P + ib
    if dd == "all32" or (dd == "first32" and k == 0) or (dd == "alternate32" and k % 2 == 0):
        return "float32"
    return "float64"


def _file_specs(case, step):
    """What each file of the step's directory states: dict[(ia,ib)] -> (N_file, basis_file, tensor) or None."""
    P = len(case["names"])
    d = step["dir"]
    fault = step.get("fault") or {}
    out = {}
    for ia in range(P):
        for ib in range(P):
            spec = dict(d["tensor"], basis=d["basis"])
            S = make_tensor(spec, ia, ib, d["Ns"])
            N_file, b_file = d["Ns"], d["basis"]
            if fault.get("kind") == "missing" and [ia, ib] in fault["pairs"]:
                out[(ia, ib)] = None
                continue
            if fault.get("kind") == "size" and fault["pair"] == [ia, ib]:
                N_file = fault["N"]
                S = cf.resize_tensor(S, N_file)
            if fault.get("kind") == "basis" and fault["pair"] == [ia, ib]:
                b_file = "Cardinal" if d["basis"] == "Chebyshev" else "Chebyshev"
            if _pair_dtype(d, ia, ib, P) == "float32":
                S = np.asarray(S, dtype=np.float32).astype(float)     # the numbers the file will hold
            out[(ia, ib)] = (N_file, b_file, S)
    return out


def _write_step(path, case, step, specs):
    names = case["names"]
    d = step["dir"]
    P = len(names)
    os.makedirs(path, exist_ok=True)
    encs = ["str", "bytes", "vlen_bytes"]
    for (ia, ib), sp in specs.items():
        if sp is None:
            continue
        N_file, b_file, S = sp
        enc = d["enc"] if d["enc"] != "mixed" else encs[(ia * P + ib) % 3]
        cf.write_file(os.path.join(path, cf.file_name(names[ia], names[ib])), names[ia], names[ib], N_file, S,
                      basis=b_file, attr_encoding=enc, size_dtype=d["size_dtype"], metadata_kind=d["meta"],
                      data_dtype=_pair_dtype(d, ia, ib, P))


def _cls_action(P, interp, bs, br):
    return f"P{'=1' if P == 1 else '>=2'} {'Nt<Ns' if interp else 'Nt=Ns'} stored={bs} req={br}"


def _check_array(v, arr, order, specs, case, sub_prefix, worst, cls_suffix=""):
    """Compare an installed/loaded CollisionArray against what the files state.  ``order`` maps the
    array's particle axis to indices into case['names'].  Returns False after the first violation."""
    Nt, req = case["Nt"], case["req_basis"]
    P_all = len(case["names"])
    P = len(order)
    nt = Nt - 1
    data = np.asarray(arr[:])
    cls0 = f"P{'=1' if P_all == 1 else '>=2'} req={req}"
    v.checked("shape")
    if data.shape != (P, nt, nt, P, nt, nt) or arr.getBasisType() != req or arr.getBasisSize() != nt:
        v.fail("shape", cls0, f"installed array shape {data.shape} basis {arr.getBasisType()} size "
               f"{arr.getBasisSize()}, expected {(P, nt, nt, P, nt, nt)} {req} {nt}")
        return False
    if not np.all(np.isfinite(data)):
        v.fail("shape", cls0, "installed array contains non-finite entries")
        return False
    for pa, ia in enumerate(order):
        for pb, ib in enumerate(order):
            N_file, b_file, S = specs[(ia, ib)]
            L = data[pa, :, :, pb, :, :]
            interp = N_file > Nt
            cls = _cls_action(P_all, interp, b_file, req) + cls_suffix
            if sub_prefix == "" and not interp and b_file == req:
                v.checked("stored-bits")
                if not np.array_equal(L, S):
                    v.fail("stored-bits", cls, f"pair ({ia},{ib}): loaded numbers differ from the stored "
                           f"dataset, max diff {np.abs(L - S).max():.3e}")
                    return False
            sub = sub_prefix or ("interp-action" if interp else "basis-action")
            v.checked(sub)
            E, leb = expected_operator(S, N_file, b_file, Nt)
            A = loaded_operator(L, Nt, req)
            bound = action_bound(S, N_file, Nt, leb)
            err = float(np.abs(A - E).max())
            if bound > 0:
                worst[0] = max(worst[0], err / bound)
            if err > bound:
                j = np.unravel_index(np.argmax(np.abs(A - E)), E.shape)
                v.fail(sub, cls,
                       f"pair ({ia},{ib}) of {P} loaded particles (N_s={N_file} -> N_t={Nt}): operator action "
                       f"differs by {err:.3e} (bound {bound:.3e}, scale {np.abs(E).max():.3e}) at "
                       f"(alpha,beta,j,k)={tuple(int(x) for x in j)}",
                       got=float(A[j]), expected=float(E[j]))
                return False
    return True


def check_history(case, v: Verdict):
    import WallGo
    from WallGo.collisionArray import CollisionArray
    from WallGo.exceptions import CollisionLoadError

    names = case["names"]
    P = len(names)
    if len(set(names)) != P:
        raise ValueError("harness error: particle names must be distinct")
    Nt, req = case["Nt"], case["req_basis"]
    grid = _make_grid(case)
    solver = WallGo.BoltzmannSolver(grid, "Cardinal", req)
    solver.updateParticleList(_particles(names))
    v.label(f"P{P}", f"Nt{Nt}", f"req:{req}", f"grid:{case.get('grid')}", f"steps{len(case['steps'])}")
    for a in case.get("avoided", []):
        v.label(f"avoided:{a}")
    if case.get("n_avoided"):
        v.info["n_avoided"] = case["n_avoided"]
    # non-triviality is a property of the case (not of how far its execution got)
    seen_good = False
    for step in case["steps"]:
        if step.get("fault") is None:
            seen_good = True
            if P >= 2 and step["dir"]["Ns"] > Nt:
                v.nontrivial = True
        elif seen_good:
            v.nontrivial = True
    prev_obj, prev_bits, prev_basis = None, None, None
    worst = [0.0]
    tmp = tempfile.mkdtemp(prefix="c14_")
    try:
        for i, step in enumerate(case["steps"]):
            d = step["dir"]
            fault = step.get("fault")
            specs = _file_specs(case, step)
            path = os.path.join(tmp, f"step{i}")
            _write_step(path, case, step, specs)
            outcome, exc = "ok", None
            try:
                solver.loadCollisions(pathlib.Path(path))
            except CollisionLoadError as e:
                outcome, exc = "CollisionLoadError", e
            except AssertionError as e:
                outcome, exc = "AssertionError", e
            except (OSError, KeyError, ValueError, IndexError, TypeError) as e:
                if fault is None:
                    raise
                outcome, exc = type(e).__name__, e
            after_good = prev_obj is not None
            if fault is not None:
                fk = fault["kind"]
                v.label(f"fault:{fk}", f"fault-outcome:{fk}:{outcome}",
                        "fault-after-good" if after_good else "fault-before-any-load")
                cls = f"fault={fk} after_good={after_good}"
                if outcome == "ok":
                    if fk in ("missing", "oversize"):
                        v.checked("fault-raises")
                        v.fail("fault-raises", cls, f"step {i}: load of a directory with fault {fault} "
                               f"(N_s={d['Ns']}, N_t={Nt}) did not raise")
                        return
                    # a mismatching directory was accepted: then it must be complete and right
                    if not _check_array(v, solver.collisionArray, list(range(P)), specs, case, "", worst):
                        return
                    prev_obj = solver.collisionArray
                    prev_bits = np.array(prev_obj[:], copy=True)
                    prev_basis = prev_obj.getBasisType()
                    continue
                v.checked("fault-error-type")
                allowed = ("CollisionLoadError",) if fk in ("missing", "oversize") else (
                    "CollisionLoadError", "AssertionError")
                if outcome not in allowed:
                    v.fail("fault-error-type", f"fault={fk} error={outcome}",
                           f"step {i}: fault {fault} raised {outcome}: {exc}")
                    return
                v.checked("fault-prev-kept")
                cur = solver.collisionArray
                if prev_obj is None:
                    if cur is not None:
                        v.fail("fault-prev-kept", cls, f"step {i}: failed load installed {type(cur).__name__} "
                               "although nothing had been loaded before")
                        return
                else:
                    if cur is not prev_obj:
                        v.fail("fault-prev-kept", cls, f"step {i}: after the failed load ({outcome}) "
                               f"solver.collisionArray is {type(cur).__name__ if cur is not None else None}, "
                               "not the previously loaded object")
                        return
                    bits = np.asarray(cur[:])
                    if bits.shape != prev_bits.shape or not np.array_equal(bits, prev_bits) \
                            or cur.getBasisType() != prev_basis:
                        v.fail("fault-prev-kept", cls, f"step {i}: previously loaded array was modified "
                               "by the failed load")
                        return
                continue
            # ---- good directory --------------------------------------------------------------
            interp = d["Ns"] > Nt
            v.label(f"stored-dtype:{d.get('data_dtype') or 'float64'}")
            v.label("good:interp" if interp else "good:same-size", f"stored:{d['basis']}",
                    f"Ns{d['Ns']}", f"enc:{d['enc']}", f"tensor:{d['tensor']['kind']}",
                    f"good:P{'1' if P == 1 else '>=2'}:{'interp' if interp else 'same'}:"
                    f"{d['basis'][:4]}->{req[:4]}")
            v.checked("load-ok")
            if outcome != "ok":
                v.fail("load-ok", f"{_cls_action(P, interp, d['basis'], req)} error={outcome}",
                       f"step {i}: complete directory (N_s={d['Ns']}, N_t={Nt}) rejected: {outcome}: {exc}")
                return
            arr = solver.collisionArray
            if not _check_array(v, arr, list(range(P)), specs, case, "", worst):
                return
            bits0 = np.array(arr[:], copy=True)
            # independence of the other particles present (sub-lists, permuted)
            for order in step.get("subsets", []):
                v.label(f"subset:{len(order)}of{P}")
                sub_arr = CollisionArray.newFromDirectory(pathlib.Path(path), grid, req, _particles(names, order))
                if not _check_array(v, sub_arr, list(order), specs, case, "independence", worst):
                    return
            # direct basis change on a deep copy
            if step.get("direct_change"):
                v.checked("changeBasis-direct")
                other = "Cardinal" if req == "Chebyshev" else "Chebyshev"
                twin = copy.deepcopy(arr)
                ret = twin.changeBasis(other)
                case2 = dict(case, req_basis=other)
                if ret is not twin or twin.getBasisType() != other:
                    v.fail("changeBasis-direct", f"P{'=1' if P == 1 else '>=2'} {req}->{other}",
                           "changeBasis did not return the modified object in the new basis")
                    return
                # the copy must act like the loaded one (same expected operator, twice the rounding)
                if not _check_array(v, twin, list(range(P)), specs, case2, "changeBasis-direct", worst):
                    return
                if not np.array_equal(np.asarray(arr[:]), bits0):
                    v.fail("changeBasis-direct", f"P{'=1' if P == 1 else '>=2'} {req}->{other}",
                           "changing the basis of a deep copy modified the installed array")
                    return
            # direct call of interpolateCollisionArray on the installed array (source must stay intact,
            # result in the source's basis, acting like the interpolant of the installed operator)
            N2 = step.get("direct_interp")
            if N2:
                v.checked("interp-direct-source")
                v.label(f"direct-interp:P{'=1' if P == 1 else '>=2'}")
                cls = f"P{'=1' if P == 1 else '>=2'} direct {req}"
                grid2 = _make_grid(dict(case, Nt=N2))
                res = CollisionArray.interpolateCollisionArray(arr, grid2)
                if not np.array_equal(np.asarray(arr[:]), bits0) or arr.getBasisType() != req \
                        or arr.polynomialData.basis[4:] != (req, req):
                    v.fail("interp-direct-source", cls, "interpolateCollisionArray modified its source array")
                    return
                specs2 = {(ia, ib): (Nt, req, bits0[ia, :, :, ib, :, :]) for ia in range(P) for ib in range(P)}
                if not _check_array(v, res, list(range(P)), specs2, dict(case, Nt=N2), "interp-action", worst,
                                    cls_suffix=" direct"):
                    return
            prev_obj, prev_bits, prev_basis = arr, bits0, arr.getBasisType()
    finally:
        shutil.rmtree(tmp, ignore_errors=True)
        v.info["max_err_over_bound"] = worst[0]


def check_case(case) -> Verdict:
    v = Verdict()
    if case.get("kind") != "history":
        raise ValueError(case.get("kind"))
    check_history(case, v)
    return v
