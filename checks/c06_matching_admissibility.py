"""C06 - matching solutions are physically admissible and correctly classified.

Sub-oracles (K = 10; rtol, atol are the tolerances given to the solver)
  range          every returned matching has 0 < v+- < 1 and T+- > 0
  branch         which family a wall velocity belongs to is decided by the INDEPENDENT Chapman-Jouguet
                 velocity (vlib.refhydro): vw > vJ_ref + margin must come back as a detonation (v+ == vw),
                 vw < vJ_ref - margin must not; margin = K(atol + rtol vJ)
  deflag         v- == vw (to 2 ulp), vw <= c_b(T-) of the EOS object, v+ < v-, T+ > Tn.  A strict
                 inequality that fails on the raw numbers is re-judged with the backward bound (an exact
                 solution with the inequality satisfied must lie inside the solver's tolerance box,
                 slopes along the family of exact junctions measured by the reference matcher)
  hybrid         |v- - c_b(T-)| <= 1e-8 with c_b from the EOS object at the returned T-, and v- < vw
                 (v+ < v- is NOT demanded of hybrids: the property does not state it, and with c_s > c_b exact
                 hybrids close to vJ have v+ = c_s^2/vw > c_b)
  deton          v+ == vw and T+ == Tn exactly, v- < v+, v- >= c_b(T-) - eps (weak branch; eps = image of
                 the T- tolerance window under the junction relation and c_b)
  jouguet-cj     vJ of the solver equals the Chapman-Jouguet point computed twice independently
                 (v- = c_b on the momentum line; minimum over T- of the detonation v+(T-)), within the image of
                 the solver's T- tolerance window under v+(T-) (quadratic at the minimum) + 1e-11
  jouguet-deton  matchDeton(vJ(1+d)), d in {1e-6, 1e-4}: |v- - c_b(T-)| <= 2 x the exact (reference) value
                 of that gap (~ C sqrt(d), C computed not guessed) + eps; and it is the weak root
  jouguet-flip   findMatching(vJ(1-d)) is a hybrid, findMatching(vJ(1+d)) a detonation (both admissible)
  cut-fastest    a phase's maxPossibleTemperature is set to T-(v*) or T+(v*) computed by the reference for a
                 v* strictly inside the deflagration/hybrid window: fastestDeflag() == v* within
                 K(atol + rtol v*) + (temperature tolerance)/(|dT/dvw| measured by the reference)
  cut-flag       doesPhaseTraceLimitvmax is True exactly for the phase whose range was reached when that end
                 is not flagged genuine, False when it is
  cut-slower     16 slower walls all have T- <= TMaxLowT and T+ <= TMaxHighT (and are admissible)
  cut-slowest    range of the low-T phase reached at a detonation v*: slowestDeton() == v* + 0.01 (documented)
  slowest-all-beyond / slowest-high-narrow
                 the two phases have different tabulated ranges: low-T range ends below T-(vw=1) -> 1 (documented);
                 only the high-T range ends below T-(vw=1) (above Tn) -> vJ, as without a cut
                 within the same kind of bound; faster walls up to 0.99 have T- inside the range
  nocut          no cut inside the window: fastestDeflag() == vJ and slowestDeton() == vJ
Both WallGo.Hydrodynamics (all EOS families) and WallGo.HydrodynamicsTemplateModel (template-form EOS; it has
no fastestDeflag/slowestDeton) are checked.  WallGoError / a tuple of None are outcomes (labels).

A strict inequality (v+ < v-, T+ > Tn, v- < v+) that the EXACT solution of the reference violates itself is only
labelled (exact-solution-violates:*): e.g. alpha_n ~ 1e-4 with different sound speeds has detonations with v- > v+.
Discards (counted): cut:ill-conditioned (the tolerances resolve the velocity at which the constructed range end is
reached worse than 0.005: weak transitions x slow walls, all slower walls within rtol of the cut), cut:non-monotone
(an earlier crossing exists in the reference too), reference:* (the reference failed).
Confirmed defects are steered around by the AVOID switches below (labels avoided:*; the known_*.json replays carry
"force": true and are always evaluated; VERIF_NO_AVOID=1 switches the steering off, e.g. on a patched tree).
"""
from __future__ import annotations

import math
import os

import numpy as np

from hypothesis import strategies as st

from vlib import refhydro as R
from vlib import zoo_eos as Z
from vlib.core import Verdict

PROPERTY_ID = "C06"
ENGINE = "hypothesis @given over (EOS zoo x Tn x tolerances x velocity class x tabulated ranges); independent CJ point and reference matcher"
RULE = (
    "Case kinds: (matching) EOS spec (bag / template / two-step / cubic / traced; Tn over five decades) x solver "
    "tolerances x solver {Hydrodynamics, HydrodynamicsTemplateModel} x wall velocity from classes with explicit "
    "mass at v_min, c_b +- 1e-6..1e-3, v_J - 1e-6..1e-2, v_J + 1e-4..1e-2, 0.99 and the branch interiors; "
    "(jouguet) EOS x tolerances x solver; (cut) EOS x tolerances x {low, high, both, none} phase x v* placed "
    "strictly inside the deflagration/hybrid window or the detonation window x genuine-end flag x "
    "extrapolation on/off, the cut temperature computed by the reference matcher (constructed, not searched). "
    "Non-trivial = a returned matching on a labelled branch (matching, jouguet); for cuts, a cut at least 0.01 "
    "from both ends of the window for which the solver returned a number. Distinct by canonical JSON of the case."
)
BUDGET = {
    "quick": {"cases": 3000, "shrink": True, "time_cap_s": 900},
    "thorough": {"cases": 50000, "shrink": True, "time_cap_s": 3300},
}
K = 10.0
ULP2 = 4.5e-16
HYB_ABS = 1e-8
VJ_FLOOR = 1e-11
CUT_MARGIN = 0.01
DETON_SHIFT = 0.01
ILL_COND_V = 0.005   # a constructed cut whose velocity the tolerances resolve worse than this is discarded
# Confirmed defects of the unchanged tree steered around while the switch is True (VERIF_NO_AVOID=1 disables; a case
# carrying "force": true - the known_*.json replays - is always evaluated)
AVOID = {
    # fastestDeflag() brackets its root search with findMatching(vMin + 1e-3).  There findMatching is unreliable:
    # (i) the exact v+ is below findMatching's own lower bracket end vBracketLow = 1e-3 (alpha_n >~ 0.17, and
    # generally next to vMin > 1e-3), (ii) slow walls (vw <~ 0.015): the acceptance test sum(fun^2) < 1e-6 of the
    # inner 2x2 solve is vacuous when v^2 ~ 1e-5, a non-solution is used.  Result: a tuple of None (-> TypeError
    # 'NoneType' - 'float') or temperatures that already exceed the range (-> ValueError -> vJ returned, cut missed).
    # While True, cut cases whose bracket-end matching is None or not the exact one are labelled and skipped.
    "fastest_bracket_end": True,
    # Same root cause (ii), seen through the scans of the cut kind: findMatching returns non-solutions for ~10 % of
    # slow walls, vw < 0.1 (flux residual ~1e-2; C02 finding F1a).  While True the scans of slower walls start at vw = 0.1;
    # slow walls remain in the matching kind, where the failing classes are .../deflagration/vw<0.01|vw<0.1.
    "slow_walls_in_scans": True,
    # fastestDeflag() assumes T+(vw) monotone: it looks for a sign change of T+(vw) - TMaxHighT between vMin + 1e-3
    # and vJ - 1e-3 (and returns vJ at once if T(vJ - 1e-3) is inside the ranges).  T+ of hybrids falls again
    # towards vJ (the shock becomes thin), so a range end with T+(vJ - 1e-3) < TMaxHighT < max T+ is exceeded on an
    # interval of velocities that the search does not see: the cut is missed.  While True such cuts are skipped.
    "fastest_reentrant": True,
}
if os.environ.get("VERIF_NO_AVOID"):
    AVOID = {k: False for k in AVOID}
TOLERANCES = {
    "K": K,
    "vm_equals_vw": "2 ulp (sqrt(vw^2) is exact in IEEE arithmetic)",
    "hybrid_vm_cb_abs": HYB_ABS,
    "branch_margin": "K(atol + rtol vJ_ref) around the reference CJ velocity",
    "strict_inequalities": "raw numbers; on failure re-judged with dvp <= K(atol+rtol vp) + K rtol Tn/|dTn'/dvp|, "
                           "dT <= |dT/dvp| dvp + K(atol + rtol T) (reference slopes)",
    "deton_eps": "max over T- +- b of |h(T) - h(T-)| + |c_b(T) - c_b(T-)| + 1e-13, b = K(atol + rtol T-), h = junction v-(T-) "
                 "in the momentum form and in the ratio form WallGo evaluates",
    "vJ": "max |v+(TmJ(1 +- K rtol) +- K atol) - vJ_ref| + 1e-11 (closed form evaluated in double precision; measured "
          "max difference on the unchanged tree is in info.vJ_diff)",
    "jouguet_deton": "2 x reference gap + deton_eps",
    "cut": "K(atol + rtol v*) + [K(atol + rtol T) + |dT/dvp| dvp_allow]/|dT/dvw|; +0.01 documented for slowestDeton",
    "cut_margin": CUT_MARGIN,
    "cut_ill_conditioned": ILL_COND_V,
    "avoid_switches": {k: bool(x) for k, x in AVOID.items()},
}
ASSUMPTIONS = [
    "c_b(T-) is the EOS object's own csqLowT at the returned T- (frozen at the ends of the tabulated range, as "
    "WallGo.Thermodynamics does).",
    "vw == v_min exactly (template solver: the limiting solution v+ = 0, T- = 0) is kept as its own input class "
    "'at-vMin'; the property's window is read as closed at v_min because EOM uses hydrodynamics.vMin as the lower "
    "end of its pressure bracket.",
    "Cuts are placed at least 0.01 from v_min and v_J (DESIGN C06 non-triviality rule): fastestDeflag only looks in "
    "[vMin + 1e-3, vJ - 1e-3] by documented construction.",
    "Temperatures along the deflagration/hybrid family are assumed monotone in vw between scan points; if a slower "
    "wall exceeds the cut temperature in the reference as well, the case is discarded (cut:non-monotone).",
    "When the general solver falls back to the template model's matching on a non-template EOS the result is "
    "judged like any other returned matching (class suffix /fallback).",
]
EXHAUSTIVE_SUBDOMAINS = []

VCLASSES = ["vmin", "vmin+", "defl", "defl", "cb-", "cb+", "hyb", "hyb", "vJ-", "vJ-", "vJ+", "vJ+", "det", "det", "v099"]
FAMILY_WEIGHTS = {"quick": {"bag": 6, "template": 8, "twostep": 8, "cubic": 6, "traced": 1},
                  "thorough": {"bag": 3, "template": 4, "twostep": 4, "cubic": 3, "traced": 2}}
CUT_FAMILIES = ("bag", "template", "twostep", "cubic")
DELTAS = (1e-6, 1e-4)


# ---------------------------------------------------------------------------------------------
# strategy
# ---------------------------------------------------------------------------------------------
@st.composite
def st_solver(draw, spec, p=4):
    if spec["family"] in ("bag", "template") and draw(st.integers(0, p - 1)) == 0:
        return "template"
    return "general"


def st_warm(solver):
    """What was asked of the solver object before: nothing (mostly), its LTE velocity, or (template) maxAl."""
    if solver == "template":
        return st.sampled_from([None, None, "lte", "maxal"])
    return st.sampled_from([None, None, None, None, None, "lte", "maxal"])


@st.composite
def st_matching(draw, tier):
    spec = draw(Z.st_eos(families=Z.FAMILIES, weights=FAMILY_WEIGHTS[tier], twostep_variants=("plain", "plain", "strongT")))
    tol = draw(Z.st_tolerances())
    if draw(st.integers(0, 5)) == 0:
        # a user-chosen absolute tolerance that is not negligible against the temperatures / energy densities of
        # the model's units (the allowances scale with it)
        tol = [1e-6, 1e-6]
    if spec["family"] == "traced" and tier == "quick":
        tol = [1e-6, 1e-10]
    solver = draw(st_solver(spec))
    return {"kind": "matching", "eos": spec, "tol": tol, "solver": solver, "warm": draw(st_warm(solver)),
            "vclass": draw(st.sampled_from(VCLASSES)), "u": draw(st.floats(0.0, 1.0))}


@st.composite
def st_jouguet(draw, tier):
    spec = draw(Z.st_eos(families=Z.ANALYTIC_FAMILIES if tier == "quick" else Z.FAMILIES,
                         weights=None if tier == "quick" else FAMILY_WEIGHTS[tier], twostep_variants=("plain", "plain", "strongT")))
    solver = draw(st_solver(spec, 3))
    return {"kind": "jouguet", "eos": spec, "tol": draw(Z.st_tolerances()), "solver": solver, "warm": draw(st_warm(solver))}


@st.composite
def st_cut(draw, tier):
    spec = draw(Z.st_eos(families=CUT_FAMILIES, weights={"bag": 2, "template": 3, "twostep": 3, "cubic": 2}))
    side = draw(st.sampled_from(["deflag", "deflag", "deflag", "deton", "deton", "none"]))
    phase = "low" if side == "deton" else draw(st.sampled_from(["low", "high", "both", "both"])) if side == "deflag" else "none"
    return {"kind": "cut", "eos": spec, "tol": draw(Z.st_tolerances()), "side": side, "phase": phase,
            "u": draw(st.floats(0.0, 1.0)), "u2": draw(st.floats(0.0, 1.0)),
            "genuine": draw(st.booleans()), "extrapolate": draw(st.booleans())}


@st.composite
def st_case(draw, tier):
    k = draw(st.integers(0, 19))   # explicit weights: 13 matching : 2 jouguet : 5 cut
    if k < 13:
        return draw(st_matching(tier))
    if k < 15:
        return draw(st_jouguet(tier))
    return draw(st_cut(tier))


def strategy(tier):
    return st_case(tier)


# ---------------------------------------------------------------------------------------------
# helpers
# ---------------------------------------------------------------------------------------------
def _is_num(x):
    try:
        return x is not None and math.isfinite(float(x))
    except (TypeError, ValueError):
        return False


def box(T, rtol, atol):
    return K * (atol + rtol * abs(T))


class Ctx:
    """Everything the predicates need about one (EOS, tolerances, solver)."""

    def __init__(self, th, meta, rtol, atol, solver):
        self.th, self.meta, self.rtol, self.atol, self.solver = th, meta, rtol, atol, solver
        self.Tn = meta["Tn"]
        self.fam = meta["family"]
        self.eos = R.Eos(th, meta["T_valid"][0])
        self._vJ = "unset"
        self._vJ_why = None
        self.fallback = {"n": 0}
        self.hyd = None
        self.warm = None

    def vJ_ref(self):
        """(vJ, TmJ) of the reference, cross-checked by the independent minimisation; None if unavailable."""
        if self._vJ == "unset":
            try:
                a = R.chapman_jouguet(self.eos, self.Tn)
                b = R.jouguet_by_minimisation(self.eos, self.Tn)
                self._vJ = a if abs(a[0] - b[0]) <= 1e-9 else None
                self._vJ_why = None if self._vJ else f"vJ-inconsistent:{a[0]:.12g}/{b[0]:.12g}"
            except R.RefFailure as exc:
                self._vJ, self._vJ_why = None, str(exc).split(":")[0]
        return self._vJ

    def make_solver(self):
        if self.solver == "general":
            hyd = Z.build_hydro(self.th, self.rtol, self.atol)
            orig = hyd.template.findMatching

            def counted(vwT, _orig=orig):
                self.fallback["n"] += 1
                return _orig(vwT)

            hyd.template.findMatching = counted
            self.hyd = hyd
            self._warm_up(hyd)
            self.fallback["n"] = 0
            return hyd, hyd.vMin, math.sqrt(float(self.th.csqLowT(self.Tn))), hyd.vJ
        tm = Z.build_template(self.th, self.rtol, self.atol)
        self._warm_up(tm)
        return tm, tm.vMin, float(tm.cb), tm.vJ

    def _warm_up(self, solver):
        """Call history on the solver object: the LTE velocity (which scans other transition strengths internally)
        or the strongest transition is asked for BEFORE the matching / vJ / window are (as WallGoManager does).
        The object's answers afterwards are judged exactly as those of a fresh object."""
        from WallGo import WallGoError

        try:
            if self.warm == "lte":
                solver.findvwLTE()
            elif self.warm == "maxal":
                getattr(solver, "template", solver).maxAl(100.0)
        except (WallGoError, ValueError, TypeError):
            pass


def setup(case, v, spec=None):
    """-> Ctx or None (verdict already labelled/discarded)."""
    spec = spec or case["eos"]
    rtol, atol = (float(x) for x in case["tol"])
    try:
        th, meta = Z.build(spec)
    except Z.ZooError as exc:
        if spec["family"] != "traced":
            raise
        v.label("zoo:traced-unhealthy")
        v.info["zoo_error"] = str(exc)[:200]
        v.discarded("zoo:traced-unhealthy")
        return None
    ctx = Ctx(th, meta, rtol, atol, case.get("solver", "general"))
    ctx.warm = case.get("warm")
    if ctx.warm:
        v.label(f"warm:{ctx.solver}:{ctx.warm}")
    return ctx


def ref_allow(ctx, vw, vp):
    """Tolerance box around the exact deflagration/hybrid matching at vw (reference slopes), or (None, why)."""
    try:
        ref = R.match_deflag(ctx.eos, ctx.Tn, vw, hint_vp=vp if 0 < vp < vw else None)
    except R.RefFailure as exc:
        return None, str(exc).split(":")[0]
    if not ref.ok:
        return None, (ref.reason or "?").split(":")[0]
    if ref.dTn_dvp is None or not abs(ref.dTn_dvp) > 0:
        return None, "no-slopes"
    dvp = K * (ctx.atol + ctx.rtol * ref.vp) + K * ctx.rtol * ctx.Tn / abs(ref.dTn_dvp)
    return {"vp": dvp, "Tp": abs(ref.dTp_dvp) * dvp + box(ref.Tp, ctx.rtol, ctx.atol),
            "Tm": abs(ref.dTm_dvp) * dvp + box(ref.Tm, ctx.rtol, ctx.atol), "ref": ref}, None


def deton_eps(ctx, vw, Tm):
    """Image of the T- tolerance window under the junction relations v-(T-) (both the momentum form and the
    ratio form sqrt(v+v- / (v+/v-)) that WallGo evaluates: they agree on exact solutions but have different
    sensitivities off them) and under c_b(T-)."""
    eos, Tn = ctx.eos, ctx.Tn
    Fn = eos.ws(Tn) * R.g2(vw) * vw
    psn = eos.ps(Tn)

    def h(T):
        return vw + (psn - eos.pb(T)) / Fn

    b = box(Tm, ctx.rtol, ctx.atol)
    out = 1e-13
    try:
        for T in (max(Tm - b, 1e-300), Tm + b):
            e = abs(h(T) - h(Tm)) + abs(math.sqrt(eos.cb2(T)) - math.sqrt(eos.cb2(Tm)))
            r0, r1 = R.deton_vm(eos, Tn, Tm), R.deton_vm(eos, Tn, T)
            if r0 == r0 and r1 == r1:
                e = max(e, abs(r1 - r0) + abs(math.sqrt(eos.cb2(T)) - math.sqrt(eos.cb2(Tm))))
            out = max(out, e + 1e-13)
        return out
    except (ValueError, ZeroDivisionError):
        return float("inf")


speed_bucket = Z.speed_bucket   # same buckets as C02/C03 so that class strings line up


def judge_matching(v, ctx, vw, res, cls0, want=None, sub_prefix=""):
    """Admissibility and classification of one returned matching.  Returns the branch label or None.
    `want`: branch demanded by the caller (jouguet-flip), else decided from the reference vJ."""
    eos, Tn, rtol, atol = ctx.eos, ctx.Tn, ctx.rtol, ctx.atol
    if not all(_is_num(x) for x in res):
        v.fail(sub_prefix + "range", cls0, f"non-finite matching {res!r} at vw={vw:.8g}")
        return None
    vp, vm, Tp, Tm = (float(x) for x in res)
    branch = Z.branch_of(vw, vp, vm)
    fb = "/fallback" if ctx.fallback["n"] > 0 else ""
    if fb and ctx.hyd is not None and "/at-vMin" not in cls0:
        # the listed finding C06-fallback-hybrid-nontemplate is the fallback taken within the solver's tolerance of vJ
        # (where the branch is not defined to that accuracy); a fallback further below vJ is a different input
        if ctx.hyd.vJ - vw > K * (atol + rtol * ctx.hyd.vJ) + 2e-6:
            fb = "/fallback-below-vJ"
    if ctx.solver == "general" and branch != "detonation" and ctx.hyd is not None and not ctx.hyd.success:
        fb += "/unconverged-flag"  # the inner 2x2 solve (scipy hybr) did not converge and the result was used anyway
        v.label("hybr-unconverged-flag")
    cls = f"{cls0}/{branch}/{speed_bucket(vw)}{fb}"
    v.checked(sub_prefix + "range")
    if ctx.solver == "template" and "/at-vMin" in cls0 and (vp == 0.0 or Tm == 0.0):
        # exactly at the template model's v_min the exact solution is the limiting one (v+ = 0, T- = 0)
        v.label("outcome:degenerate-at-vMin")
        return None
    if not (0.0 < vp < 1.0 and 0.0 < vm < 1.0 and Tp > 0.0 and Tm > 0.0):
        v.fail(sub_prefix + "range", cls,
               f"returned matching is not admissible: (v+, v-, T+, T-) = ({vp:.6g}, {vm:.6g}, {Tp:.6g}, {Tm:.6g}) "
               f"at vw={vw:.8g}", vw=vw, matching=[vp, vm, Tp, Tm])
        return branch
    cb = math.sqrt(eos.cb2(Tm))
    v.info.setdefault("cb_Tm", cb)

    # ---- which family must this velocity belong to -----------------------------------------
    ref = ctx.vJ_ref()
    if want is None and ref is not None:
        vJr = ref[0]
        margin = K * (atol + rtol * vJr) + 1e-12
        v.checked("branch")
        if vw > vJr + margin and branch != "detonation":
            v.fail("branch", cls + "/above-vJ",
                   f"vw={vw:.10g} is above the Chapman-Jouguet velocity {vJr:.10g} (margin {margin:.1e}) but the "
                   f"returned matching is a {branch}", vw=vw, vJ_ref=vJr, matching=[vp, vm, Tp, Tm])
        elif vw < vJr - margin and branch == "detonation":
            v.fail("branch", cls + "/below-vJ",
                   f"vw={vw:.10g} is below the Chapman-Jouguet velocity {vJr:.10g} (margin {margin:.1e}) but the "
                   f"returned matching is a detonation", vw=vw, vJ_ref=vJr, matching=[vp, vm, Tp, Tm])
        elif abs(vw - vJr) <= margin:
            v.label("vJ-margin")
    elif want is None:
        v.label(f"ref-vJ:{ctx._vJ_why}")
    if want is not None:
        v.checked("jouguet-flip")
        if branch != want:
            v.fail("jouguet-flip", cls, f"findMatching at vw={vw:.12g} returned a {branch}, expected a {want}",
                   vw=vw, matching=[vp, vm, Tp, Tm])

    # ---- per-branch predicates --------------------------------------------------------------------
    if branch == "detonation":
        sub = sub_prefix + "deton"
        v.checked(sub)
        if Tp != Tn:
            v.fail(sub, cls, f"detonation with T+ != Tn: T+/Tn - 1 = {Tp / Tn - 1:.3e}", vw=vw)
        if not vm < vp:
            refd = R.detonation(eos, Tn, vw)
            if not refd.ok:
                v.label(f"ref:{refd.reason}")
                if refd.reason not in R.NO_SOLUTION_REASONS:
                    v.discarded(f"reference:{(refd.reason or '?').split(':')[0]}")
            elif not refd.vm < refd.vp:
                v.label("exact-solution-violates:vm<vp")
            elif vm - vp > deton_eps(ctx, vw, Tm):
                v.fail(sub, cls, f"detonation with v- >= v+: v-={vm:.12g}, v+={vp:.12g} (exact v-={refd.vm:.12g})",
                       vw=vw, matching=[vp, vm, Tp, Tm])
        eps = deton_eps(ctx, vw, Tm)
        v.info["deton_vm_minus_cb"] = vm - cb
        if not vm >= cb - eps:
            v.fail(sub, cls + "/strong",
                   f"detonation on the strong branch: v-={vm:.10g} < c_b(T-)={cb:.10g} (allowed slack {eps:.2e}) "
                   f"at vw={vw:.10g}", vw=vw, matching=[vp, vm, Tp, Tm], cb=cb)
        return branch

    allow = {}

    def allowance():
        if "a" not in allow:
            allow["a"], allow["why"] = ref_allow(ctx, vw, vp)
        return allow["a"]

    def strict(sub, name, lhs, rhs, slack_key, text, exact):
        """lhs < rhs on the raw numbers; else the exact solution (reference) arbitrates: if it violates the
        inequality itself the EOS, not the solver, is the reason (label only); otherwise the returned numbers
        must satisfy it within the backward bound."""
        if lhs < rhs:
            return
        a = allowance()
        if a is None:
            v.label(f"ref:{allow['why']}")
            if allow["why"] not in R.NO_SOLUTION_REASONS:
                v.discarded(f"reference:{allow['why']}")
            return
        el, er = exact(a["ref"])
        if not el < er:
            v.label(f"exact-solution-violates:{name}")
            return
        nonlocal cls
        if a["ref"].vp < 1e-3 and "/vp<1e-3" not in cls:
            cls += "/vp<1e-3"   # the exact v+ lies below findMatching's own lower bracket end vBracketLow
        slack = sum(a[k] for k in slack_key)
        v.info[f"slack_{name}"] = [lhs - rhs, slack]
        v.label(f"inequality-within-tolerance:{name}")
        if lhs - rhs > slack:
            v.fail(sub, cls, f"{text}: {lhs:.12g} vs {rhs:.12g} at vw={vw:.10g} (excess {lhs - rhs:.3e}, "
                             f"tolerance-propagated slack {slack:.3e}; exact solution has {el:.12g} < {er:.12g})",
                   vw=vw, matching=[vp, vm, Tp, Tm], exact=list(a["ref"].tuple()))

    if branch == "deflagration":
        sub = sub_prefix + "deflag"
        v.checked(sub)
        if abs(vm - vw) > ULP2:
            v.fail(sub, cls, f"deflagration with v- != vw: {vm!r} vs {vw!r}")
        if vw > cb * (1.0 + HYB_ABS):
            v.fail(sub, cls + "/supersonic",
                   f"v- = vw = {vw:.10g} exceeds the sound speed behind the wall c_b(T-) = {cb:.10g}",
                   vw=vw, matching=[vp, vm, Tp, Tm], cb=cb)
        strict(sub, "vp<vm", vp, vm, ("vp",), "deflagration with v+ >= v-", lambda r: (r.vp, r.vm))
        strict(sub, "Tp>Tn", Tn, Tp, ("Tp",), "deflagration with T+ <= Tn", lambda r: (Tn, r.Tp))
    else:
        sub = sub_prefix + "hybrid"
        v.checked(sub)
        v.info["hybrid_vm_minus_cb"] = vm - cb
        if abs(vm - cb) > HYB_ABS:
            v.fail(sub, cls, f"hybrid with v- = {vm:.12g} != c_b(T-) = {cb:.12g} (EOS object at the returned "
                             f"T- = {Tm:.8g}); difference {vm - cb:.3e}", vw=vw, matching=[vp, vm, Tp, Tm], cb=cb)
        if not vm < vw:
            v.fail(sub, cls, f"hybrid with v- = {vm:.12g} >= vw = {vw:.12g}")
    return branch


def run_matching(v, ctx, hyd, vw, cls0, want=None):
    """findMatching with outcome labels; returns (branch, res) or (None, None)."""
    from WallGo import WallGoError

    ctx.fallback["n"] = 0
    try:
        res = hyd.findMatching(vw)
    except WallGoError as exc:
        v.label("outcome:WallGoError")
        v.info.setdefault("error", str(exc)[:160])
        return None, None
    if any(x is None for x in res):
        v.label("outcome:none")
        return None, None
    if ctx.fallback["n"] > 0:
        v.label("template-fallback-taken")
    br = judge_matching(v, ctx, vw, res, cls0, want=want)
    if br:
        v.label(f"branch:{br}", "outcome:matching")
    return br, tuple(float(x) for x in res)


# ---------------------------------------------------------------------------------------------
# case kinds
# ---------------------------------------------------------------------------------------------
def check_matching(case, v):
    from WallGo import WallGoError

    ctx = setup(case, v)
    if ctx is None:
        return v
    try:
        hyd, vmin, cb, vJ = ctx.make_solver()
    except WallGoError as exc:
        v.label("outcome:init-WallGoError")
        v.info["init_error"] = str(exc)[:200]
        return v
    vw = Z.velocity(case["vclass"], case["u"], vmin, cb, vJ)
    v.info.update(vw=vw, vMin=vmin, cb=cb, vJ=vJ, alN=ctx.meta["alN"], psiN=ctx.meta["psiN"])
    v.label("alpha>1/3" if ctx.meta["alN"] > 1.0 / 3.0 else "alpha<1/3", "speed:" + speed_bucket(vw))
    at_vmin = vw == max(vmin, 1e-3)
    cls0 = f"{ctx.solver}/{ctx.fam}" + ("/at-vMin" if at_vmin else "")
    br, res = run_matching(v, ctx, hyd, vw, cls0)
    if br:
        v.info["matching"] = list(res)
        v.nontrivial = True
    return v


def check_jouguet(case, v):
    from WallGo import WallGoError

    ctx = setup(case, v)
    if ctx is None:
        return v
    eos, Tn, rtol, atol = ctx.eos, ctx.Tn, ctx.rtol, ctx.atol
    try:
        hyd, vmin, cb, vJ = ctx.make_solver()
    except WallGoError as exc:
        v.label("outcome:init-WallGoError")
        v.info["init_error"] = str(exc)[:200]
        return v
    cls0 = f"{ctx.solver}/{ctx.fam}"
    v.info.update(vJ=vJ, alN=ctx.meta["alN"])
    ref = ctx.vJ_ref()
    if ref is None:
        v.label(f"ref-vJ:{ctx._vJ_why}")
        return v.discarded(f"reference:{ctx._vJ_why}")
    vJr, TmJ = ref
    # (i) the Chapman-Jouguet point
    v.checked("jouguet-cj")
    w = box(TmJ, rtol, atol)
    dev = [abs(R.deton_vp(eos, Tn, T) - vJr) for T in (TmJ - w, TmJ + w)]
    allowed = max(d for d in dev if d == d) + VJ_FLOOR if any(d == d for d in dev) else VJ_FLOOR
    v.info.update(vJ_ref=vJr, vJ_diff=vJ - vJr, vJ_allowed=allowed)
    if not abs(vJ - vJr) <= allowed:
        v.fail("jouguet-cj", cls0,
               f"vJ = {vJ:.12g} but the Chapman-Jouguet velocity is {vJr:.12g} (difference {vJ - vJr:.3e}, "
               f"allowed {allowed:.2e}; T-J = {TmJ:.8g})", vJ=vJ, vJ_ref=vJr)
        return v
    v.nontrivial = True
    # (ii) detonations just above vJ; (iii) classification flips
    for d in DELTAS:
        vw = vJ * (1.0 + d)
        if vw >= 1.0:
            continue
        tag = f"d={d:g}"
        try:
            res = hyd.matchDeton(vw) if ctx.solver == "general" else hyd.findMatching(vw)
        except WallGoError as exc:
            v.label(f"outcome:matchDeton-WallGoError:{tag}")
            v.info.setdefault("error", str(exc)[:160])
            res = None
        if res is not None and all(_is_num(x) for x in res):
            vp, vm, Tp, Tm = (float(x) for x in res)
            refd = R.detonation(eos, Tn, vw)
            if refd.ok and 0 < vm < 1 and Tm > 0:
                v.checked("jouguet-deton")
                gap_ref = abs(refd.vm - math.sqrt(eos.cb2(refd.Tm)))
                gap = abs(vm - math.sqrt(eos.cb2(Tm)))
                eps = deton_eps(ctx, vw, Tm)
                v.info[f"cj_gap_over_ref:{tag}"] = gap / gap_ref if gap_ref > 0 else None
                if not gap <= 2.0 * gap_ref + eps:
                    v.fail("jouguet-deton", f"{cls0}/{tag}",
                           f"detonation at vJ(1+{d:g}): |v- - c_b(T-)| = {gap:.3e}, the exact weak detonation has "
                           f"{gap_ref:.3e} (allowed 2x + {eps:.1e}); v-={vm:.10g}, T-={Tm:.8g} vs exact "
                           f"v-={refd.vm:.10g}, T-={refd.Tm:.8g}", vw=vw, returned=[vp, vm, Tp, Tm],
                           reference=[refd.vp, refd.vm, refd.Tp, refd.Tm])
            else:
                v.label(f"ref-deton:{refd.reason}:{tag}")
            judge_matching(v, ctx, vw, res, f"{cls0}/{tag}/matchDeton", want="detonation")
        # (iii)
        br_hi, _ = run_matching(v, ctx, hyd, vw, f"{cls0}/{tag}/above", want="detonation")
        vlo = vJ * (1.0 - d)
        if vlo > max(vmin, 1e-3):
            br_lo, _ = run_matching(v, ctx, hyd, vlo, f"{cls0}/{tag}/below", want="hybrid")
    return v


def _ranges(meta, low_hi=None, high_hi=None, genuine=False, extrapolate=False):
    """Tabulated ranges (units of Tn) with the upper ends replaced; the cubic family keeps its own lower end."""
    Tn = meta["Tn"]
    low = list(Z.WIDE)
    high = list(Z.WIDE)
    gen = [[False, False], [False, False]]
    if meta["family"] == "cubic":
        lo, hi = meta["T_valid"]
        low = [lo / Tn, hi / Tn]
        gen[1][1] = True
        extrapolate = True  # the broken phase ends at a spinodal: it must be continued like a traced phase
    if low_hi is not None:
        if low_hi >= low[1]:
            return None  # the natural end of the phase comes first
        low[1] = low_hi
        gen[1][1] = bool(genuine)
    if high_hi is not None:
        high[1] = high_hi
        gen[0][1] = bool(genuine)
    return {"high": high, "low": low, "genuine": gen, "extrapolate": bool(extrapolate)}


def _scan(v, ctx, hyd, vw, cls):
    """One wall of a scan: matching judged like any other (violations kept, labels dropped)."""
    sub = Verdict()
    br, res = run_matching(sub, ctx, hyd, vw, cls)
    v.violations.extend(sub.violations)
    v.subs_checked.extend(sub.subs_checked)
    if sub.discard and not v.discard:
        v.discarded(sub.discard)
    # classes under which this very wall's matching was already judged wrong (used to classify consequences)
    _scan.last_bad = [x["cls"] for x in sub.violations]
    return res


def _deflag_family_slopes(eos, Tn, vx, m, pick):
    """|dT/dvw| of the exact family at vx (central difference of the reference) for T = pick(matching)."""
    h = 1e-4 * vx
    ma = R.match_deflag(eos, Tn, vx - h, hint_vp=m.vp * (1 - 1e-4))
    mb = R.match_deflag(eos, Tn, vx + h, hint_vp=m.vp * (1 + 1e-4))
    if not (ma.ok and mb.ok):
        return None
    return abs(pick(mb) - pick(ma)) / (2 * h)


def check_cut(case, v):
    from WallGo import WallGoError

    case = dict(case, solver="general")
    ctx0 = setup(case, v)
    if ctx0 is None:
        return v
    eos, Tn, rtol, atol = ctx0.eos, ctx0.Tn, ctx0.rtol, ctx0.atol
    spec, meta = case["eos"], ctx0.meta
    side, phase = case["side"], case["phase"]
    v.label(f"cut-side:{side}", f"cut-phase:{phase}", f"genuine:{case['genuine']}", f"extrapolate:{case['extrapolate']}")
    try:
        hyd0, vmin, cb, vJ = ctx0.make_solver()
    except WallGoError as exc:
        v.label("outcome:init-WallGoError")
        v.info["init_error"] = str(exc)[:200]
        return v
    strong = vmin > 1e-3
    cls0 = (f"general/{ctx0.fam}/{side}/{phase}" + ("/vMin>0" if strong else "")
            + ("/genuine" if case["genuine"] else "") + ("/extrap" if case["extrapolate"] else ""))
    v.label("vMin>0" if strong else "vMin=0")
    v.info.update(vMin=vmin, vJ=vJ, alN=meta["alN"])

    # ---- no cut inside the window ------------------------------------------------------------------
    if side == "none":
        if ctx0.fam == "cubic":
            # the broken phase of the cubic family has a natural (genuine) end that may cut the window: the
            # uncut statement is only made when the reference says the window is free
            try:
                mtop = R.match_deflag(eos, Tn, vJ - 1e-3)
            except R.RefFailure:
                mtop = None
            if mtop is None or not mtop.ok or not mtop.Tm < meta["T_valid"][1]:
                v.label("nocut:cubic-natural-cut-or-unknown")
                return v
        try:
            vf = float(hyd0.fastestDeflag())
            vs = float(hyd0.slowestDeton())
        except WallGoError as exc:
            v.label("outcome:WallGoError")
            v.info["error"] = str(exc)[:160]
            return v
        v.checked("nocut")
        v.nontrivial = True
        v.info.update(fastest=vf, slowest=vs)
        if vf != vJ:
            v.fail("nocut", f"{cls0}/fastest", f"no range is reached inside the window but fastestDeflag() = {vf!r} != vJ = {vJ!r}")
        if vs != vJ and ctx0.fam != "cubic":
            v.fail("nocut", f"{cls0}/slowest", f"no range is reached by any detonation but slowestDeton() = {vs!r} != vJ = {vJ!r}")
        if any(hyd0.doesPhaseTraceLimitvmax):
            v.fail("cut-flag", f"{cls0}/nocut", f"doesPhaseTraceLimitvmax = {hyd0.doesPhaseTraceLimitvmax} without any cut")
        return v

    # ---- detonation side -----------------------------------------------------------------------------
    if side == "deton":
        lo, hi = vJ + CUT_MARGIN, 0.98
        if hi - lo < 0.01:
            v.label("cut:window-too-narrow")
            return v
        mode = "cut" if case["u2"] >= 0.4 else ("all-beyond" if case["u2"] < 0.2 else "high-narrow")
        if mode != "cut":
            # the two phases have DIFFERENT tabulated ranges and the fastest detonation decides:
            #   all-beyond : the low-T range ends below T-(vw=1): no detonation is admissible, documented answer 1
            #   high-narrow: only the HIGH-T range ends below T-(vw=1) (above Tn): T+ = Tn is inside it for every
            #                detonation and the low-T range is never reached, so the answer is vJ as without cut
            ref1 = R.detonation(eos, Tn, 1.0 - 1e-6)
            refj = R.detonation(eos, Tn, vJ + CUT_MARGIN)
            if not (ref1.ok and refj.ok):
                why = ref1.reason if not ref1.ok else refj.reason
                v.label(f"ref:{why}")
                return v.discarded(f"reference:{(why or '?').split(':')[0]}")
            if not (Tn * 1.02 < ref1.Tm < refj.Tm):
                v.label(f"{mode}:T-(1)-too-close-to-Tn")
                return v
            f = 0.3 + 0.6 * case["u"]
            Tcut = Tn + f * (ref1.Tm - Tn)
            if mode == "all-beyond":
                rg = _ranges(meta, low_hi=Tcut / Tn, genuine=case["genuine"], extrapolate=case["extrapolate"])
            else:
                if ctx0.fam == "cubic":
                    # the broken phase of the cubic family has a natural (genuine) end; T- of detonations is largest
                    # at the Chapman-Jouguet point itself, so 'the low-T range is never reached' is only true if
                    # that temperature - not T-(vJ + CUT_MARGIN) - lies below the natural end.  (False alarm at
                    # VERIF_SEED=4: natural end between T-(vJ + 2.5e-4) and T-(vJ + 0.01); slowestDeton() correctly
                    # returned that velocity + 0.01.)
                    try:
                        TmJ = R.chapman_jouguet(eos, Tn)[1]
                    except R.RefFailure:
                        TmJ = float("inf")
                    if not TmJ * (1.0 + 1e-3) < meta["T_valid"][1]:
                        v.label("high-narrow:cubic-natural-cut")
                        return v
                rg = _ranges(meta, high_hi=Tcut / Tn, genuine=case["genuine"], extrapolate=case["extrapolate"])
            if rg is None:
                v.label("cut:beyond-natural-end")
                return v
            ctx = setup(case, v, dict(spec, ranges=rg))
            try:
                hyd, _, _, vJ2 = ctx.make_solver()
                vs = float(hyd.slowestDeton())
            except WallGoError as exc:
                v.label(f"outcome:WallGoError/{mode}")
                v.info["error"] = str(exc)[:160]
                return v
            v.checked(f"slowest-{mode}")
            v.nontrivial = True
            v.label(f"deton-mode:{mode}")
            want = 1.0 if mode == "all-beyond" else vJ2
            tolv = K * (atol + rtol * 1.0)
            if not abs(vs - want) <= tolv:
                what = ("the low-T range ends below T-(vw=1): no detonation is admissible (documented answer 1)"
                        if mode == "all-beyond" else
                        "only the high-T range ends below T-(vw=1); T+ = Tn is inside it and the low-T range is never reached "
                        "(answer vJ as without a cut)")
                v.fail(f"slowest-{mode}", cls0,
                       f"{what}: slowestDeton() = {vs:.10g}, expected {want:.10g}; T-(1) = {ref1.Tm:.8g}, "
                       f"T-(vJ+0.01) = {refj.Tm:.8g}, range end {Tcut:.8g}, Tn = {Tn:.8g}",
                       slowest=vs, Tcut=Tcut, Tm1=ref1.Tm)
            return v
        vstar = lo + case["u"] * (hi - lo)
        refd = R.detonation(eos, Tn, vstar)
        h = 1e-4
        ra, rb = R.detonation(eos, Tn, vstar - h), R.detonation(eos, Tn, vstar + h)
        if not (refd.ok and ra.ok and rb.ok):
            why = next((r.reason for r in (refd, ra, rb) if not r.ok), "?")
            v.label(f"ref:{why}")
            return v.discarded(f"reference:{(why or '?').split(':')[0]}")
        slope = abs(rb.Tm - ra.Tm) / (2 * h)
        allowed = K * (atol + rtol * vstar) + (box(refd.Tm, rtol, atol) / slope if slope > 0 else float("inf"))
        if not allowed < ILL_COND_V:
            v.label("cut:ill-conditioned")
            return v.discarded("cut:ill-conditioned")
        rg = _ranges(meta, low_hi=refd.Tm / Tn, genuine=case["genuine"], extrapolate=case["extrapolate"])
        if rg is None:
            v.label("cut:beyond-natural-end")
            return v
        ctx = setup(case, v, dict(spec, ranges=rg))
        try:
            hyd, _, _, vJ2 = ctx.make_solver()
            vs = float(hyd.slowestDeton())
        except WallGoError as exc:
            v.label("outcome:WallGoError")
            v.info["error"] = str(exc)[:160]
            return v
        v.checked("cut-slowest")
        v.nontrivial = True
        want = min(1.0, vstar + DETON_SHIFT)
        v.info.update(vstar=vstar, slowest=vs, slowest_err=vs - want, slowest_allowed=allowed, Tcut=refd.Tm,
                      slowest_ratio=abs(vs - want) / allowed)
        if not abs(vs - want) <= allowed + 1e-12:
            v.fail("cut-slowest", cls0,
                   f"low-T range ends at T-({vstar:.8g}) = {refd.Tm:.8g}: slowestDeton() = {vs:.10g}, expected "
                   f"v* + 0.01 = {want:.10g} (difference {vs - want:.3e}, allowed {allowed:.2e})",
                   vstar=vstar, slowest=vs, Tcut=refd.Tm)
            return v
        # every faster wall up to 0.99 has T- inside the range
        v.checked("cut-faster")
        n = 8
        for i in range(n + 1):
            vw = vs + (0.99 - vs) * i / n
            if vw <= vJ2 or vw > 0.99:
                continue
            res = _scan(v, ctx, hyd, vw, f"{cls0}/scan")
            if res is None:
                continue
            if res[3] > refd.Tm + box(refd.Tm, rtol, atol):
                v.fail("cut-faster", cls0,
                       f"wall vw={vw:.8g} faster than slowestDeton()={vs:.8g} has T-={res[3]:.10g} above the end "
                       f"{refd.Tm:.10g} of the tabulated range", vw=vw, Tm=res[3], Tmax=refd.Tm)
                break
        return v

    # ---- deflagration / hybrid side ----------------------------------------------------------------
    lo, hi = max(vmin, 1e-3) + CUT_MARGIN, vJ - CUT_MARGIN
    if hi - lo < 0.02:
        v.label("cut:window-too-narrow")
        return v
    vstar = lo + case["u"] * (hi - lo)
    cuts = {}  # phase -> (velocity at which its range is reached, temperature, reference matching)
    try:
        m = R.match_deflag(eos, Tn, vstar)
        m2 = None
        if phase == "both":  # second cut at a different velocity: the earlier one must win
            v2 = lo + case["u2"] * (hi - lo)
            m2 = R.match_deflag(eos, Tn, v2)
    except R.RefFailure as exc:
        return v.discarded(f"reference:{str(exc).split(':')[0]}")
    for mm_ in (m, m2):
        if mm_ is not None and not mm_.ok:
            v.label(f"ref:{mm_.reason}")
            if mm_.reason in R.NO_SOLUTION_REASONS:
                return v
            return v.discarded(f"reference:{(mm_.reason or '?').split(':')[0]}")
    if phase in ("low", "both"):
        cuts["low"] = (vstar, m.Tm, m)
    if phase == "high":
        cuts["high"] = (vstar, m.Tp, m)
    elif phase == "both":
        cuts["high"] = (v2, m2.Tp, m2)
    first = min(cuts, key=lambda k: cuts[k][0])
    vfirst, Tfirst, mm = cuts[first]
    if ctx0.fam == "cubic" and not mm.Tm < meta["T_valid"][1] * (1.0 - 1e-3):
        # the broken phase of the cubic family ends (genuinely) at T_valid[1]; that end is reached before, or
        # together with, the constructed one: not the situation this case was meant to construct
        v.label("cut:beyond-natural-end")
        return v
    both_close = phase == "both" and abs(cuts["low"][0] - cuts["high"][0]) < CUT_MARGIN
    if both_close:
        v.label("cut:both-close")
    # tolerance on the velocity at which the range is reached (condition measure of the construction)
    pick = (lambda x: x.Tm) if first == "low" else (lambda x: x.Tp)
    try:
        slope = _deflag_family_slopes(eos, Tn, vfirst, mm, pick)
    except R.RefFailure:
        slope = None
    if slope is None or not mm.dTn_dvp:
        return v.discarded("reference:cut-slope")
    dvp = K * (atol + rtol * mm.vp) + K * rtol * Tn / abs(mm.dTn_dvp)
    dT = abs(mm.dTm_dvp if first == "low" else mm.dTp_dvp) * dvp + box(Tfirst, rtol, atol)
    allowed = K * (atol + rtol * vfirst) + (dT / slope if slope > 0 else float("inf"))
    v.info.update(vstar=vfirst, Tcut=Tfirst, fastest_allowed=allowed)
    if not allowed < ILL_COND_V:
        # the range end is closer to the temperatures of ALL slower walls than the solver can resolve
        v.label("cut:ill-conditioned")
        return v.discarded("cut:ill-conditioned")
    # fastestDeflag() brackets its root search with findMatching(vMin + 1e-3): is that matching a solution at all?
    vend = vmin + 1e-3
    end_bad = None
    try:
        rend = hyd0.findMatching(vend)
    except WallGoError:
        rend = None
    if rend is None or any(x is None for x in rend) or not all(_is_num(x) for x in rend):
        end_bad = "none"
    else:
        a_end, why_end = ref_allow(ctx0, vend, float(rend[0]))
        if a_end is None:
            end_bad = f"ref-{why_end}"
        elif (abs(float(rend[2]) - a_end["ref"].Tp) > a_end["Tp"] or abs(float(rend[3]) - a_end["ref"].Tm) > a_end["Tm"]):
            end_bad = "non-solution"
    if end_bad:
        v.label(f"bracket-end:{end_bad}")
        cls0 += "/bracket-end-bad"
        if AVOID["fastest_bracket_end"] and not case.get("force"):
            # known finding C06-fastestDeflag-bracket-end (see AVOID): steer around it
            v.label("avoided:fastest_bracket_end")
            return v
    # does the temperature of the phase cut first come back below the range end before vJ - 1e-3 ?
    reentrant = False
    try:
        mtop = R.match_deflag(eos, Tn, vJ - 1e-3)
    except R.RefFailure:
        mtop = None
    if mtop is not None and mtop.ok:
        reentrant = any((mtop.Tm if k == "low" else mtop.Tp) < cuts[k][1] for k in cuts)
    if reentrant:
        v.label("cut:reentrant")
        cls0 += "/reentrant"
        if AVOID["fastest_reentrant"] and not case.get("force"):
            v.label("avoided:fastest_reentrant")
            return v
    rg = _ranges(meta, low_hi=cuts["low"][1] / Tn if "low" in cuts else None,
                 high_hi=cuts["high"][1] / Tn if "high" in cuts else None,
                 genuine=case["genuine"], extrapolate=case["extrapolate"])
    if rg is None:
        v.label("cut:beyond-natural-end")
        return v
    ctx = setup(case, v, dict(spec, ranges=rg))
    try:
        hyd, _, _, vJ2 = ctx.make_solver()
        # outside observer of the matchings fastestDeflag's root searches evaluate (used only to attribute a wrong
        # answer to the known root cause C02-F1a: findMatching returning non-solutions to the root finder)
        evaluated = []
        inner = hyd.findMatching

        def recording(vw_, *a_, **k_):
            r_ = inner(vw_, *a_, **k_)
            evaluated.append((float(vw_), r_))
            return r_

        hyd.findMatching = recording
        try:
            vf = float(hyd.fastestDeflag())
        finally:
            del hyd.findMatching
    except WallGoError as exc:
        v.label("outcome:WallGoError")
        v.info["error"] = str(exc)[:160]
        return v
    except TypeError as exc:
        # findMatching returned a tuple of None at a point of fastestDeflag's root search
        v.checked("cut-fastest")
        v.fail("cut-fastest", cls0 + "/TypeError",
               f"{first}-T range ends at T({vfirst:.8g}) = {Tfirst:.8g} inside the window [vMin={vmin:.6g}, vJ={vJ:.6g}] "
               f"but fastestDeflag() raised TypeError: {exc}", vstar=vfirst, Tcut=Tfirst)
        return v
    flags = list(hyd.doesPhaseTraceLimitvmax)
    v.checked("cut-fastest")
    v.nontrivial = True
    v.label(f"cut-kind:{mm.kind}", f"cut-first:{first}")
    v.info.update(fastest=vf, fastest_err=vf - vfirst, fastest_ratio=abs(vf - vfirst) / allowed)
    if vf < vfirst - allowed and vf > max(vmin, 1e-3) + 1e-3:
        # an earlier crossing?  T(vw) need not be monotone (hybrids with c_s > c_b): ask the reference at vf
        a_, why = ref_allow(ctx0, vf, -1.0)
        if a_ is None:
            return v.discarded(f"reference:{why}")
        Tref, Tall = (a_["ref"].Tm, a_["Tm"]) if first == "low" else (a_["ref"].Tp, a_["Tp"])
        others = [k for k in cuts if k != first]
        hit_other = any((a_["ref"].Tm if k == "low" else a_["ref"].Tp) >= cuts[k][1] - (a_["Tm"] if k == "low" else a_["Tp"])
                        for k in others)
        if Tref >= Tfirst - Tall - abs(slope) * K * (atol + rtol * vf) or hit_other:
            v.label("cut:non-monotone")
            return v.discarded("cut:non-monotone")
    if not abs(vf - vfirst) <= allowed:
        if min(vf, vfirst) < 0.1:
            cls0 += "/slow"  # the root search works with slow-wall matchings, ~10 % of which are non-solutions (C02 F1a)
        else:
            # the same signature above 0.1 (weak transitions): does findMatching return non-solutions of the junction
            # conditions between the expected and the returned velocity?  (C02's subject, root cause C02-F1a)
            marked = False
            for vv in np.linspace(min(vf, vfirst), max(vf, vfirst), 5):
                try:
                    mres = hyd.findMatching(float(vv))
                    r1, r2 = R.wall_residuals(eos, *[float(x) for x in mres])
                    if max(abs(r1), abs(r2)) > 1e3 * max(rtol, 1e-9):
                        cls0 += "/nonsolution"
                        marked = True
                        break
                except Exception:  # noqa: BLE001
                    continue
            if not marked:
                # ... or did the root search itself receive one (typically from a slow-wall evaluation below 0.1) ?
                for vv, mres in evaluated:
                    try:
                        r1, r2 = R.wall_residuals(eos, *[float(x) for x in mres])
                    except Exception:  # noqa: BLE001
                        continue
                    if max(abs(r1), abs(r2)) > 1e3 * max(rtol, 1e-9):
                        cls0 += "/search-got/nonsolution"
                        v.info["nonsolution_evaluated_at"] = vv
                        break
        v.fail("cut-fastest", cls0,
               f"{first}-T range ends at T({vfirst:.8g}) = {Tfirst:.8g}: fastestDeflag() = {vf:.10g}, expected "
               f"{vfirst:.10g} (difference {vf - vfirst:.3e}, allowed {allowed:.2e}); vMin = {vmin:.6g}, vJ = {vJ2:.8g}",
               vstar=vfirst, fastest=vf, Tcut=Tfirst, cuts={k: list(x[:2]) for k, x in cuts.items()})
        return v
    # flags
    v.checked("cut-flag")
    want_flags = [False, False]
    for ph, idx in (("high", 0), ("low", 1)):
        if ph in cuts and not case["genuine"]:
            want_flags[idx] = True
    if ctx.fam == "cubic" and "low" not in cuts:
        want_flags[1] = flags[1]  # natural genuine end of the broken phase: not constructed here
    if phase == "both":
        # the phase whose range is reached later may or may not be seen by the bracketed search
        idx = 1 if first == "high" else 0
        want_flags[idx] = flags[idx] if not case["genuine"] else False
        if both_close and not case["genuine"]:
            want_flags = list(flags) if any(flags) else want_flags
    v.info["flags"] = flags
    if flags != want_flags:
        v.fail("cut-flag", cls0,
               f"doesPhaseTraceLimitvmax = {flags}, expected {want_flags} (ranges reached: {sorted(cuts)}, first "
               f"{first}, genuine end = {case['genuine']})", flags=flags, expected=want_flags)
    # slower walls
    v.checked("cut-slower")
    n = 16
    a = max(vmin, 1e-3) + 1e-3
    if AVOID["slow_walls_in_scans"] and not case.get("force"):
        a = max(a, 0.1)
    top = vf - 2.0 * allowed - 1e-3 * vf
    Tlow_max = rg["low"][1] * Tn
    Thigh_max = rg["high"][1] * Tn
    for i in range(n):
        vw = a + (top - a) * i / (n - 1)
        if not a <= vw < vf:
            continue
        res = _scan(v, ctx, hyd, vw, f"{cls0}/scan")
        unconverged = getattr(hyd, "success", True) is False   # flag left by this very findMatching call
        if res is None:
            continue
        over_low = res[3] - Tlow_max - box(Tlow_max, rtol, atol)
        over_high = res[2] - Thigh_max - box(Thigh_max, rtol, atol)
        if over_low > 0 or over_high > 0:
            # physics or solver?  ask the reference (on the uncut EOS: identical below the range ends)
            a_, why = ref_allow(ctx0, vw, res[0])
            if a_ is None:
                return v.discarded(f"reference:{why}")
            mr = a_["ref"]
            if (over_low > 0 and mr.Tm > Tlow_max) or (over_high > 0 and mr.Tp > Thigh_max):
                v.label("cut:non-monotone")
                return v.discarded("cut:non-monotone")
            if (over_low > 0 and res[3] - mr.Tm > a_["Tm"]) or (over_high > 0 and res[2] - mr.Tp > a_["Tp"]):
                bad = getattr(_scan, "last_bad", [])
                after = ("/after-unconverged" if unconverged or any("unconverged-flag" in c_ for c_ in bad)
                         else "/after-wrong-matching" if bad else "")
                # is the returned matching a solution of the junction conditions at all?  (C02's subject; a returned
                # non-solution is the signature of the vacuous acceptance test of the 2x2 solve, C02-F1a)
                try:
                    r1, r2 = R.wall_residuals(eos, res[0], res[1], res[2], res[3])
                    if max(abs(r1), abs(r2)) > 1e3 * max(rtol, 1e-9):
                        after += "/nonsolution"
                except Exception:  # noqa: BLE001
                    pass
                v.fail("cut-slower", f"{cls0}/{speed_bucket(vw)}{after}",
                       f"wall vw={vw:.8g} slower than fastestDeflag()={vf:.8g} has (T+, T-) = ({res[2]:.10g}, "
                       f"{res[3]:.10g}) outside the tabulated ranges (max {Thigh_max:.10g}, {Tlow_max:.10g}); the exact "
                       f"matching has ({mr.Tp:.10g}, {mr.Tm:.10g})", vw=vw, matching=list(res))
                break
    return v


def check_case(case) -> Verdict:
    v = Verdict()
    kind = case["kind"]
    spec = case["eos"]
    if spec["family"] == "twostep":
        v.label("twostep:" + ("strongT" if spec.get("strongT") else "steepT" if spec.get("steepT") else "plain"))
    v.label(f"kind:{kind}", f"family:{spec['family']}", f"solver:{case.get('solver', 'general')}",
            f"tol:{float(case['tol'][0]):g}")
    if kind == "matching":
        v.label(f"vclass:{case['vclass']}")
        return check_matching(case, v)
    if kind == "jouguet":
        return check_jouguet(case, v)
    if kind == "cut":
        return check_cut(case, v)
    raise ValueError(f"unknown case kind {kind}")
