"""C07 - results are covariant under a change of units (metamorphic, pairwise).

A case is (model point, unit factor s, tolerance setting).  Three fresh-process runs of the public
pipeline: A = (s=1, setting), B = (s, setting), C = (s=1, other setting).  Stage by stage
(thermodynamics -> hydrodynamics -> LTE -> wall) every dimensionless output of B must equal that
of A within  K * |A - C| * (tol_setting / tol_default) + floor, i.e. within the change that the
solver tolerances themselves induce (DESIGN 2.4.3); dimensionful outputs scale with the stated
power of s.  The first stage that breaks is the one reported.
"""
from __future__ import annotations

import math

import numpy as np
from hypothesis import strategies as st

from vlib import e2e
from vlib import zoo_potentials as zp
from vlib.core import Verdict, canonical

PROPERTY_ID = "C07"
ENGINE = "hypothesis @given; metamorphic pair (unit factor s vs 1) on the public pipeline in fresh processes"
RULE = (
    "Case = model point (Z2x2/Cubic1, all exactly homogeneous) x unit factor s=10^u, u in [-2,2] with "
    "mass at +-1,+-2 x tolerance setting (default | tightened). Non-trivial = |log10 s| >= 0.5 and the "
    "s=1 run is a success or a clean runaway. Distinct by canonical JSON."
)
BUDGET = {
    "quick": {"cases": 32, "shrink": False, "dedupe": True, "time_cap_s": 900, "max_discard": 0.5},
    "thorough": {"cases": 500, "shrink": False, "dedupe": True, "time_cap_s": 6 * 3600, "max_discard": 0.5},
}
K = 10.0
SETTINGS = {
    "default": {"errTol": 1e-3, "hydroRelTol": 1e-6, "hydroAbsTol": 1e-10, "phaseTracerTol": 1e-6,
                "spatialGridSize": 30, "momentumGridSize": 5},
    "tight": {"errTol": 3e-4, "hydroRelTol": 1e-8, "hydroAbsTol": 1e-12, "phaseTracerTol": 1e-8,
              "spatialGridSize": 30, "momentumGridSize": 5},
}
TOLERANCES = {
    "K": K,
    "floor_rel": {"default": 1e-6, "tight": 1e-8},
    "wall_velocity": "2*errTol",
    "history_rtol": 1e-9,
    "width_rel": 0.05, "offset_abs": 0.05,
    "note": "floor = K x hydrodynamics relativeTol; width/offset = envelope x5 of the run-to-run "
            "difference between tolerance settings at s=1 (Nelder-Mead default tolerances)",
}
ASSUMPTIONS = [
    "Only exactly homogeneous polynomial models; variation scales and phase guesses are multiplied by s.",
    "hydroAbsTol is dimensionful in the code (temperature units); it is left at its configured value in "
    "both unit systems, as a user would.",
]
WALL = {"offEq": False, "mfp": 50.0, "thick": 5.0}
_CACHE: dict = {}


@st.composite
def st_case(draw):
    fam = draw(st.sampled_from(["Z2x2", "Z2x2", "Cubic1"]))
    spec = draw(zp.st_z2x2(delta_range=(0.04, 0.13))) if fam == "Z2x2" else draw(zp.st_cubic1_margin(min_alpha=2e-3))
    spec = zp.with_guess(spec, draw(zp.st_guess()))
    u = draw(st.one_of(st.sampled_from([-2.0, -1.0, 1.0, 2.0, -2.0, 2.0]),
                       st.floats(-2.0, 2.0).map(lambda x: round(x, 2))))
    setting = draw(st.sampled_from(["default", "default", "tight"]))
    case = {"kind": "units", "spec": spec, "u": u, "setting": setting}
    # the model's own unit system: "every model" includes models written in other units than GeV
    b = draw(st.sampled_from([0.0, 0.0, 0.0, -2.0, 2.0]))
    if b:
        case["b"] = b
        # corners of the claimed range: the smallest / largest temperatures reachable
        if draw(st.booleans()):
            case["u"] = draw(st.sampled_from([-2.0, -1.5])) if b < 0 else draw(st.sampled_from([2.0, 1.5]))
    if draw(st.sampled_from([False, True, True])):
        case["history"] = {"mode": draw(st.sampled_from(["rebound", "rebound", "same-manager"])),
                           "reregister": draw(st.booleans())}
    if draw(st.sampled_from([False, False, True])):
        parts = [{"name": "top", "y": round(draw(st.floats(0.7, 1.1)), 3), "stat": "Fermion", "dof": 12,
                  "field": 0, "m0sq": 0.0}]
        case["spec"] = dict(spec, particles=parts)
        case["coll"] = {"N_stored": draw(st.sampled_from([5, 7])),
                        "gammas": [round(10 ** draw(st.floats(-0.5, 0.5)), 3)],
                        "basis": draw(st.sampled_from(["Chebyshev", "Cardinal"]))}
    return case


def strategy(tier):
    return st_case()


HISTORY_RTOL = 1e-9


def _run(spec, cfg, coll=None, coll_dir=None):
    what = ["hydro", "lte", "solve"]
    key = canonical([spec, cfg, what, coll])
    if key not in _CACHE:
        settings = dict(WALL, offEq=bool(coll))
        _CACHE[key] = e2e.fresh_run({"spec": spec, "cfg": cfg, "what": what, "settings": settings,
                                     "profiles": False, "coll_dir": coll_dir})
    return _CACHE[key]


def _num(x):
    return x if isinstance(x, (int, float)) else None


def check_case(case) -> Verdict:
    import shutil
    import tempfile

    coll = case.get("coll")
    coll_dir = None
    try:
        if coll:
            from vlib import collfiles

            coll_dir = tempfile.mkdtemp(prefix="verif_c07_coll_")
            names = [pt["name"] for pt in case["spec"]["particles"]]
            collfiles.write_relaxation_directory(coll_dir, names, int(coll["N_stored"]),
                                                 [float(g) for g in coll["gammas"]], basis=coll["basis"])
        return _check_case(case, coll, coll_dir)
    finally:
        if coll_dir:
            shutil.rmtree(coll_dir, ignore_errors=True)


def _check_case(case, coll, coll_dir) -> Verdict:
    v = Verdict()
    base = 10.0 ** float(case.get("b", 0.0))
    spec1 = dict(case["spec"], units=base)
    s = 10.0 ** float(case["u"])
    specs = dict(case["spec"], units=base * s)
    v.label(f"base_units:1e{int(case.get('b', 0))}", "offEq" if coll else "LTE")
    setting = case["setting"]
    other = "tight" if setting == "default" else "default"
    cfg, cfg_o = SETTINGS[setting], SETTINGS[other]
    fam = case["spec"]["family"]
    ubin = "u<=-1" if case["u"] <= -1 else "-1<u<-0.5" if case["u"] < -0.5 else "|u|<0.5" if abs(case["u"]) < 0.5 \
        else "0.5<=u<1" if case["u"] < 1 else "u>=1"
    try:
        weak = zp.alpha_n_closed(spec1) < 1e-3
    except Exception:  # noqa: BLE001
        weak = False
    cls = f"{fam} {ubin} {setting}" + (" weak" if weak else "")
    v.label(f"family:{fam}", f"ubin:{ubin}", f"setting:{setting}", "strength:weak" if weak else "strength:normal",
            "guess:rough" if case["spec"].get("guess") else "guess:exact",
            f"fscale_factor:{case['spec'].get('fscale_factor', 1.0)}")
    A = _run(spec1, cfg, coll, coll_dir)
    if A.get("timeout"):
        v.discarded("timeout (inconclusive)")
        return v
    if "setup_error" in A:
        # set-up failing in one unit system and succeeding in the other is itself a covariance violation; only a
        # model that cannot be set up in either is outside the domain
        B = _run(specs, cfg, coll, coll_dir)
        if B.get("timeout"):
            v.discarded("timeout (inconclusive)")
            return v
        v.checked("setup")
        if "setup_error" not in B:
            v.fail("setup", cls + " base-fails",
                   f"set-up fails in units s=1 ({A['setup_error'][:160]}) but succeeds for s={s:g}"
                   + (" (phase guesses typed as integers where the units allow)" if case["spec"].get("guess_int") else ""))
            return v
        v.discarded("set-up failed in both unit systems")
        return v
    B = _run(specs, cfg, coll, coll_dir)
    v.checked("setup")
    if B.get("timeout") or A.get("timeout"):
        v.discarded("timeout (inconclusive)")
        return v
    if "setup_error" in B:
        v.fail("setup", cls, f"set-up succeeds in units s=1 but fails for s={s:g}: {B['setup_error'][:200]}")
        return v
    C = _run(spec1, cfg_o, coll, coll_dir)
    if C.get("timeout"):
        v.discarded("timeout (inconclusive)")
        return v
    if "setup_error" in C:
        v.discarded("s=1 other-setting setup failed")
        return v
    hist = case.get("history")
    if hist:
        # call history: the user first analyses the model in the base units and then re-expresses it in the other
        # units ON THE SAME OBJECTS (same manager; "rebound": same model / potential object, parameters changed in
        # place and the derivative settings configured again).  Whatever the objects keep from the first analysis,
        # the answers in the new units must be those of a fresh analysis in these units (run B).
        H = e2e.fresh_run({"spec": dict(specs, particles=None), "cfg": cfg, "what": ["hydro", "lte"],
                           "first": {"spec": dict(spec1, particles=None), "mode": hist["mode"],
                                     "reregister": bool(hist.get("reregister"))}})
        Bh = B if not case["spec"].get("particles") else e2e.fresh_run(
            {"spec": dict(specs, particles=None), "cfg": cfg, "what": ["hydro", "lte"]})
        v.label(f"history:{hist['mode']}")
        if H.get("timeout") or Bh.get("timeout"):
            v.label("history:timeout")
        else:
            v.checked("history")
            hcls = f"{cls} {hist['mode']}" + (" reregistered" if hist.get("reregister") else "")
            if ("setup_error" in H) != ("setup_error" in Bh):
                v.fail("history", hcls + " setup", f"after an analysis in units s=1 on the same objects the set-up for s={s:g} "
                       f"gives {H.get('setup_error', 'success')!r}, a fresh one {Bh.get('setup_error', 'success')!r}")
            elif "setup_error" not in H:
                worst = e2e.history_worst(H, Bh)
                v.info["history_worst"] = list(worst)
                if worst[0] > HISTORY_RTOL:
                    v.fail("history", hcls, f"{worst[1]} after an analysis in units s=1 on the same objects differs from "
                           f"a fresh analysis in units s={s:g} by {worst[0]:.3e} (relative; allowed {HISTORY_RTOL:g}): "
                           f"{H['hydro'].get(worst[1], H.get('lte'))!r} vs {Bh['hydro'].get(worst[1], Bh.get('lte'))!r}")
    ratio = 1.0 if setting == "default" else 1e-2  # tolerances of the tight setting are 100x smaller
    floor = TOLERANCES["floor_rel"][setting]

    tolTrace, tolHyd = cfg["phaseTracerTol"], cfg["hydroRelTol"]
    alN = max(float(A["hydro"]["alN"] or 1e-3), 1e-6)
    # absolute floors = K x solver tolerance x conditioning of the quantity (DESIGN 2.4.3):
    # alpha_n and Psi_n are O(1) combinations of p,e,w (abs. error ~ tracing tolerance);
    # vJ - c_s ~ sqrt(alpha_n); the LTE velocity moves O(1) when alpha_n changes by O(alpha_n)
    FLOOR = {"alN": K * tolTrace, "psiN": K * tolTrace,
             "vJ": K * (tolTrace / math.sqrt(alN) + tolHyd), "vMin": K * tolHyd,
             "vwLTE": K * (tolTrace / alN + tolHyd / math.sqrt(alN))}

    def cmp(stage, name, a, b, c, power=0, extra_abs=0.0):
        """b (units s) should equal a * s^power; allowance from |a-c| (tolerance sensitivity)."""
        if a is None or b is None:
            if (a is None) != (b is None):
                v.fail(stage, cls, f"{name}: {a} at s=1 but {b} at s={s:g}")
            return
        bb = b / s ** power
        sens = abs(a - c) if c is not None else 0.0
        if setting == "tight":
            allow = K * sens * ratio * 10  # |A-C| measures the *default* error; tight is ~100x smaller
        else:
            allow = K * sens
        allow += FLOOR.get(name, floor * K * max(abs(a), 1e-300)) + extra_abs
        err = abs(bb - a)
        v.info[f"{name}_err_over_allow"] = err / allow if allow > 0 else (0.0 if err == 0 else float("inf"))
        v.info[f"{name}_relerr"] = err / max(abs(a), 1e-300)
        if err > allow:
            v.fail(stage, cls, f"{name}: {bb!r} (units s={s:g}, rescaled) vs {a!r} (s=1): |diff|={err:.3e} > allowance {allow:.3e}")

    # ---- thermodynamics
    v.checked("thermo")
    ha, hb, hc = A["hydro"], B["hydro"], C["hydro"]
    if ha["flagsHigh"] != hb["flagsHigh"] or ha["flagsLow"] != hb["flagsLow"]:
        # whether the tracer stops at a second-order / transcritical end (where a minimum continues to
        # exist on a continuous branch) is not an output the property lists; recorded as a label
        v.label("end_of_phase_flags_differ")
    fd, vj = ha.get("fastestDeflag"), ha.get("vJ")
    if isinstance(fd, float) and isinstance(vj, float) and fd < vj * (1 - 1e-6):
        # the deflagration window is cut by the end of a tabulated phase: the phases do not exist
        # with a margin over the range the solver needs -> outside the property's domain
        v.label("window_cut_by_phase_end")
        v.discarded("hydrodynamic window cut by the end of a phase (outside the property's domain)")
        return v
    # traced phase locations at Tn scale like s (tracing tolerance relative to max(|phi|, T))
    size = max(ha["Tnucl"], max(abs(x) for x in ha["tracedHighAtTn"] + ha["tracedLowAtTn"] if x == x))
    # what a minimiser can resolve from function values in double precision: V is dominated by its
    # T^4 part, so a soft direction (small Hessian eigenvalue) is located only to
    # ~sqrt(2 eps |V| / lambda_min); unit covariant, computed from the closed form at Tn
    cfA = zp.closed(spec1)
    TnA = ha["Tnucl"]
    res_floor = 0.0
    for which in ("high", "low"):
        xA = cfA.phase(which, TnA)
        lam_min = float(np.min(np.linalg.eigvalsh(cfA.hess(xA, TnA))))
        if lam_min > 0:
            res_floor = max(res_floor, 32.0 * math.sqrt(2 * 2.2e-16 * abs(float(cfA.V(xA, TnA))) / lam_min))
    for k in ("tracedHighAtTn", "tracedLowAtTn"):
        for i, (a, b, c) in enumerate(zip(ha[k], hb[k], hc[k])):
            if a == a and b == b:
                cmp("thermo", f"{k}[{i}]", a, b, c if c == c else None, power=1,
                    extra_abs=K * tolTrace * size + 2 * res_floor)
    # the minima located by validatePhaseInput (scipy default tolerances) are compared separately
    v.checked("phases-at-Tn")
    nviol = 0  # phase-location mismatches (either kind) do not stop the comparison of later stages
    for k in ("phase1", "phase2"):
        for i, (a, b, c) in enumerate(zip(ha[k], hb[k], hc[k])):
            cmp("phases-at-Tn", f"{k}[{i}]", a, b, c, power=1, extra_abs=K * 1e-5 * size + 2 * res_floor)
    pat = v.violations[nviol:]
    del v.violations[nviol:]
    if pat:
        # the phases themselves differ beyond their allowance in this case: a later-stage difference is
        # classified apart (it may be the second-order consequence of the displaced phases)
        cls = cls + " after-phase-mismatch"
        v.label("later_stages:after-phase-mismatch")
    if not v.violations:
        # ---- hydrodynamics
        v.checked("hydro")
        for k in ("vJ", "alN", "psiN", "vMin"):
            cmp("hydro", k, _num(ha[k]), _num(hb[k]), _num(hc[k]))
    if not v.violations:
        v.checked("lte")
        la, lb, lc = A.get("lte"), B.get("lte"), C.get("lte")
        if (la is None) != (lb is None):
            v.fail("lte", cls, f"LTE solver: {A.get('lte_error', la)} at s=1 vs {B.get('lte_error', lb)} at s={s:g}")
        elif la is not None:
            if la in (0.0, 1.0) or lb in (0.0, 1.0):
                if la != lb and (lc is None or lc == la):
                    v.fail("lte", cls, f"LTE sentinel differs: {la} at s=1 vs {lb} at s={s:g}")
            else:
                cmp("lte", "vwLTE", la, lb, lc)
    sa, sb, sc = A.get("solve"), B.get("solve"), C.get("solve")
    ok_ref = bool(sa and sa["success"])
    if not v.violations:
        v.checked("wall")
        if (sa is None) != (sb is None):
            v.fail("wall", cls, f"solveWall: {A.get('solve_error')} at s=1 vs {B.get('solve_error')} at s={s:g}")
        elif sa is not None:
            v.label(f"outcome:{sa['solutionType']}")
            same_in_c = sc is not None and sc["solutionType"] == sa["solutionType"] and sc["success"] == sa["success"]
            if (sa["success"], sa["solutionType"]) != (sb["success"], sb["solutionType"]):
                # a deflagration whose velocity lies within the velocity allowance (2 errTol) of the top of its window
                # and a runaway are the same answer to that accuracy: the pressure at the window top is zero within
                # the tolerance.  (False alarm at seed 3 after the generator change of round 5: v = vJ - 1.6e-4 at
                # s=100, RUNAWAY at s=1, 10 and at the default setting of both; errTol 3e-4.)
                def _top(sol, hyd_):
                    fd_ = hyd_.get("fastestDeflag")
                    return min(hyd_["vJ"], fd_) if isinstance(fd_, float) else hyd_["vJ"]

                pair = {sa["solutionType"]: (sa, ha), sb["solutionType"]: (sb, hb)}
                at_top = False
                if sa["success"] and sb["success"] and set(pair) == {"RUNAWAY", "DEFLAGRATION"}:
                    sd, hd = pair["DEFLAGRATION"]
                    at_top = sd["wallVelocity"] is not None and _top(sd, hd) - sd["wallVelocity"] <= 2 * cfg["errTol"]
                if at_top:
                    v.label("type-flip-at-window-top")
                    v.discarded("solution type sits on a threshold (deflagration within 2 errTol of the window top vs runaway)")
                elif same_in_c:
                    v.fail("wall", cls, f"solution type differs: {sa['solutionType']}/{sa['success']} at s=1 vs "
                                        f"{sb['solutionType']}/{sb['success']} at s={s:g} ({sb['message'][:80]})")
                else:
                    v.discarded("solution type sits on a threshold (changes with the tolerance setting too)")
            elif sa["success"] and sa["wallVelocity"] is not None:
                errTol = cfg["errTol"]
                dv = abs(sa["wallVelocity"] - sb["wallVelocity"])
                v.info["wallVelocity_diff_over_errTol"] = dv / errTol
                if dv > 2 * errTol:
                    v.fail("wall", cls, f"wall velocity {sb['wallVelocity']} at s={s:g} vs {sa['wallVelocity']} at s=1: diff {dv:.2e} > 2 errTol")
                Tn_a, Tn_b = ha["Tnucl"], hb["Tnucl"]
                wa = np.array(sa["wallWidths"]) * Tn_a
                wb = np.array(sb["wallWidths"]) * Tn_b
                wr = float(np.max(np.abs(wb - wa) / wa))
                orr = float(np.max(np.abs(np.array(sb["wallOffsets"]) - np.array(sa["wallOffsets"]))))
                v.info.update(width_rel_diff=wr, offset_abs_diff=orr)
                # widths/offsets move with v along the solution branch: allow the change over 2 errTol
                if sc is not None and sc["wallVelocity"] is not None:
                    wc = np.array(sc["wallWidths"]) * Tn_a
                    sens_w = float(np.max(np.abs(wc - wa) / wa))
                    sens_o = float(np.max(np.abs(np.array(sc["wallOffsets"]) - np.array(sa["wallOffsets"]))))
                else:
                    sens_w = sens_o = 0.0
                if wr > TOLERANCES["width_rel"] + K * sens_w or orr > TOLERANCES["offset_abs"] + K * sens_o:
                    v.fail("wall", cls, f"wall widths*Tn / offsets differ: width rel {wr:.3e}, offset {orr:.3e}")
                for k2 in ("temperaturePlus", "temperatureMinus"):
                    ta, tb = sa[k2] / Tn_a, sb[k2] / Tn_b
                    # T+- depend on v: tolerance from the velocity difference actually observed, plus what the
                    # matching tolerance allows in each of the two runs (K hydroRelTol each) and the measured
                    # sensitivity of T+- to the tolerance setting at s=1 (as for the other outputs)
                    sens_t = abs(sc[k2] / Tn_a - ta) if (sc is not None and sc.get(k2) is not None) else 0.0
                    sens_t = K * sens_t * (ratio * 10 if setting == "tight" else 1.0)
                    allow_t = 5.0 * dv + 2 * K * tolHyd + sens_t
                    v.info[f"{k2}_diff_over_allow"] = abs(ta - tb) / allow_t
                    if abs(ta - tb) > allow_t:
                        v.fail("wall", cls, f"{k2}/Tn differs: {tb} vs {ta} (allowed {allow_t:.2e}: 5 dv = {5 * dv:.1e}, "
                                            f"2K hydroRelTol = {2 * K * tolHyd:.1e}, tolerance sensitivity {sens_t:.1e})")
    v.violations.extend(pat)
    v.nontrivial = bool(abs(case["u"]) >= 0.5 and ok_ref and not v.discard)
    return v
