"""C05 - the LTE wall velocity conserves entropy flux across the wall.

S(v) = T+ gamma+ - T- gamma- of the hydrodynamic matching at wall velocity v that satisfies energy-momentum
conservation and the nucleation-temperature boundary condition (NOT of the solver's internal LTE matching).
S > 0 is the driving sign (the wall accelerates), S < 0 the stopping sign.

Sub-oracles (K = 10; rtol, atol are the tolerances given to the solver)
  lte-root       interior result v*: the exact S (reference matcher vlib.refhydro, Tn-matched flow integrated in xi)
                 changes sign between v*(1 - K rtol) - K atol and v*(1 + K rtol) + K atol, or |S(v*)| is inside the
                 image of the solver's tolerances: |dS/dv| K(atol + rtol v*) + K rtol Tn |dS/dv+| / |dTn'/dv+|
                 (the solver's own root is in Tn'(v) - Tn with the shock integrated at rtol; slopes along the
                 family of exact junctions measured by the reference)
  lte-matching   the property's literal form: S formed from the solver's own findMatching(v*) vanishes within the
                 same bound plus the forward image of findMatching's tolerance box
  lte-runaway    sentinel 1: S keeps the driving sign over the whole deflagration/hybrid window - 24-point Chebyshev
                 scan with findMatching, confirmed by the reference at 8 Chebyshev points + the scan's minimum;
                 a reference S < 0 anywhere is a violation
  lte-static     sentinel 0: S already has the stopping sign at v_min + 1e-3 (reference)
  sentinel-type  the result is 0, 1 or a float strictly between v_min and v_J
Margins (discards, counted; the property excludes them): |S|/(T+ gamma+) < 1e-4 at the decisive window end,
v* within 1e-3 of v_min or v_J.
Both Hydrodynamics.findvwLTE (all EOS families, incl. numerically traced phases = what WallGoManager.wallSpeedLTE
calls) and HydrodynamicsTemplateModel.findvwLTE (template-form EOS).
"""
from __future__ import annotations

import math

from hypothesis import strategies as st

from vlib import refhydro as R
from vlib import zoo_eos as Z
from vlib.core import Verdict

PROPERTY_ID = "C05"
ENGINE = "hypothesis @given over (EOS zoo with alpha_n placed relative to the LTE thresholds x Tn x tolerances x solver); reference matcher"
RULE = (
    "Case = EOS spec x tolerances {(1e-6,1e-10),(1e-9,1e-12)} x solver {Hydrodynamics, HydrodynamicsTemplateModel}. "
    "bag/template: Psi_n in [0.5, 0.995], alpha_n = static (25 %: between the positive-bag-constant bound and "
    "(1-Psi_n)/3, i.e. Tn above Tc), (1-Psi_n)/3 (1 + 10^u), u in [-2.5, 1.5], which straddles the runaway "
    "threshold alpha_max(Psi_n, c_s, c_b), or (25 %) strong: 1/3 (1 + 10^[-1.5, 1]) so that v_min > 0; two-step: Tn/Tc in [0.4, 0.98] or (static) 1 + 10^[-2.5,-1]; cubic "
    "potential: Tn between T0 and Tc or (static) between Tc and the spinodal; traced cubic potential. "
    "Non-trivial = interior root (not in a margin), or a sentinel whose |S|/(T+ gamma+) at the decisive end "
    "exceeds 1e-3. Distinct by canonical JSON of the case."
)
BUDGET = {
    "quick": {"cases": 480, "shrink": True, "time_cap_s": 900},
    "thorough": {"cases": 10000, "shrink": True, "time_cap_s": 3300},
}
K = 10.0
MARGIN_S = 1e-4
MARGIN_V = 1e-3
NONTRIVIAL_S = 1e-3
NSCAN = 24
NREF = 8
TOLERANCES = {
    "K": K,
    "root_window": "v*(1 +- K rtol) +- K atol",
    "root_S_bound": "|dS/dv| K(atol + rtol v*) + K rtol Tn |dS/dv+|/|dTn'/dv+| + K atol |dS/dv+| (reference slopes)",
    "matching_extra": "|dS/dv+| dvp_allow + gamma+ K(atol + rtol T+) + gamma- K(atol + rtol T-), "
                      "dvp_allow = K(atol + rtol v+) + K rtol Tn/|dTn'/dv+|",
    "margin_S_rel": MARGIN_S,
    "margin_v": MARGIN_V,
    "scan_sign_floor": "reference S/(T+ gamma+) < -1e-9 counts as the stopping sign",
}
ASSUMPTIONS = [
    "The driving sign is S > 0 (docstring of findvwLTE: T+ gamma+ > T- gamma- for small wall velocity).",
    "Static-sentinel cases are generated with Tn above the critical temperature (alpha_n below (1-Psi_n)/3, "
    "p_s(Tn) > p_b(Tn)); the matching equations remain well defined there and this is the only way the third "
    "clause of the property is reachable (the general solver also returns 0 when the root lies below 1e-3: margin).",
    "The window of the runaway scan is [v_min + 1e-3, v_J - 1e-3] with the solver's own v_min and v_J (C06 checks "
    "those); points where no matching is returned are skipped.",
    "WallGoManager.wallSpeedLTE is `return self.hydrodynamics.findvwLTE()`; it is exercised through "
    "Hydrodynamics built on a traced Thermodynamics exactly as WallGoManager._initHydrodynamics does "
    "(a full manager costs ~1 s per case and adds no code on this path).",
    "A ValueError('f(a) and f(b) must have different signs') from the template solver is an outcome only inside "
    "the stated alpha_n margin of a threshold; elsewhere it is a crash violation.",
]
EXHAUSTIVE_SUBDOMAINS = []


# ---------------------------------------------------------------------------------------------
# strategy
# ---------------------------------------------------------------------------------------------
def _f(lo, hi):
    return st.floats(lo, hi, allow_nan=False, allow_infinity=False)


@st.composite
def st_lte_template(draw, family):
    psi = 1.0 - 0.5 * 10.0 ** (-2.3 * draw(_f(0.0, 1.0)))
    if family == "bag":
        cs2 = cb2 = 1.0 / 3.0
    else:
        cs2, cb2 = draw(Z.st_csq()), draw(Z.st_csq())
    mu, nu = 1.0 + 1.0 / cs2, 1.0 + 1.0 / cb2
    a_eps = max((mu - nu) / (3.0 * mu), 0.0)         # bag constant positive above this
    a_min = (1.0 - psi) / 3.0                          # low-T phase favoured above this
    regime = draw(st.sampled_from(["static", "static", "above", "above", "above", "above", "strong", "strong"]))
    spec = {"family": family, "Tn": draw(Z.st_tn()), "psiN": psi, "g": 10.0 ** draw(_f(-1.0, 2.0))}
    if family == "template":
        spec.update(cs2=cs2, cb2=cb2)
    if regime == "static" and a_min > a_eps * 1.05 + 1e-4:
        lo = a_eps + 1e-4 if a_eps > 0 else 0.02 * a_min
        spec["alN"] = lo + (a_min - lo) * draw(_f(0.02, 0.98))
        spec["allow_unfavoured"] = True
    elif regime == "strong":
        # alpha_n > 1/3: v_min > 0, the window starts at the strongest possible shock
        spec["alN"] = max(1.0 / 3.0, a_min, a_eps) * (1.0 + 10.0 ** draw(_f(-1.5, 1.0)))
    else:
        spec["alN"] = max(a_min, a_eps) * (1.0 + 10.0 ** draw(_f(-2.5, 1.5))) + (1e-4 if a_eps >= a_min else 0.0)
    return spec


@st.composite
def st_lte_twostep(draw):
    k = draw(st.integers(0, 5))
    if k < 2:
        spec = draw(Z.st_twostep(variant="strongT"))
        spec["strongT"] = True
        return spec
    if k < 4:
        # template Jouguet velocity up to 0.1 below the true one; 8 % of these have the LTE root in between
        spec = draw(Z.st_twostep(variant="steepT"))
        spec["steepT"] = True
        return spec
    spec = draw(Z.st_twostep())
    if draw(st.integers(0, 3)) == 0:
        spec["x"] = 1.0 + 10.0 ** draw(_f(-2.5, -1.0))   # Tn above Tc: larger x only widens the healthy T range
        spec["allow_unfavoured"] = True
    return spec


@st.composite
def st_lte_cubic(draw):
    if draw(st.integers(0, 3)) != 0:
        return draw(Z.st_cubic())
    g = draw(_f(0.05, 0.6))
    lam = draw(_f(0.02, 0.3))
    q = draw(_f(0.2, 0.85))
    A = math.sqrt(q * 4.0 * lam * g)
    rc = 1.0 / math.sqrt(1.0 - 8.0 * q / 9.0)    # Tc/T0
    r1 = 1.0 / math.sqrt(1.0 - q)                # T1/T0
    ymax = (r1 - 1.0) / (rc - 1.0)
    y = 1.0 + (ymax - 1.0) * draw(_f(0.05, 0.6))
    amin = Z.cubic_amin(g, A, lam, y)
    a = max(amin, 0.02) * (1.0 + 10.0 ** draw(_f(-1.5, 1.5)))
    return {"family": "cubic", "Tn": draw(Z.st_tn()), "g": g, "A": A, "lam": lam, "a": a, "y": y,
            "allow_unfavoured": True}


@st.composite
def st_manager_case(draw):
    """WallGoManager.wallSpeedLTE on ONE manager that is set up several times (same registered model, other nucleation
    temperatures, without registering again - the way a scan over Tn is written), asked once or twice per set-up."""
    from vlib import zoo_potentials as zp

    spec = draw(zp.st_cubic1_margin(min_alpha=2e-3))
    cf = zp.Cubic1(spec["p"])
    tn_lo, tn_hi = cf.T0 * 1.02, min(cf.Tc * 0.995, cf.T1 / 1.10)   # both phases exist with a margin (by construction)
    deltas = [spec["delta"]]
    for _ in range(draw(st.integers(1, 2))):
        Tn = tn_lo + draw(_f(0.0, 1.0)) * (tn_hi - tn_lo)
        deltas.append(round(1.0 - Tn / cf.Tc, 6))
    return {"kind": "manager", "spec": spec, "deltas": deltas, "repeat": draw(st.booleans()),
            "reregister": draw(st.sampled_from([False, False, True]))}


@st.composite
def st_case(draw, tier):
    if draw(st.sampled_from([False] * 19 + [True])):
        return draw(st_manager_case())
    k = draw(st.integers(0, 39))
    if k < 14:
        spec = draw(st_lte_template("template"))
    elif k < 22:
        spec = draw(st_lte_template("bag"))
    elif k < 30:
        spec = draw(st_lte_twostep())
    elif k < (39 if tier == "quick" else 37):
        spec = draw(st_lte_cubic())
    else:
        spec = draw(Z.st_cubic(family="traced"))   # ~4 s per case (interpolated EOS): 2.5 % quick, 7.5 % thorough
    tol = draw(Z.st_tolerances())
    if draw(st.integers(0, 4)) == 0:
        # a user-chosen absolute tolerance that is not negligible (the backward window scales with it)
        tol = [1e-6, 1e-6]
    if spec["family"] == "traced":
        tol = [1e-6, 1e-10]
    solver = "general"
    if spec["family"] in ("bag", "template") and draw(st.integers(0, 2)) == 0:
        solver = "template"
    return {"kind": "lte", "eos": spec, "tol": tol, "solver": solver}


def strategy(tier):
    return st_case(tier)


# ---------------------------------------------------------------------------------------------
# helpers
# ---------------------------------------------------------------------------------------------
def _is_num(x):
    try:
        return x is not None and math.isfinite(float(x))
    except (TypeError, ValueError):
        return False


def box(T, rtol, atol):
    return K * (atol + rtol * abs(T))


def gam(v):
    return 1.0 / math.sqrt(1.0 - v * v)


def S_abs(vp, vm, Tp, Tm):
    return Tp * gam(vp) - Tm * gam(vm)


def S_rel(m):
    return R.entropy_mismatch(*m)


def ref_S(eos, Tn, v, hint=None):
    """Reference matching at v -> (S/(T+ gamma+), Matching) or (None, reason)."""
    try:
        m = R.match_deflag(eos, Tn, v, hint_vp=hint)
    except R.RefFailure as exc:
        return None, str(exc).split(":")[0]
    if not m.ok:
        return None, (m.reason or "?").split(":")[0]
    return R.entropy_mismatch(m.vp, m.vm, m.Tp, m.Tm), m


def S_slope_vp(eos, m):
    """d(T+ gamma+ - T- gamma-)/dv+ along the family of exact junctions at fixed vw (reference slopes)."""
    gp, gm = gam(m.vp), gam(m.vm)
    d = m.dTp_dvp * gp + m.Tp * gp ** 3 * m.vp - m.dTm_dvp * gm
    if m.kind == "hybrid":
        h = 1e-6 * m.Tm
        dcb = (math.sqrt(eos.cb2(m.Tm + h)) - math.sqrt(eos.cb2(m.Tm - h))) / (2 * h)
        d -= m.Tm * gm ** 3 * m.vm * dcb * m.dTm_dvp
    return d


def cheb_nodes(a, b, n):
    return [0.5 * (a + b) - 0.5 * (b - a) * math.cos(math.pi * (i + 0.5) / n) for i in range(n)]


# ---------------------------------------------------------------------------------------------
# check
# ---------------------------------------------------------------------------------------------
def check_manager(case) -> Verdict:
    """manager-lte: what WallGoManager.wallSpeedLTE() returns after the k-th set-up on one manager is the LTE velocity
    of the CURRENT equation of state: equal (1e-12) to that of a fresh manager set up once with the same input, and -
    the property's literal form - if it lies strictly between the sentinels the manager's own matching at that
    velocity has T+ gamma+ = T- gamma- (measured 1e-8 of T+ gamma+; bound 1e-5)."""
    import WallGo
    from vlib import zoo_potentials as zp

    v = Verdict()
    spec0 = case["spec"]
    v.label("kind:manager", f"setups:{len(case['deltas'])}", f"reregister:{case['reregister']}")
    manager = None
    for k, delta in enumerate(case["deltas"]):
        spec = dict(spec0, delta=delta)
        try:
            if manager is None or case["reregister"]:
                manager = zp.setup_manager(spec, None, manager=manager)[0]
            else:
                info, dset = zp.phase_info(spec)
                manager.setupThermodynamicsHydrodynamics(info, dset)
            got = [manager.wallSpeedLTE() for _ in range(2 if case["repeat"] else 1)]
            fresh = zp.setup_manager(spec, None)[0].wallSpeedLTE()
        except (WallGo.WallGoError, AssertionError, RuntimeError) as exc:
            v.label(f"manager-outcome:{type(exc).__name__}")
            return v
        cls = f"manager/setup#{k + 1}" + ("/reregistered" if case["reregister"] else "")
        v.checked("manager-lte")
        for j, g in enumerate(got):
            if not (_is_num(g) and _is_num(fresh) and abs(float(g) - float(fresh)) <= 1e-12 * max(abs(float(fresh)), 1e-300)):
                v.fail("manager-lte", cls + "/vs-fresh-manager",
                       f"wallSpeedLTE() call {j + 1} after set-up {k + 1} (Tn = Tc(1-{delta})) returned {g!r}; a fresh manager "
                       f"set up once with the same input returns {fresh!r}", got=g, fresh=fresh)
                return v
        g = float(got[-1])
        if 0.0 < g < 1.0:
            if k > 0:
                v.nontrivial = True
            vp, vm, Tp, Tm = manager.hydrodynamics.findMatching(g)
            if all(_is_num(x) for x in (vp, vm, Tp, Tm)):
                S = S_abs(float(vp), float(vm), float(Tp), float(Tm)) / (float(Tp) * gam(float(vp)))
                v.info["manager_S_rel"] = max(abs(S), v.info.get("manager_S_rel", 0.0))
                if abs(S) > 1e-5:
                    v.fail("manager-lte", cls + "/entropy",
                           f"wallSpeedLTE() = {g!r} after set-up {k + 1}, but the manager's matching at that velocity has "
                           f"(T+ gamma+ - T- gamma-)/(T+ gamma+) = {S:.3e}", got=g, S=S)
                    return v
            v.label("manager-lte:interior")
        else:
            v.label("manager-lte:sentinel")
    return v


def check_case(case) -> Verdict:
    from WallGo import WallGoError

    if case.get("kind") == "manager":
        return check_manager(case)
    v = Verdict()
    spec = case["eos"]
    rtol, atol = (float(x) for x in case["tol"])
    solver = case["solver"]
    fam = spec["family"]
    v.label(f"family:{fam}", f"solver:{solver}", f"tol:{rtol:g}",
            "Tn-above-Tc" if spec.get("allow_unfavoured") else "Tn-below-Tc")
    if fam == "twostep":
        v.label("twostep:" + ("strongT" if spec.get("strongT") else "steepT" if spec.get("steepT") else "plain"))
    try:
        th, meta = Z.build(spec)
    except Z.ZooError as exc:
        if fam != "traced":
            raise
        v.label("zoo:traced-unhealthy")
        v.info["zoo_error"] = str(exc)[:200]
        return v.discarded("zoo:traced-unhealthy")
    Tn = meta["Tn"]
    eos = R.Eos(th, meta["T_valid"][0])
    alN, psiN = meta["alN"], meta["psiN"]
    v.info.update(alN=alN, psiN=psiN, alpha_over_min=alN / ((1.0 - psiN) / 3.0) if psiN < 1 else None)
    # distance of alpha_n to the thresholds of the template solver's decision (margins)
    mu, nu = 1.0 + 1.0 / meta["cs2n"], 1.0 + 1.0 / meta["cb2n"]
    thr = [(1.0 - psiN) / 3.0, (mu - nu) / (3.0 * mu), 1.0 / 3.0]
    near_alpha = min(abs(alN - t) for t in thr) < 1e-3 * max(alN, 1e-3)
    base = f"{solver}/{fam}"
    v.label("alpha>1/3" if alN > 1.0 / 3.0 else "alpha<1/3")
    try:
        if solver == "general":
            hyd = Z.build_hydro(th, rtol, atol)
            vmin, vJ = hyd.vMin, hyd.vJ
            matcher = hyd
        else:
            hyd = Z.build_template(th, rtol, atol)
            vmin, vJ = hyd.vMin, hyd.vJ
            matcher = hyd
    except WallGoError as exc:
        v.label("outcome:init-WallGoError")
        v.info["init_error"] = str(exc)[:200]
        return v
    except ValueError as exc:
        if near_alpha and "different signs" in str(exc):
            v.label("outcome:init-ValueError-in-margin")
            return v.discarded("margin:alpha-threshold")
        raise
    lo_v = max(vmin, 1e-3)
    if vmin > 1e-3:
        base += "/vMin>0"
    rel = "cs2>cb2" if mu < nu else "cs2<cb2" if mu > nu else "cs2=cb2"
    v.label(rel)
    v.info.update(vMin=vmin, vJ=vJ)
    try:
        res = hyd.findvwLTE()
    except WallGoError as exc:
        v.label("outcome:WallGoError")
        v.info["error"] = str(exc)[:200]
        return v
    except ValueError as exc:
        if near_alpha and "different signs" in str(exc):
            v.label("outcome:ValueError-in-margin")
            return v.discarded("margin:alpha-threshold")
        raise
    v.checked("sentinel-type")
    if not _is_num(res):
        v.fail("sentinel-type", base, f"findvwLTE returned {res!r}")
        return v
    vl = float(res)
    v.info["vwLTE"] = vl
    if vl == 0.0:
        outcome = "static"
    elif vl == 1.0:
        outcome = "runaway"
    elif lo_v <= vl <= vJ:
        outcome = "interior"
    else:
        v.fail("sentinel-type", base, f"findvwLTE = {vl!r} is neither a sentinel nor inside [vMin={vmin:.6g}, vJ={vJ:.6g}]")
        return v
    v.label(f"outcome:{outcome}")

    def wallgo_S(vw):
        """S/(T+ gamma+) from the solver's own findMatching, or None."""
        try:
            r = matcher.findMatching(vw)
        except WallGoError:
            return None, None
        if any(x is None for x in r) or not all(_is_num(x) for x in r):
            return None, None
        vp, vm, Tp, Tm = (float(x) for x in r)
        if not (0 < vp < 1 and 0 < vm < 1 and Tp > 0 and Tm > 0):
            return None, None
        return R.entropy_mismatch(vp, vm, Tp, Tm), (vp, vm, Tp, Tm)

    # ---------------------------------------------------------------- interior root
    if outcome == "interior":
        if vl - lo_v < MARGIN_V or vJ - vl < MARGIN_V:
            v.label("margin:root-near-threshold")
            return v.discarded("margin:root-near-threshold")
        w = K * (atol + rtol * vl)
        s0, m0 = ref_S(eos, Tn, vl)
        if s0 is None:
            v.label(f"ref:{m0}")
            if m0 in R.NO_SOLUTION_REASONS:
                v.fail("lte-root", f"{base}/no-matching",
                       f"findvwLTE = {vl:.10g} but no deflagration/hybrid matching exists at that velocity ({m0})")
                return v
            return v.discarded(f"reference:{m0}")
        sa, ma = ref_S(eos, Tn, vl - w, hint=m0.vp)
        sb, mb = ref_S(eos, Tn, vl + w, hint=m0.vp)
        if sa is None or sb is None or not m0.dTn_dvp:
            return v.discarded("reference:window")
        branch = m0.kind
        cls = f"{base}/{branch}/{Z.speed_bucket(vl)}"
        v.label(f"root-branch:{branch}", "speed:" + Z.speed_bucket(vl))
        scale = m0.Tp * gam(m0.vp)
        dSdv = abs(sb - sa) * scale / (2 * w)
        Svp = abs(S_slope_vp(eos, m0))
        tolS = dSdv * w + K * rtol * Tn * Svp / abs(m0.dTn_dvp) + K * atol * Svp
        v.checked("lte-root")
        v.nontrivial = True
        v.info.update(S_ref=[sa, s0, sb], S_tol_rel=tolS / scale, root_ratio=abs(s0) * scale / tolS if tolS > 0 else None,
                      kappa_v=(tolS / dSdv) / max(w, 1e-300) if dSdv > 0 else None)
        root_ok = sa * sb <= 0 or abs(s0) * scale <= tolS
        if not root_ok:
            cls += "/" + rel
            if solver == "template":
                # is the "root" a jump of the template solver's own shooting function (solveAlpha switching roots)?
                try:
                    def shoot(x):
                        return hyd._shooting(x, hyd.getVp(min(hyd.cb, x), hyd.solveAlpha(x)))

                    fa, fb = shoot(vl * (1 - 1e-4)), shoot(vl * (1 + 1e-4))
                    if fa * fb < 0 and min(abs(fa), abs(fb)) > 1e-3:
                        cls += "/jump"
                except Exception:  # noqa: BLE001  (labelling aid only)
                    pass
            v.fail("lte-root", cls,
                   f"findvwLTE = {vl:.10g} ({branch}) but the Tn-matched flow does not conserve entropy there: "
                   f"S/(T+ gamma+) = {sa:.3e} .. {s0:.3e} .. {sb:.3e} on the tolerance window +-{w:.1e} "
                   f"(tolerance image {tolS / scale:.2e}); alpha_n = {alN:.6g}, Psi_n = {psiN:.6g}",
                   vwLTE=vl, S=[sa, s0, sb], tol=tolS / scale)
        # the solver's own matching at v*
        sw, mw = wallgo_S(vl)
        if sw is None:
            v.label("matching-at-root:none")
        elif root_ok:
            v.checked("lte-matching")
            dvp = K * (atol + rtol * m0.vp) + K * rtol * Tn / abs(m0.dTn_dvp)
            extra = Svp * dvp + gam(m0.vp) * box(m0.Tp, rtol, atol) + gam(m0.vm) * box(m0.Tm, rtol, atol)
            v.info.update(S_wallgo=sw, S_matching_tol_rel=(tolS + extra) / scale)
            if abs(sw) * scale > tolS + extra:
                flag = ""
                if solver == "general" and not bool(getattr(matcher, "success", True)):
                    # the inner 2x2 solve (scipy hybr) did not converge and findMatching returned the result anyway:
                    # root cause C02-F1a (listed); does the returned tuple violate the junction conditions?
                    try:
                        r1, r2 = R.wall_residuals(eos, *mw)
                        if max(abs(r1), abs(r2)) > 1e3 * max(rtol, 1e-9):
                            flag = "/unconverged-flag/nonsolution"
                    except Exception:  # noqa: BLE001
                        pass
                v.fail("lte-matching", cls + flag,
                       f"findMatching({vl:.10g}) gives T+ gamma+ - T- gamma- = {sw:.3e} (relative), allowed "
                       f"{(tolS + extra) / scale:.2e}; the exact matching has {s0:.3e}: "
                       f"returned {mw}, exact {m0.tuple()}", vwLTE=vl, S_wallgo=sw, S_ref=s0)
        return v

    # ---------------------------------------------------------------- sentinels: window
    a, b = lo_v + 1e-3, vJ - 1e-3
    if b - a < 5e-3:
        v.label("window-too-narrow")
        return v.discarded("margin:window-too-narrow")

    if outcome == "static":
        s_lo, m_lo = ref_S(eos, Tn, a)
        if s_lo is None:
            v.label(f"ref:{m_lo}")
            if m_lo in R.NO_SOLUTION_REASONS:
                v.label("static:no-matching-at-vmin+")
                return v
            return v.discarded(f"reference:{m_lo}")
        v.info["S_at_vmin"] = s_lo
        if abs(s_lo) < MARGIN_S:
            v.label("margin:S-small-at-vmin")
            return v.discarded("margin:S-small-at-vmin")
        v.checked("lte-static")
        v.nontrivial = abs(s_lo) > NONTRIVIAL_S
        if s_lo > 0:
            # is there a root in the window at all?  (driving at v_min: the wall is not static)
            v.fail("lte-static", f"{base}/{Z.speed_bucket(a)}",
                   f"findvwLTE = 0 (static) but at the smallest allowed velocity {a:.6g} the entropy mismatch has the "
                   f"driving sign: S/(T+ gamma+) = {s_lo:.3e}; alpha_n = {alN:.6g}, (1-Psi_n)/3 = {(1 - psiN) / 3:.6g}",
                   S_at_vmin=s_lo, v=a)
        return v

    # ---------------------------------------------------------------- runaway
    nscan, nref = (NSCAN, NREF) if fam != "traced" else (8, 3)   # a traced EOS costs ~0.2-1 s per matching
    nodes = cheb_nodes(a, b, nscan)
    scan = []
    for x in nodes:
        sw, _ = wallgo_S(x)
        scan.append(sw)
    have = [(s, x) for s, x in zip(scan, nodes) if s is not None]
    v.info["scan_points_with_matching"] = len(have)
    ref_pts = cheb_nodes(a, b, nref)
    if have:
        ref_pts.append(min(have)[1])
    ref_pts = sorted(set([a, b] + ref_pts))
    sref = []
    for x in ref_pts:
        s, m = ref_S(eos, Tn, x)
        if s is None:
            if m in R.NO_SOLUTION_REASONS:
                continue
            v.label(f"ref:{m}")
            return v.discarded(f"reference:{m}")
        sref.append((s, x, m.kind))
    if not sref:
        v.label("runaway:no-reference-matching")
        return v
    v.checked("lte-runaway")
    smin, xmin, kmin = min(sref)
    s_end = [s for s, x, _ in sref if x in (a, b)]
    v.info.update(S_min_ref=smin, S_min_at=xmin, S_ends=s_end,
                  S_min_scan=min(have)[0] if have else None)
    if smin < -1e-9:
        if abs(smin) < MARGIN_S and all(s > -MARGIN_S for s, _, _ in sref) and min(abs(s) for s in s_end + [smin]) < MARGIN_S:
            v.label("margin:S-small-in-window")
            return v.discarded("margin:S-small-in-window")
        v.fail("lte-runaway", f"{base}/{kmin}/{rel}",
               f"findvwLTE = 1 (runaway) but the entropy mismatch has the stopping sign inside the window: "
               f"S/(T+ gamma+) = {smin:.3e} at vw = {xmin:.6g} ({kmin}); window [{a:.6g}, {b:.6g}], "
               f"S at the ends {s_end}; alpha_n = {alN:.6g}, Psi_n = {psiN:.6g}",
               S_min=smin, at=xmin, S_ref=[[x, s] for s, x, _ in sref])
        return v
    if min(abs(s) for s, _, _ in sref) < MARGIN_S:
        v.label("margin:S-small-in-window")
        return v.discarded("margin:S-small-in-window")
    v.nontrivial = min(s for s, _, _ in sref) > NONTRIVIAL_S
    # scan with the solver's own matchings: a negative value that the reference does not confirm is C02's subject
    if have and min(have)[0] < -MARGIN_S:
        v.label("scan-matching-disagrees-with-reference")
    return v
