"""C09 - in a uniform plasma the wall pressure equals the free-energy difference.

Sub-oracles
  fixed-pressure      EOM._intermediatePressureResults(..., temperatureProfileInput=const,
                      velocityProfileInput=const, multiplier=0) on the grid re-mapped with
                      EOM._updateGrid  ==  V(phi_low,T) - V(phi_high,T)  (closed form), for every
                      generated shape and every spatial grid size M in {40,50,60,80,120}
  fixed-shape-kept    multiplier=0 returns the wall parameters it was given
  fixed-convergence   err(2M) <= max(err(M)/4, floor)           (pairs 40->80, 60->120)
  step-consistency    one uniform-plasma step with multiplier in {0.5, 1} from the generated (non-optimal)
                      shape, grid mapped to the INCOMING shape as the solver does: the pressure returned
                      together with the NEW shape equals the pressure of that new shape evaluated through
                      the multiplier=0 entry point on the same grid (identical arithmetic -> rounding)
  step-pressure       the same step: pressure == V(phi_low,T) - V(phi_high,T) for the returned shape, with the
                      resolution of the returned shape on the grid mapped to the incoming one
  public-pressure     EOM.wallPressure(v_w, wallParams) on Bag1/Bag2 (field part T-independent)
                      == V0(phi_low) - V0(phi_high) for v_w on each branch
  profile-derivative  EOM.wallProfile: returned dphi/dz == 6th-order central difference of the
                      returned phi(z) (scalar-z and array-z code paths)
"""
from __future__ import annotations

import math

import numpy as np
from hypothesis import strategies as st

from vlib import zoo_potentials as zp
from vlib.core import Verdict

PROPERTY_ID = "C09"
ENGINE = "hypothesis @given (one manager set-up amortised over several shapes x 5 grid sizes per case)"
RULE = (
    "fixed: zoo potential (Z2x2, Cubic1, Cubic1T), temperature anywhere both phases exist, 6 tanh shapes "
    "(widths [1,10]/T, ratio <= 3, |offset| <= 2; a third of them on the rim ratio=3 or |offset|=2), each "
    "evaluated at M in {40,50,60,80,120}; the first 3 shapes of a case are also used as non-optimal starting "
    "shapes of one iteration step with multiplier 0.5 or 1 at M in {40,80} (grid mapped to the incoming shape)."
    "  public: Bag1/Bag2 through WallGoManager and EOM.wallPressure at "
    "one v_w per branch.  profile: wallProfile at generated z, widths, offsets, vevs.  Non-trivial = shape "
    "not symmetric (offset != 0 or unequal widths) and |dV| > 1e-6 T^4 (fixed/public); any z within 6 widths "
    "of the wall (profile).  Distinct by canonical JSON of the case."
)
BUDGET = {
    "quick": {"cases": 320, "shrink": False, "time_cap_s": 600},
    "thorough": {"cases": 6000, "shrink": False, "time_cap_s": 3000},
}
EPS = 2.0 ** -52
GRID_SIZES = [40, 50, 60, 80, 120]

# Resolution envelope of the Gauss-Lobatto quadrature on the re-mapped grid (DESIGN 2.4.4, last resort).
#   eta = M * min(widths) / L_grid ,  L_grid = wallThicknessGrid of EOM._updateGrid  (= 4 x number of grid
#   points per narrowest wall width).  Measured on the unchanged tree with this generator, Hypothesis seeds
#   1, 2, 3, 5, 8, 13 (641 fixed cases, 15 075 evaluations, S = range of V along the wall path):
#   max log10(err/S) per eta bin, Z2x2 / Bag2 (one-field families are shape-invariant, eta = M):
#     [7.5,10) -1.97/-1.60  [10,12.5) -3.04/-1.82  [12.5,15) -4.37/-3.36  [15,17.5) -5.27/-5.04
#     [17.5,20) -6.61/-5.97  [20,22.5) -7.90/-7.29  [22.5,25) -9.04/-9.00  [25,27.5) -10.79/-10.36
#   upper envelope  max_{eta<27.5}(log10(err/S) + 0.5 eta) = 2.80 (Z2x2), 3.27 (Bag2); x5 (+0.7) -> ENV_A.
#   Above eta ~ 28 the error no longer falls geometrically: an algebraic term from the end-point
#   singularity of the mapped integrand remains (max err/S at eta >= 30: M=40 1.3e-11, M=50 4.6e-12,
#   M=60 3.1e-12, seen on Bag1 where rounding is smallest); x5 and rounded up: TAIL_C (40/M)^TAIL_P.
#   The floor is not an envelope but the rounding bound of the 4th-order finite-difference gradient
#   (16 eps Vmax sum_i |dphi_i| / step_i) plus quadrature rounding; measured err/floor <= 0.03 where it
#   dominates (Z2x2, Cubic1, Cubic1T).
ENV_A = 4.0
ENV_B = 0.5
TAIL_C = 1e-10
TAIL_P = 4.0
ENV_A_STEP = 4.6
STEP_GRID_SIZES = (40, 80)
STEP_SHAPES = 3
KROUND = 16.0
TOLERANCES = {
    "envelope_log10_err_over_S": f"{ENV_A} - {ENV_B} * eta  (measured 3.27 - 0.5 eta over 6 seeds, x5)",
    "tail_term_over_S": f"{TAIL_C} * (40/M)^{TAIL_P}  (measured 1.3e-11 at M=40, x5 rounded up)",
    "eta": "M * min(widths) / wallThicknessGrid",
    "rounding_floor": "16 eps Vmax sum_i |phi_low_i - phi_high_i| / (fieldScale_i * 1e-3) + 64 eps M S",
    "convergence": "err(2M) <= max(err(M)/4, floor(2M))",
    "profile_fd": "h = 0.03 widths; 2 * 272/140 h^6 + 8 eps * 1.84 max|phi| / (h |dphi|)",
    "shape_kept": "exact (multiplier = 0)",
    "step_consistency": "|p_step - p_0(returned shape, same grid)| <= rounding_floor (the two calls perform the "
                        "same arithmetic on a correct tree; no envelope involved)",
    "step_pressure": "asserted in absolute terms only where the returned wall lies inside the wall region of the "
                     "grid mapped to the incoming shape (L_cover <= L_grid_used, L_cover = farthest outer edge of "
                     "the returned wall from the grid's wall mid-point), the returned shape is in the property's "
                     "domain (ratio <= 3, |offset| <= 2) and the envelope is not vacuous (eta_eff > 9.2; an "
                     "unresolved wall can miss by more than S): 10^(4.6 - 0.5 eta_eff) + tail + floor, "
                     "eta_eff = M min(returned widths)/L_grid_used; re-measured on the unchanged tree, Hypothesis "
                     "seeds 1,2,3,5,8,13, M in {40,60,120}, multiplier in {0.5,1}, 6066 steps of which 981 in this "
                     "regime: max log10(err/(10^(4.0-0.5 eta_eff)+tail+floor)) = -0.13, so ENV_A_STEP = 4.0+0.6 (x5.4). "
                     "Outside that regime (returned wall wider than / shifted out of the grid's wall region) the "
                     "quadrature degrades algebraically (measured err/S up to 1e-5 at L_cover/L_grid 1.5-2, O(1) "
                     "beyond 3, independent of the defect class) and only step_consistency is asserted, with the "
                     "measured error recorded in info.",
}
ASSUMPTIONS = [
    "The identity is asserted relative to S = max V - min V along the tanh path (the size of the pieces of "
    "the total-derivative integral), not relative to |dV|, which vanishes at T_c.",
    "'Resolved by the grid' is quantified by eta = M min(widths)/L_grid; the tolerance is the measured "
    "envelope in eta (vacuous below eta ~ 8, rounding floor above eta ~ 30) and is always paired with the "
    "convergence relation.",
    "Step route (multiplier 0.5, 1): the identity for the returned shape is split into (a) consistency of the "
    "returned pressure with the multiplier=0 evaluation of the returned shape on the same grid (rounding) and "
    "(b) the resolution error of that shape on that grid, which is asserted against the envelope only where "
    "the returned wall stays inside the grid's wall region; steps whose result sits on the solver's clipping "
    "bounds (the multiplier=0 call would clip it) are labelled, not compared.",
    "vevLowT/vevHighT handed to _intermediatePressureResults are the exact closed-form minima at the "
    "constant temperature (required for the total-derivative identity).",
    "Public route: asserted only if the wall parameters returned by wallPressure are inside the property's "
    "shape domain (ratio <= 3, |offset| <= 2) and the grid (mapped to the initial guess, as the solver does) "
    "matches the final shape within 5 % (second of two consecutive calls, the first seeded with the guess).",
    "Weak Bag deflagrations for which Hydrodynamics raises an AssertionError/WallGoError are labelled, not "
    "asserted (hydrodynamics belongs to C02/C06).",
]
EXHAUSTIVE_SUBDOMAINS = []

SETTINGS_KW = dict(bIncludeOffEquilibrium=False, meanFreePathScale=50.0, wallThicknessGuess=5.0)


# ---------------------------------------------------------------------------
# strategies
# ---------------------------------------------------------------------------
@st.composite
def st_shape(draw, nf):
    rim = draw(st.sampled_from(["no", "no", "ratio", "offset", "both"]))
    lr = draw(st.floats(-1.0, 1.0))
    if rim in ("ratio", "both"):
        lr = draw(st.sampled_from([-1.0, 1.0]))
    ratio = 3.0 ** lr
    off = draw(st.floats(-2.0, 2.0))
    if rim in ("offset", "both"):
        off = draw(st.sampled_from([-2.0, 2.0]))
    sym = draw(st.sampled_from([False] * 9 + [True]))
    if sym:
        ratio, off = 1.0, 0.0
    # narrowest width in [1, 10/ratio']
    rr = max(ratio, 1.0 / ratio)
    wmin = 10.0 ** draw(st.floats(0.0, math.log10(10.0 / rr)))
    if nf == 1:
        widths = [round(wmin, 4)]
        offs = [round(off, 4)]
    else:
        widths = [wmin, wmin * rr] if ratio >= 1 else [wmin * rr, wmin]
        widths = [round(min(max(w, 1.0), 10.0), 4) for w in widths]
        off0 = 0.0
        if draw(st.sampled_from([False] * 4 + [True])):  # the solver keeps offsets[0] = 0; the property does not
            off0 = round(draw(st.floats(-1.0, 1.0)), 3)
        offs = [off0, round(off, 4)]
    return {"w": widths, "off": offs, "mult": draw(st.sampled_from([1.0, 0.5, 1.0]))}


@st.composite
def st_fixed(draw):
    fam = draw(st.sampled_from(["Z2x2", "Z2x2", "Z2x2", "Cubic1", "Cubic1T", "Bag1", "Bag2"]))
    if fam == "Z2x2":
        spec = draw(zp.st_z2x2())
        nf = 2
    elif fam in ("Bag1", "Bag2"):
        nf = int(fam[-1])
        spec = draw(zp.st_bag(nf=nf))
    elif fam == "Cubic1":
        spec = draw(zp.st_cubic1(delta_range=(0.08, 0.9)))
        nf = 1
    else:
        spec = draw(zp.st_cubic1t(delta_range=(0.08, 0.9)))
        nf = 1
    nshape = 6 if nf == 2 else 3
    shapes = [draw(st_shape(nf)) for _ in range(nshape)]
    return {"kind": "fixed", "spec": spec, "tfrac": round(draw(st.floats(0.0, 1.0)), 4),
            "at_tn": draw(st.booleans()), "shapes": shapes, "Ms": list(GRID_SIZES),
            "warm_tfrac": draw(st.sampled_from([None, None, 0.05, 0.5, 0.95]))}


@st.composite
def st_public(draw):
    nf = draw(st.sampled_from([1, 2]))
    spec = draw(zp.st_bag(nf=nf))
    p = dict(spec["p"])
    # stronger transitions so that deflagrations exist for the hydrodynamics.  Two fields: an unequal pair
    # of kinks has a zero mode in the offset and the solver's minimiser runs to its bounds (shape leaves the
    # property's domain); nearly equal kink widths and an attractive coupling keep the walls together.
    if nf == 2:
        r = draw(st.floats(0.5, 2.0))
        p["v"] = [p["v"][0], round(p["v"][0] * r, 2)]
        p["lam"] = [p["lam"][0], round(p["lam"][0] / r ** 2 * draw(st.floats(0.85, 1.18)), 5)]
        p["lhs"] = -round(draw(st.floats(0.5, 0.9)) * math.sqrt(p["lam"][0] * p["lam"][1]), 5)
    Tn = round(draw(st.floats(0.35, 0.6)) * max(p["v"]), 2)
    p["a"] = round(draw(st.floats(20.0, 40.0)) * zp.GSTAR_A, 5)
    p["e"] = [round(p["lam"][i] * p["v"][i] ** 4 * draw(st.floats(0.06, 0.12)), 3) for i in range(nf)]
    spec = {"family": spec["family"], "p": p, "Tn": Tn}
    walls = []
    for branch in ("deflag", "hybrid", "deton"):
        walls.append({"branch": branch, "u": round(draw(st.floats(0.05, 0.95)), 4),
                      "wjit": [round(draw(st.floats(0.8, 1.25)), 3) for _ in range(nf)],
                      "off": round(draw(st.floats(-0.3, 0.3)), 3) if nf == 2 else 0.0})
    return {"kind": "public", "spec": spec, "M": draw(st.sampled_from([40, 50, 60])), "walls": walls}


@st.composite
def st_profile(draw):
    nf = draw(st.integers(1, 3))
    e = draw(st.integers(-2, 3))
    vl = [round(draw(st.floats(-3.0, 3.0)), 3) * 10.0 ** e for _ in range(nf)]
    vh = [round(draw(st.floats(-3.0, 3.0)), 3) * 10.0 ** e for _ in range(nf)]
    for i in range(nf):
        if abs(vl[i] - vh[i]) < 1e-3 * 10.0 ** e:
            vh[i] = vl[i] + 10.0 ** e
    ew = draw(st.integers(-3, 1))
    widths = [round(draw(st.floats(1.0, 10.0)), 3) * 10.0 ** ew for _ in range(nf)]
    offs = [round(draw(st.floats(-2.0, 2.0)), 3) for _ in range(nf)]
    nz = draw(st.integers(1, 6))
    zs = [round(draw(st.floats(-12.0, 12.0)), 3) for _ in range(nz)]  # in units of widths[0]
    if draw(st.sampled_from([False] * 5 + [True])):
        zs[0] = draw(st.sampled_from([0.0, -40.0, 40.0, 400.0]))
    return {"kind": "profile", "vl": vl, "vh": vh, "w": widths, "off": offs, "z": zs,
            "scalar": draw(st.booleans())}


def strategy(tier):
    return st.one_of(st_fixed(), st_fixed(), st_fixed(), st_fixed(), st_fixed(), st_fixed(),
                     st_public(), st_public(),
                     st_profile(), st_profile(), st_profile(), st_profile(), st_profile())


# ---------------------------------------------------------------------------
# helpers
# ---------------------------------------------------------------------------
def grid_geometry(widths, offsets):
    """wallThicknessGrid and wallCenterGrid exactly as the property's anchor (EOM._updateGrid) defines
    them - re-derived here only to *classify* the resolution of a shape (eta), not as an oracle."""
    w = np.asarray(widths, dtype=float)
    o = np.asarray(offsets, dtype=float)
    hi = np.max((1 - o) * w)
    lo = np.min((-1 - o) * w)
    L = (hi - lo) / 2
    return L, (hi + lo) / 2 - L * math.log(2) / 2


def coexistence_range(cf, Tn):
    ih, il = cf.instability("high"), cf.instability("low")
    lo = max(ih["lo"], il["lo"])
    hi = min(ih["hi"], il["hi"])
    lo = max(lo, 0.5 * Tn)
    hi = min(hi, 1.5 * Tn)
    m = 0.03 * (hi - lo)
    return lo + m, hi - m


def zero_boltzmann(eom):
    import WallGo
    from WallGo.containers import BoltzmannDeltas
    from WallGo.results import BoltzmannResults

    n = len(eom.grid.xiValues)
    npart = len(eom.particles)
    zero = WallGo.Polynomial(np.zeros((npart, n)), eom.grid, direction=("Array", "z"),
                             basis=("Array", "Cardinal"))
    deltas = BoltzmannDeltas(Delta00=zero, Delta02=zero, Delta20=zero, Delta11=zero)
    return BoltzmannResults(deltaF=np.zeros((npart, n, 1, 1)), Deltas=deltas, truncationError=0.0,
                            linearizationCriterion1=np.zeros(npart), linearizationCriterion2=np.zeros(npart))


def path_scale(cf, vl, vh, widths, offsets, T):
    """S = max V - min V and max |V| along the tanh path (closed form; own tanh, not wallProfile)."""
    w = np.asarray(widths, dtype=float)
    o = np.asarray(offsets, dtype=float)
    L, c = grid_geometry(w, o)
    z = c + np.linspace(-14.0, 14.0, 1601) * L
    x = vl[None, :] + 0.5 * (vh - vl)[None, :] * (1 + np.tanh(z[:, None] / w[None, :] + o[None, :]))
    V = cf.V(x, T)
    return float(V.max() - V.min()), float(np.max(np.abs(V)))


def rounding_floor(model, cf, vl, vh, Vabs, S, M):
    ds = model.getEffectivePotential().derivativeSettings
    fs = np.asarray(ds.fieldValueVariationScale, dtype=float)
    step = fs * model.getEffectivePotential().effectivePotentialError ** 0.2
    return KROUND * EPS * Vabs * float(np.sum(np.abs(vh - vl) / step)) + 64 * EPS * M * S


def envelope(eta, M):
    return min(1.0, 10.0 ** (ENV_A - ENV_B * eta) + TAIL_C * (40.0 / M) ** TAIL_P)


def shape_class(widths, offsets):
    w = np.asarray(widths, dtype=float)
    o = np.asarray(offsets, dtype=float)
    ratio = float(w.max() / w.min())
    omax = float(np.max(np.abs(o)))
    rel = float(np.max(o) - np.min(o)) if len(o) > 1 else omax
    if ratio == 1.0 and (len(o) == 1 and omax == 0.0 or len(o) > 1 and rel == 0.0 and omax == 0.0):
        return "symmetric"
    if ratio <= 2.0 + 1e-9 and omax <= 1.0:
        return "core"
    return "rim"


_EOM_CACHE = {}


def _eom_for(manager, M):
    import WallGo

    manager.config.configGrid.spatialGridSize = int(M)
    return manager.setupWallSolver(WallGo.WallSolverSettings(**SETTINGS_KW)).eom


def _check_step(v, eoms, case, shape, fam, model, cf, vl, vh, T, exact, widths, offs):
    """One uniform-plasma iteration step with multiplier > 0 from the generated shape."""
    import WallGo

    mult = float(shape.get("mult", 1.0))
    for M in STEP_GRID_SIZES:
        eom = eoms.get(M)
        if eom is None:
            continue
        Tn = float(eom.thermo.Tnucl)
        vmid = -0.5
        wp_in = WallGo.WallParams(widths=widths.copy(), offsets=offs.copy())
        eom._updateGrid(wp_in, vmid)
        n = len(eom.grid.xiValues)
        kw = dict(temperatureProfileInput=np.full(n, T), velocityProfileInput=np.full(n, vmid))
        res = eom._intermediatePressureResults(wp_in, WallGo.Fields(vl), WallGo.Fields(vh), -1.0, 1.0, vmid,
                                               zero_boltzmann(eom), T, T, multiplier=mult, **kw)
        p_step = float(res[0])
        w2 = np.array(res[1].widths, dtype=float)
        o2 = np.array(res[1].offsets, dtype=float)
        moved = float(np.max(np.abs(w2 / widths - 1))) + float(np.max(np.abs(o2 - offs)))
        Lu, cu = float(eom.grid.wallThickness), float(eom.grid.wallCenter)
        mid = cu + Lu * math.log(2) / 2
        Lcov = max(float(np.max((1 - o2) * w2)) - mid, mid - float(np.min((-1 - o2) * w2)))
        rc = max(Lcov, Lu) / Lu
        S, Vabs = path_scale(cf, vl, vh, w2, o2, T)
        floor = rounding_floor(model, cf, vl, vh, Vabs, S, M)
        err = abs(p_step - exact)
        cls = f"family={fam} multiplier={mult:g} M={M}"
        v.label(f"step:mult={mult:g}", "step:moved>10%" if moved > 0.1 else "step:moved<=10%",
                "step:cover<=1" if rc <= 1.0 else ("step:cover<=2" if rc <= 2 else "step:cover>2"))
        v.info.setdefault("step", []).append([M, mult, round(rc, 2), float(err / S)])
        # (a) consistency with the multiplier=0 evaluation of the returned shape on the same grid
        tb, ob = eom.wallThicknessBounds, eom.wallOffsetBounds
        clipped = (np.any(w2 > 0.9 * tb[1] / Tn) or np.any(w2 < 1.1 * tb[0] / Tn)
                   or np.any(o2 > 0.9 * ob[1]) or np.any(o2 < 1.1 * ob[0]))
        if clipped or not (np.all(np.isfinite(w2)) and np.all(np.isfinite(o2))):
            v.label("step:returned-shape-at-solver-bounds")
        else:
            wp_ret = WallGo.WallParams(widths=w2.copy(), offsets=o2.copy())
            res0 = eom._intermediatePressureResults(wp_ret, WallGo.Fields(vl), WallGo.Fields(vh), -1.0, 1.0, vmid,
                                                    zero_boltzmann(eom), T, T, multiplier=0, **kw)
            p0 = float(res0[0])
            v.checked("step-consistency")
            if not np.isfinite(p_step) or abs(p_step - p0) > floor:
                v.fail("step-consistency", cls,
                       f"one step with multiplier={mult:g} from widths*T={shape['w']} offsets={shape['off']} returned "
                       f"pressure {p_step!r} together with widths*T={(w2 * T).tolist()} offsets={o2.tolist()}, but the "
                       f"pressure of exactly that shape on the same grid (multiplier=0) is {p0!r}; "
                       f"V_low-V_high={exact!r}: |p_step-exact|/S={err / S:.3e}, |p_0-exact|/S={abs(p0 - exact) / S:.3e}",
                       p_step=p_step, p0=p0, exact=exact)
        # (b) absolute identity where the returned wall lies inside the wall region of the current grid
        eta = M * float(w2.min()) / Lu
        in_domain = float(w2.max() / w2.min()) <= 3.0 and float(np.max(np.abs(o2))) <= 2.0
        if rc <= 1.0 and not (in_domain and ENV_A_STEP - ENV_B * eta < 0):
            v.label("step:returned-shape-unresolved-or-outside-domain")
        elif rc <= 1.0:
            tol = min(1.0, 10.0 ** (ENV_A_STEP - ENV_B * eta) + TAIL_C * (40.0 / M) ** TAIL_P) * S + floor
            v.checked("step-pressure")
            if not np.isfinite(p_step) or err > tol:
                v.fail("step-pressure", cls,
                       f"step pressure {p_step!r} vs V_low-V_high {exact!r}: |err|/S={err / S:.3e} > {tol / S:.3e} "
                       f"(eta_eff={eta:.1f}, returned wall inside the grid's wall region) from widths*T={shape['w']} "
                       f"offsets={shape['off']} to widths*T={(w2 * T).tolist()} offsets={o2.tolist()}",
                       p_step=p_step, exact=exact)



# ---------------------------------------------------------------------------
# (i) fixed uniform profiles
# ---------------------------------------------------------------------------
def check_fixed(case, v: Verdict):
    import WallGo

    spec = case["spec"]
    fam = spec["family"]
    try:
        manager, model, cf, rel = zp.setup_manager(spec, {"spatialGridSize": 40})
    except WallGo.WallGoError as exc:
        v.discarded(f"set-up refused the model: {type(exc).__name__}")
        return
    Tn = float(manager.thermodynamics.Tnucl)
    if case.get("at_tn"):
        T = Tn
    else:
        lo, hi = coexistence_range(cf, Tn)
        T = lo + case["tfrac"] * (hi - lo)
    if not (cf.exists("low", T) and cf.exists("high", T)):
        v.discarded("a phase does not exist at the generated temperature")
        return
    vl = cf.phase("low", T)
    vh = cf.phase("high", T)
    exact = float(cf.V(vl, T) - cf.V(vh, T))
    v.label(f"family:{fam}", "kind:fixed", "T:Tn" if case.get("at_tn") else
            ("T:above_Tc" if exact > 0 else "T:below_Tc"))
    eoms = {}
    for M in case["Ms"]:
        eom = _eom_for(manager, M)
        if getattr(eom, "_intermediatePressureResults", None) is None or getattr(eom, "_updateGrid", None) is None:
            v.label("skipped:fixed-pressure (anchor attribute absent)")
            return
        eoms[M] = eom
    if case.get("warm_tfrac") is not None:
        # call history on the EOM object ("for every temperature" on one object): the same object first evaluated a
        # wall between the phases at ANOTHER temperature of the coexistence range (other minima, other field
        # difference); the pressure at T must not remember it
        lo_, hi_ = coexistence_range(cf, Tn)
        Tw = lo_ + case["warm_tfrac"] * (hi_ - lo_)
        if abs(Tw - T) > 1e-3 * T and cf.exists("low", Tw) and cf.exists("high", Tw):
            vlw, vhw = cf.phase("low", Tw), cf.phase("high", Tw)
            for M, eom in eoms.items():
                wpw = WallGo.WallParams(widths=np.full(len(vl), 5.0 / Tw), offsets=np.zeros(len(vl)))
                eom._updateGrid(wpw, -0.5)
                nw = len(eom.grid.xiValues)
                eom._intermediatePressureResults(
                    wpw, WallGo.Fields(vlw), WallGo.Fields(vhw), -1.0, 1.0, -0.5, zero_boltzmann(eom), Tw, Tw,
                    temperatureProfileInput=np.full(nw, Tw), velocityProfileInput=np.full(nw, -0.5), multiplier=0)
            v.label("eom-history:other-temperature-first")
        else:
            v.label("eom-history:none(warm temperature unusable)")
    else:
        v.label("eom-history:none")
    worst = 0.0
    pts = []
    any_nontrivial = False
    for shape in case["shapes"]:
        widths = np.array(shape["w"], dtype=float) / T
        offs = np.array(shape["off"], dtype=float)
        cls_shape = shape_class(widths, offs)
        Lg, _ = grid_geometry(widths, offs)
        S, Vabs = path_scale(cf, vl, vh, widths, offs, T)
        nontrivial = cls_shape != "symmetric" and abs(exact) > 1e-6 * T ** 4
        any_nontrivial = any_nontrivial or nontrivial
        errs = {}
        for M in case["Ms"]:
            eom = eoms[M]
            wp = WallGo.WallParams(widths=widths.copy(), offsets=offs.copy())
            vmid = -0.5
            eom._updateGrid(wp, vmid)
            n = len(eom.grid.xiValues)
            res = eom._intermediatePressureResults(
                wp, WallGo.Fields(vl), WallGo.Fields(vh), -1.0, 1.0, vmid, zero_boltzmann(eom), T, T,
                temperatureProfileInput=np.full(n, T), velocityProfileInput=np.full(n, vmid), multiplier=0)
            p, wp2 = float(res[0]), res[1]
            eta = M * float(widths.min()) / Lg
            err = abs(p - exact)
            errs[M] = err
            floor = rounding_floor(model, cf, vl, vh, Vabs, S, M)
            tol = envelope(eta, M) * S + floor
            v.checked("fixed-pressure")
            v.label(f"shape:{cls_shape}", f"M:{M}", f"eta:{int(min(eta, 40) // 5) * 5:02d}+")
            pts.append([M, round(eta, 2), round(math.log10(max(err / S, 1e-17)), 2), round(math.log10(floor / S), 2)])
            worst = max(worst, err / tol)
            cls = f"family={fam} shape={cls_shape} M={M}"
            if not np.isfinite(p) or err > tol:
                v.fail("fixed-pressure", cls,
                       f"pressure {p!r} vs V_low-V_high {exact!r}: |err|/S={err / S:.3e} > envelope "
                       f"{envelope(eta, M):.3e} (+floor {floor / S:.1e}) at eta={eta:.1f} widths*T={shape['w']} "
                       f"offsets={shape['off']} T={T:.6g}",
                       pressure=p, exact=exact, S=S, eta=eta)
            v.checked("fixed-shape-kept")
            if not (np.array_equal(np.asarray(wp2.widths), widths) and np.array_equal(np.asarray(wp2.offsets), offs)):
                v.fail("fixed-shape-kept", cls,
                       f"multiplier=0 changed the wall: widths {np.asarray(wp2.widths).tolist()} vs "
                       f"{widths.tolist()}, offsets {np.asarray(wp2.offsets).tolist()} vs {offs.tolist()}")
        # the same on the grid an out-of-equilibrium run adapts to the same wall: EOM._updateGrid then gives the two
        # tails different lengths (mean free path x gamma inside, / gamma outside).  (includeOffEq is switched on for the re-mapping only.)
        M0 = case["Ms"][0]
        eom = eoms[M0]
        wp = WallGo.WallParams(widths=widths.copy(), offsets=offs.copy())
        vmid = -0.5
        keep = (eom.includeOffEq, eom.meanFreePathScale)
        try:
            eom.includeOffEq = True
            # moderately longer tails (x1.5 inside, x1.13 outside of the minimal length): the rim of the wall region
            # keeps (almost) the node density the envelope was measured with
            tmin = Lg * (0.5 + 1.05 * eom.grid.smoothing) / eom.grid.ratioPointsWall
            eom.meanFreePathScale = 1.3 * tmin
            eom._updateGrid(wp, vmid)
        finally:
            eom.includeOffEq, eom.meanFreePathScale = keep
        n = len(eom.grid.xiValues)
        res = eom._intermediatePressureResults(
            wp, WallGo.Fields(vl), WallGo.Fields(vh), -1.0, 1.0, vmid, zero_boltzmann(eom), T, T,
            temperatureProfileInput=np.full(n, T), velocityProfileInput=np.full(n, vmid), multiplier=0)
        p = float(res[0])
        eta = M0 * float(widths.min()) / Lg
        err = abs(p - exact)
        tol = envelope(eta, M0) * S + rounding_floor(model, cf, vl, vh, Vabs, S, M0)
        v.checked("fixed-pressure-unequal-tails")
        v.info["worst_err_over_tol_unequal_tails"] = max(v.info.get("worst_err_over_tol_unequal_tails", 0.0), err / tol)
        if not np.isfinite(p) or err > tol:
            v.fail("fixed-pressure-unequal-tails", f"family={fam} shape={cls_shape} M={M0}",
                   f"grid with tails ({eom.grid.tailLengthInside * T:.3g}, {eom.grid.tailLengthOutside * T:.3g})/T: pressure {p!r} "
                   f"vs V_low-V_high {exact!r}: |err|/S={err / S:.3e} > envelope {envelope(eta, M0):.3e} at eta={eta:.1f} "
                   f"widths*T={shape['w']} offsets={shape['off']} T={T:.6g}", pressure=p, exact=exact, S=S, eta=eta)
        # ... and after the user re-maps that grid directly (public Grid3Scales.changePositionFalloffScale) with ONE
        # tail moderately lengthened, everything else as it is: positions and Jacobian must stay those of one map
        g3 = eom.grid
        for which in ("outside", "inside"):
            ti, to = float(g3.tailLengthInside), float(g3.tailLengthOutside)
            if which == "outside":
                to *= 1.3
            else:
                ti *= 1.3
            g3.changePositionFalloffScale(ti, to, float(g3.wallThickness), float(g3.wallCenter))
            res = eom._intermediatePressureResults(
                wp, WallGo.Fields(vl), WallGo.Fields(vh), -1.0, 1.0, vmid, zero_boltzmann(eom), T, T,
                temperatureProfileInput=np.full(n, T), velocityProfileInput=np.full(n, vmid), multiplier=0)
            p = float(res[0])
            err = abs(p - exact)
            # a tail 1.3x longer takes nodes away from the wall region: the envelope is taken at eta/1.3 (false alarm of
            # the first version at rim shapes: 4.1e-5 S against 2.6e-5 S at eta = 17)
            tol1 = envelope(eta / 1.3, M0) * S + rounding_floor(model, cf, vl, vh, Vabs, S, M0)
            v.checked("fixed-pressure-remapped-one-tail")
            v.info["worst_err_over_tol_one_tail"] = max(v.info.get("worst_err_over_tol_one_tail", 0.0), err / tol1)
            if not np.isfinite(p) or err > tol1:
                v.fail("fixed-pressure-remapped-one-tail", f"family={fam} shape={cls_shape} M={M0} tail={which}",
                       f"grid re-mapped with the {which} tail x1.3 -> ({g3.tailLengthInside * T:.3g}, "
                       f"{g3.tailLengthOutside * T:.3g})/T: pressure {p!r} vs V_low-V_high {exact!r}: |err|/S={err / S:.3e} "
                       f"> envelope {envelope(eta / 1.3, M0):.3e} at eta/1.3={eta / 1.3:.1f} widths*T={shape['w']} offsets={shape['off']}",
                       pressure=p, exact=exact, S=S, eta=eta)
        if case["shapes"].index(shape) < STEP_SHAPES:
            _check_step(v, eoms, case, shape, fam, model, cf, vl, vh, T, exact, widths, offs)
        for M1, M2 in ((40, 80), (60, 120)):
            if M1 in errs and M2 in errs:
                v.checked("fixed-convergence")
                floor2 = rounding_floor(model, cf, vl, vh, Vabs, S, M2)
                if errs[M2] > max(errs[M1] / 4, floor2):
                    v.fail("fixed-convergence", f"family={fam} shape={cls_shape} M={M1}->{M2}",
                           f"error does not fall with resolution: err({M1})={errs[M1]:.3e} "
                           f"err({M2})={errs[M2]:.3e} floor={floor2:.3e} S={S:.3e} widths*T={shape['w']} "
                           f"offsets={shape['off']}")
    v.nontrivial = any_nontrivial
    v.info["worst_err_over_tol"] = worst
    v.info["eta_log10err"] = pts[:60]
    v.info["T_over_Tn"] = T / Tn


# ---------------------------------------------------------------------------
# (ii) public route on Bag1/Bag2
# ---------------------------------------------------------------------------
def check_public(case, v: Verdict):
    import WallGo

    spec = case["spec"]
    fam = spec["family"]
    M = int(case["M"])
    v.label(f"family:{fam}", "kind:public", f"M:{M}")
    try:
        manager, model, cf, rel = zp.setup_manager(spec, {"spatialGridSize": M})
    except WallGo.WallGoError as exc:
        v.discarded(f"set-up refused the model: {type(exc).__name__}")
        return
    eom = _eom_for(manager, M)
    hy = manager.hydrodynamics
    Tn = float(hy.Tnucl)
    nf = cf.nf
    vl, vh = cf.phase("low", Tn), cf.phase("high", Tn)
    if not (cf.exists("low", Tn) and cf.exists("high", Tn)):
        v.discarded("generated Bag potential has no two minima")
        return
    exact = float(cf.V(vl, Tn) - cf.V(vh, Tn))
    cs = math.sqrt(float(manager.thermodynamics.csqLowT(Tn)))
    vJ = float(hy.vJ)
    wan = np.array([math.sqrt(2.0 / spec["p"]["lam"][i]) / (spec["p"]["v"][i] * float(spec.get("units", 1.0)))
                    for i in range(nf)])
    for wall in case["walls"]:
        br, u = wall["branch"], wall["u"]
        if br == "deflag":
            vw = max(2 * float(hy.vMin), 0.05) + u * (0.97 * cs - max(2 * float(hy.vMin), 0.05))
        elif br == "hybrid":
            vw = 1.005 * cs + u * (vJ - 1.005 * cs) * 0.99
        else:
            vw = vJ + (1 - vJ) * (0.02 + 0.96 * u)
        wp = WallGo.WallParams(widths=wan * np.array(wall["wjit"]),
                               offsets=np.array([0.0, wall["off"]])[:nf] if nf == 2 else np.array([0.0]))
        try:
            # first pass from the generated guess; second pass from the returned shape, as the solver does
            # when it feeds the wall parameters of the previous velocity into the next call - the grid is
            # mapped to the *initial* parameters of a call, so only the second pass has a matched grid
            _, wp1, _, _, _ = eom.wallPressure(float(vw), wp)
            wp1 = WallGo.WallParams(widths=np.array(wp1.widths, dtype=float), offsets=np.array(wp1.offsets, dtype=float))
            p, wp2, _, background, _ = eom.wallPressure(float(vw), wp1)
        except (WallGo.WallGoError, AssertionError) as exc:
            v.label(f"public:{br}:hydro-{type(exc).__name__}")
            continue
        # the field values between which wallPressure interpolated (end points of the returned background):
        # located by WallGo's phase tracing, i.e. minima only to its tolerance.  The total-derivative identity
        # is exact for these; their distance in V from the closed-form minima (second order) is added below.
        used_l = np.asarray(background.fieldProfiles, dtype=float)[0].reshape(nf)
        used_h = np.asarray(background.fieldProfiles, dtype=float)[-1].reshape(nf)
        exact_used = float(cf.V0(used_l) - cf.V0(used_h))
        slack = abs(float(cf.V0(used_l) - cf.V0(vl))) + abs(float(cf.V0(used_h) - cf.V0(vh)))
        p = float(p)
        widths = np.asarray(wp2.widths, dtype=float)
        offs = np.asarray(wp2.offsets, dtype=float)
        ratio = float(widths.max() / widths.min())
        Lfinal, cfinal = grid_geometry(widths, offs)
        Lused, cused = float(eom.grid.wallThickness), float(eom.grid.wallCenter)
        in_domain = ratio <= 3.0 and float(np.max(np.abs(offs))) <= 2.0
        matched = (max(Lfinal, Lused) / min(Lfinal, Lused) <= 1.05 and abs(cfinal - cused) <= 0.05 * Lused)
        v.label(f"public:{br}", "public:pressure-converged" if eom.successWallPressure else "public:not-converged")
        if not in_domain:
            v.label("public:final-shape-outside-domain")
            continue
        if not matched:
            v.label("public:grid-no-longer-matched")
            continue
        S, Vabs = path_scale(cf, vl, vh, widths, offs, Tn)
        Tmax = 1.5 * Tn
        Vabs = max(Vabs, spec["p"]["a"] * Tmax ** 4)
        eta = M * float(widths.min()) / max(Lfinal, Lused)
        floor = rounding_floor(model, cf, vl, vh, Vabs, S, M)
        tol = envelope(eta, M) * S + floor
        err = abs(p - exact_used)
        v.checked("public-pressure")
        v.checked("public-minima")
        if slack > 1e-6 * S:
            v.label("public:traced-minima-off>1e-6S")
        tol_exact = tol + slack
        cls_shape = shape_class(widths, offs)
        v.label(f"shape:{cls_shape}", f"eta:{int(min(eta, 40) // 5) * 5:02d}+")
        if cls_shape != "symmetric" and abs(exact) > 1e-6 * Tn ** 4:
            v.nontrivial = True
        v.info.setdefault("public", []).append([br, round(vw, 4), round(eta, 1), err / S, err / tol])
        if not np.isfinite(p) or err > tol or abs(p - exact) > tol_exact:
            v.fail("public-pressure", f"family={fam} branch={br} shape={cls_shape}",
                   f"wallPressure({vw:.4f}) = {p!r} vs V0 difference between the end-point fields {exact_used!r} "
                   f"(closed-form minima: {exact!r}): |err|/S={err / S:.3e} > {tol / S:.3e} (eta={eta:.1f}); "
                   f"final widths*Tn={(widths * Tn).tolist()} offsets={offs.tolist()}",
                   pressure=p, exact=exact, exact_used=exact_used)


# ---------------------------------------------------------------------------
# (iii) wallProfile
# ---------------------------------------------------------------------------
FD6 = np.array([-1 / 60, 3 / 20, -3 / 4, 0.0, 3 / 4, -3 / 20, 1 / 60])


def _profile_eom():
    if "eom" not in _EOM_CACHE:
        spec = {"family": "Cubic1", "p": {"g": 0.3, "A": 0.12, "lam": 0.1, "a": 5.0, "T0": 100.0}, "delta": 0.03}
        manager = zp.setup_manager(spec, {"spatialGridSize": 20})[0]
        _EOM_CACHE["eom"] = _eom_for(manager, 20)
    return _EOM_CACHE["eom"]


def check_profile(case, v: Verdict):
    import WallGo

    eom = _profile_eom()
    nf = len(case["w"])
    vl = np.array(case["vl"], dtype=float)
    vh = np.array(case["vh"], dtype=float)
    w = np.array(case["w"], dtype=float)
    o = np.array(case["off"], dtype=float)
    wp = WallGo.WallParams(widths=w.copy(), offsets=o.copy())
    FL, FH = WallGo.Fields(vl), WallGo.Fields(vh)
    zs = np.array(case["z"], dtype=float) * w[0]
    hx = 0.03
    v.label("kind:profile", f"nf:{nf}", "z:scalar" if case["scalar"] else "z:array")

    def prof(zarr):
        """phi, dphi at an array of z through the requested code path -> (len, nf) arrays"""
        if case["scalar"]:
            outs = [eom.wallProfile(float(z), FL, FH, wp) for z in zarr]
            return (np.array([np.asarray(a[0], dtype=float).reshape(nf) for a in outs]),
                    np.array([np.asarray(a[1], dtype=float).reshape(nf) for a in outs]))
        f, d = eom.wallProfile(np.asarray(zarr, dtype=float), FL, FH, wp)
        return np.asarray(f, dtype=float).reshape(len(zarr), nf), np.asarray(d, dtype=float).reshape(len(zarr), nf)

    # the EOM object is shared by all profile cases of a worker (other field counts, other minima before this one):
    # the profile is a function of its arguments only
    v.checked("profile-shape")
    try:
        phi0, dphi = prof(zs)
    except ValueError as exc:
        if "reshape" not in str(exc) and "broadcast" not in str(exc):
            raise
        v.fail("profile-shape", f"nf={nf}", f"EOM.wallProfile for {nf} field(s) at {len(zs)} position(s) returned arrays of "
               f"another size ({exc}) on an EOM object that evaluated other profiles before")
        return
    # far behind / in front of the wall the profile sits at the two minima it was given
    v.checked("profile-endpoints")
    zfar = 60.0 * float(np.max(w)) * (1.0 + float(np.max(np.abs(o))))
    ends, _ = prof(np.array([-zfar, zfar]))
    sc_f = max(float(np.max(np.abs(vl))), float(np.max(np.abs(vh))), 1e-300)
    if not (np.all(np.abs(ends[0] - vl) <= 1e-12 * sc_f) and np.all(np.abs(ends[1] - vh) <= 1e-12 * sc_f)):
        v.fail("profile-endpoints", f"nf={nf}", f"EOM.wallProfile at z = -+{zfar:.4g} is {ends[0].tolist()} / {ends[1].tolist()}; the "
               f"minima handed over are {vl.tolist()} / {vh.tolist()}")
        return
    v.checked("profile-derivative")
    near = False
    worst = 0.0
    for i in range(nf):
        h = hx * w[i]
        stencil = zs[:, None] + h * np.arange(-3, 4)[None, :]
        f, _ = prof(stencil.ravel())
        fi = f[:, i].reshape(len(zs), 7)
        fd = fi @ FD6 / h
        amp = abs(vh[i] - vl[i]) / w[i]
        x = zs / w[i] + o[i]
        near = near or bool(np.any(np.abs(x) < 6))
        phimax = max(abs(vl[i]), abs(vh[i]))
        tol = amp * 0.5 * (2 * 272.0 / 140.0 * hx ** 6) + 8 * EPS * 1.84 * phimax / h
        err = np.abs(dphi[:, i] - fd)
        worst = max(worst, float(np.max(err / tol)))
        if not np.all(np.isfinite(dphi[:, i])) or np.any(err > tol):
            k = int(np.argmax(err / tol))
            v.fail("profile-derivative", f"nf={nf} path={'scalar' if case['scalar'] else 'array'}",
                   f"field {i}: dphi/dz={dphi[k, i]!r} but central difference of phi gives {fd[k]!r} "
                   f"(tol {tol:.2e}) at z/w={zs[k] / w[i]:.4g}, offset {o[i]}, width {w[i]}",
                   got=float(dphi[k, i]), fd=float(fd[k]))
            break
        # the profile itself: ends and mid-point
        mid = 0.5 * (vl[i] + vh[i])
    v.nontrivial = near
    v.info["worst_err_over_tol"] = worst


def check_case(case) -> Verdict:
    v = Verdict()
    kind = case["kind"]
    if kind == "fixed":
        check_fixed(case, v)
    elif kind == "public":
        check_public(case, v)
    elif kind == "profile":
        check_profile(case, v)
    else:
        raise ValueError(kind)
    return v
