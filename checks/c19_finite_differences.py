"""C19 - finite-difference derivatives are exact on low-degree polynomials.

Sub-oracles
  table-moments   exact rational moment conditions for every row of every coefficient table
  hessian-moments exact two-dimensional moment conditions for the Hessian stencils
  deriv-exact     helpers.derivative equals the exact derivative (rounding bound)
  deriv-bounds    helpers.derivative never evaluates f outside the stated bounds
  deriv-shape     output shape = input shape (+ trailing axes of f)
  grad-exact / grad-shape / grad-axis      helpers.gradient
  hess-exact / hess-shape / hess-axis      helpers.hessian
  veff-*          EffectivePotential.derivT/derivField/deriv2Field2/deriv2FieldT/
                  allSecondDerivatives on polynomial potentials (derivT never evaluates T<0)
"""
from __future__ import annotations

import itertools
import math
from fractions import Fraction

import numpy as np
from hypothesis import strategies as st

from vlib.core import Verdict

PROPERTY_ID = "C19"
ENGINE = "exhaustive enumeration (exact rational arithmetic) + hypothesis @given"
RULE = (
    "Enumerated: every row of FIRST/SECOND_DERIV_COEFF/POS and HESSIAN_* for both orders "
    "(exact Fractions), and every bound-distance class k/2 steps, k=0..7, from either bound. "
    "Generated: polynomial (integer coefficients) of degree <= stencil points-1, x=m*2^e over "
    ">10 decades, dx, order, n, bounds, shapes, axes. Non-trivial = polynomial of maximal "
    "admissible degree, or a point within two steps of a bound, or a proper axis selection; "
    "distinct by canonical JSON of the case."
)
BUDGET = {
    "quick": {"cases": 6000, "shrink": True, "time_cap_s": 600},
    "thorough": {"cases": 300000, "shrink": True, "time_cap_s": 3000},
}
EPS = 2.0 ** -52
KROUND = 16.0
TOLERANCES = {"rounding_factor": KROUND, "eps": EPS}
EXHAUSTIVE_SUBDOMAINS = [
    "all rows of FIRST_DERIV_*, SECOND_DERIV_*, HESSIAN_* for orders 2 and 4 (exact rational moments)",
    "bound-distance classes k/2 steps (k=0..7) from lower/upper bound x order x n",
]
ASSUMPTIONS = [
    "The domain is at least 6 steps wide (narrower domains violate the documented precondition).",
    "Hessian stencils are required to be exact up to total degree order+1 (3 and 5): the order-4 "
    "stencil is the Richardson combination of the 4-point product stencil and no 8-point stencil "
    "of that shape is exact to degree 7.",
]

STENCIL_POINTS = {(1, 2): 2, (1, 4): 4, (2, 2): 3, (2, 4): 5}


# ---------------------------------------------------------------------------
# polynomial helpers (monomial lists: [coef, [e0, e1, ...]])
# ---------------------------------------------------------------------------
def poly_eval(mons, X):
    """X: (..., nv) array -> (...)"""
    X = np.asarray(X, dtype=float)
    out = np.zeros(X.shape[:-1])
    for c, ex in mons:
        term = np.full(X.shape[:-1], float(c))
        for i, e in enumerate(ex):
            if e:
                term = term * X[..., i] ** e
        out = out + term
    return out


def poly_abs(mons):
    return [[abs(c), ex] for c, ex in mons]


def poly_diff(mons, i):
    out = []
    for c, ex in mons:
        if ex[i] > 0:
            e2 = list(ex)
            e2[i] -= 1
            out.append([c * ex[i], e2])
    return out


def poly_deg(mons):
    return max((sum(ex) for c, ex in mons if c), default=0)


def poly_terms(mons):
    return max(1, len(mons))


def rounding_bound(mons, X):
    """|fl(P(X)) - P(X)| <~ eps * (deg+terms) * |P|(|X|) ; plus position rounding eps*|x_i|*|dP/dx_i|."""
    X = np.abs(np.asarray(X, dtype=float))
    a = poly_abs(mons)
    b = (poly_deg(mons) + poly_terms(mons) + 1) * poly_eval(a, X)
    for i in range(X.shape[-1]):
        b = b + X[..., i] * poly_eval(poly_abs(poly_diff(mons, i)), X)
    return EPS * b


# ---------------------------------------------------------------------------
# strategies
# ---------------------------------------------------------------------------
def st_dyadic(max_m=2 ** 16, emin=-24, emax=24):
    return st.tuples(st.integers(-max_m, max_m), st.integers(emin, emax))


def dy(v):
    return float(v[0]) * 2.0 ** v[1]


@st.composite
def st_poly1(draw, deg):
    coefs = [draw(st.integers(-9, 9)) for _ in range(deg + 1)]
    if deg > 0 and coefs[-1] == 0 and draw(st.booleans()):
        coefs[-1] = draw(st.sampled_from([-3, -1, 1, 2, 7]))
    return [[c, [k]] for k, c in enumerate(coefs)]


@st.composite
def st_polyN(draw, nv, maxdeg, nterms=6):
    mons = []
    for _ in range(draw(st.integers(1, nterms))):
        ex = [0] * nv
        budget = draw(st.integers(0, maxdeg))
        for _ in range(budget):
            ex[draw(st.integers(0, nv - 1))] += 1
        mons.append([draw(st.integers(-9, 9)), ex])
    # one term of maximal degree with mass 1/2
    if draw(st.booleans()):
        ex = [0] * nv
        for _ in range(maxdeg):
            ex[draw(st.integers(0, nv - 1))] += 1
        mons.append([draw(st.sampled_from([-5, -1, 1, 3])), ex])
    return mons


SHAPES = [[], [1], [3], [2, 2], [1, 3], [4, 1]]


@st.composite
def st_deriv_case(draw):
    order = draw(st.sampled_from([2, 4]))
    n = draw(st.sampled_from([1, 2]))
    npts = STENCIL_POINTS[(n, order)]
    deg = draw(st.sampled_from([npts - 1, npts - 1, draw(st.integers(0, npts - 1))]))
    poly = draw(st_poly1(deg))
    shape = draw(st.sampled_from(SHAPES))
    size = int(np.prod(shape)) if shape else 1
    e = draw(st.integers(-20, 20))
    s = draw(st.integers(-12, 22))  # dx = 2^(e+s-?)
    dx = [1, e + s - 8]
    bmode = draw(st.sampled_from(["none", "none", "lower", "upper", "both"]))
    xs = []
    # place x relative to bounds in units of dx/2
    place = draw(
        st.lists(
            st.sampled_from(["far", "k0", "k1", "k2", "k3", "k4", "k5"]), min_size=size, max_size=size
        )
    )
    side = draw(st.lists(st.sampled_from(["lo", "hi"]), min_size=size, max_size=size))
    b0 = dy(draw(st_dyadic(2 ** 12, e, e)))
    width_steps = draw(st.integers(12, 400))  # in half steps; >= 6 dx
    b1 = b0 + width_steps * 0.5 * dy(dx)
    for p, sd in zip(place, side):
        if bmode == "none":
            xs.append(dy(draw(st_dyadic(2 ** 12, e, e))))
            continue
        if p == "far" or (bmode == "lower" and sd == "hi") or (bmode == "upper" and sd == "lo"):
            k = draw(st.integers(6, width_steps - 6)) if width_steps >= 12 else 6
            xs.append(b0 + k * 0.5 * dy(dx))
        else:
            k = int(p[1])
            xs.append(b0 + k * 0.5 * dy(dx) if sd == "lo" else b1 - k * 0.5 * dy(dx))
    vec_out = draw(st.sampled_from([0, 0, 2]))
    dxmode = draw(st.sampled_from(["dx", "dx", "scale"]))
    return {
        "kind": "derivative", "order": order, "n": n, "poly": poly, "shape": shape, "x": xs,
        "dx": dy(dx), "bmode": bmode, "b0": b0, "b1": b1, "vec_out": vec_out, "dxmode": dxmode,
    }


@st.composite
def st_axis(draw, nv):
    mode = draw(st.sampled_from(["none", "none", "int", "list"]))
    if mode == "none":
        return None
    if mode == "int":
        return draw(st.integers(-nv, nv - 1))
    return draw(st.lists(st.integers(-nv, nv - 1), min_size=1, max_size=nv + 1))


@st.composite
def st_grad_case(draw, which):
    order = draw(st.sampled_from([2, 4]))
    nv = draw(st.integers(1, 4))
    if which == "gradient":
        maxdeg = {2: 1, 4: 3}[order]
    else:
        maxdeg = {2: 3, 4: 5}[order]
    poly = draw(st_polyN(nv, maxdeg))
    batch = draw(st.sampled_from([[], [1], [3], [2, 2]]))
    size = int(np.prod(batch)) if batch else 1
    e = draw(st.integers(-12, 12))
    xs = [[dy(draw(st_dyadic(2 ** 10, e, e))) for _ in range(nv)] for _ in range(size)]
    dxkind = draw(st.sampled_from(["float", "array", "scale_float", "scale_array"]))
    s = draw(st.integers(-10, 6))
    if dxkind in ("float", "scale_float"):
        step = 2.0 ** (e + s)
    else:
        step = [2.0 ** (e + s + draw(st.integers(-3, 3))) for _ in range(nv)]
    case = {"kind": which, "order": order, "nv": nv, "poly": poly, "batch": batch, "x": xs,
            "dxkind": dxkind, "step": step}
    if which == "gradient":
        case["axis"] = draw(st_axis(nv))
    else:
        case["xAxis"] = draw(st_axis(nv))
        case["yAxis"] = draw(st_axis(nv))
    return case


@st.composite
def st_veff_case(draw):
    nf = draw(st.integers(1, 3))
    npnt = draw(st.integers(1, 4))
    # degree <= 3 overall keeps every wrapper inside its exactness class, incl. one-sided derivT rows
    poly = draw(st_polyN(nf + 1, 3))
    e = draw(st.integers(-6, 8))
    fields = [[dy(draw(st_dyadic(2 ** 8, e, e))) for _ in range(nf)] for _ in range(npnt)]
    tscale = 2.0 ** draw(st.integers(-8, 8))
    fscale = draw(st.sampled_from(["float", "list"]))
    fs = 2.0 ** draw(st.integers(-6, 8))
    fsl = [fs * 2.0 ** draw(st.integers(-2, 2)) for _ in range(nf)]
    eps = 10.0 ** draw(st.integers(-15, -8))
    dT = tscale * eps ** 0.2
    tmode = draw(st.sampled_from(["scalar", "array"]))
    nT = 1 if tmode == "scalar" else npnt
    temps = []
    for _ in range(nT):
        cls = draw(st.sampled_from(["far", "near0", "near1", "near2", "zero"]))
        if cls == "far":
            temps.append(dT * draw(st.floats(3.0, 1e6)))
        elif cls == "zero":
            temps.append(0.0)
        elif cls == "near0":
            temps.append(dT * draw(st.floats(0.0, 1.0)))
        elif cls == "near1":
            temps.append(dT * draw(st.floats(1.0, 2.0)))
        else:
            temps.append(dT * draw(st.floats(2.0, 3.0)))
    case = {"kind": "veff", "nf": nf, "poly": poly, "fields": fields, "tscale": tscale,
            "fscale_kind": fscale, "fscale": fs if fscale == "float" else fsl, "eps": eps,
            "tmode": tmode, "T": temps}
    # (round-4 seeds) integer-typed field points - Fields([110, 130]) is what the repository's own tests pass -
    # with temperatures that are not integers; and a second polynomial installed IN PLACE on the same potential
    # object after the first round of calls (the documented modelParameters.update route), after which every
    # derivative is asked again at the same points
    if draw(st.integers(0, 3)) == 0:
        case["fields"] = [[float(draw(st.integers(-2 ** 10, 2 ** 10))) for _ in range(nf)] for _ in range(npnt)]
        case["fields_dtype"] = draw(st.sampled_from(["int64", "int32"]))
    if draw(st.integers(0, 2)) == 0:
        case["poly2"] = draw(st_polyN(nf + 1, 3))
    return case


def strategy(tier):
    return st.one_of(
        st_deriv_case(), st_deriv_case(), st_grad_case("gradient"), st_grad_case("hessian"),
        st_veff_case(),
    )


# ---------------------------------------------------------------------------
# enumeration
# ---------------------------------------------------------------------------
def enumerate_cases(tier):
    for order in ("2", "4"):
        for tab, nrows in (("FIRST", None), ("SECOND", None)):
            import WallGo.helpers as H

            n = len(getattr(H, f"{tab}_DERIV_COEFF")[order])
            for r in range(n):
                yield {"kind": "table", "table": tab, "order": order, "row": r}
        yield {"kind": "hessian_table", "order": order}
    # bound-distance classes, exact dyadic placement
    for order, n, side, k, shape in itertools.product(
        (2, 4), (1, 2), ("lo", "hi"), range(0, 8), ("scalar", "vector")
    ):
        yield {"kind": "rowselect", "order": order, "n": n, "side": side, "k": k, "shape": shape}


# ---------------------------------------------------------------------------
# checks
# ---------------------------------------------------------------------------
def _frac(x, den=48):
    f = Fraction(float(x)).limit_denominator(den)
    return f


def check_table(case, v: Verdict):
    import WallGo.helpers as H

    order = case["order"]
    coeff = getattr(H, f"{case['table']}_DERIV_COEFF")[order]
    pos = getattr(H, f"{case['table']}_DERIV_POS")[order]
    n = 1 if case["table"] == "FIRST" else 2
    r = case["row"]
    cls = f"{case['table']}_DERIV order={order} row={r}"
    v.checked("table-moments")
    v.nontrivial = True
    v.label(f"table:{case['table']}{order}")
    if coeff.shape != pos.shape:
        v.fail("table-moments", cls, f"coefficient/position tables differ in shape {coeff.shape} {pos.shape}")
        return
    c = [_frac(x) for x in coeff[r]]
    p = [_frac(x, 1) for x in pos[r]]
    for cf, cflt in zip(c, coeff[r]):
        if abs(float(cf) - float(cflt)) > 2e-16 * max(1.0, abs(float(cflt))):
            v.fail("table-moments", cls, f"coefficient {cflt!r} is not a rational with denominator <= 48")
            return
    if len(set(p)) != len(p):
        v.fail("table-moments", cls, f"repeated stencil position {pos[r]}")
    npts = len(c)
    for k in range(npts):
        m = sum(cj * pj ** k for cj, pj in zip(c, p))
        want = Fraction(math.factorial(k)) if k == n else Fraction(0)
        if m != want:
            v.fail("table-moments", cls,
                   f"moment k={k}: sum c_j pos_j^k = {m} (want {want}); coeff={coeff[r].tolist()} pos={pos[r].tolist()}")
            return
    # rows must be the ones the offset arithmetic expects: row index = number of steps missing
    # on the lower side (positive) or upper side (negative index)
    nrows = coeff.shape[0]
    half = (nrows - 1) // 2
    idx = r if r <= half else r - nrows  # offset value that selects this row
    # offset>0: x is closer than `half-idx+1`.. steps to the lower bound => no position below -(half-idx)
    if idx > 0:
        allowed_min = -(half - idx)
        if min(p) < allowed_min:
            v.fail("table-moments", cls, f"row selected {idx} steps inside lower bound reaches {min(p)} < {allowed_min}")
    elif idx < 0:
        allowed_max = half + idx
        if max(p) > allowed_max:
            v.fail("table-moments", cls, f"row selected near upper bound reaches {max(p)} > {allowed_max}")


def check_hessian_table(case, v: Verdict):
    import WallGo.helpers as H

    order = case["order"]
    pos = H.HESSIAN_POS[order]
    coeff = H.HESSIAN_COEFF[order]
    cls = f"HESSIAN order={order}"
    v.checked("hessian-moments")
    v.nontrivial = True
    v.label(f"table:HESSIAN{order}")
    c = [_frac(x) for x in coeff]
    px = [_frac(x, 1) for x in pos[0]]
    py = [_frac(x, 1) for x in pos[1]]
    maxdeg = {"2": 3, "4": 5}[order]
    # mixed derivative: sum c x^a y^b = [a==1 and b==1]
    for a in range(maxdeg + 1):
        for b in range(maxdeg + 1 - a):
            m = sum(cj * xj ** a * yj ** b for cj, xj, yj in zip(c, px, py))
            want = Fraction(1) if (a, b) == (1, 1) else Fraction(0)
            if m != want:
                v.fail("hessian-moments", cls, f"mixed moment (a,b)=({a},{b}) = {m}, want {want}")
                return
    # diagonal element: both offsets along the same axis -> positions px+py
    for k in range(maxdeg + 1):
        m = sum(cj * (xj + yj) ** k for cj, xj, yj in zip(c, px, py))
        want = Fraction(2) if k == 2 else Fraction(0)
        if m != want:
            v.fail("hessian-moments", cls, f"diagonal moment k={k} = {m}, want {want}")
            return


class Recorder:
    def __init__(self, mons, vec_out=0):
        self.mons = mons
        self.vec_out = vec_out
        self.calls = []

    def f1(self, x):
        x = np.asarray(x, dtype=float)
        self.calls.append(x.copy())
        val = poly_eval(self.mons, x[..., None])
        if self.vec_out:
            return np.stack([val * (k + 1) for k in range(self.vec_out)], axis=-1)
        return val

    def fN(self, X):
        X = np.asarray(X, dtype=float)
        self.calls.append(X.copy())
        return poly_eval(self.mons, X)


def _deriv_expected(mons, n, x):
    d = mons
    for _ in range(n):
        d = poly_diff(d, 0)
    return poly_eval(d, np.asarray(x, dtype=float)[..., None]) if d else np.zeros(np.shape(x))


def check_derivative(case, v: Verdict):
    import WallGo.helpers as H

    order, n, mons = case["order"], case["n"], case["poly"]
    shape = tuple(case["shape"])
    x = np.array(case["x"], dtype=float).reshape(shape) if shape else float(case["x"][0])
    dx = float(case["dx"])
    bmode = case["bmode"]
    b0 = case["b0"] if bmode in ("lower", "both") else -np.inf
    b1 = case["b1"] if bmode in ("upper", "both") else np.inf
    bounds = None if bmode == "none" else (b0, b1)
    rec = Recorder(mons, case.get("vec_out", 0))
    kwargs = dict(n=n, order=order, bounds=bounds)
    if case.get("dxmode", "dx") == "scale":
        eps = 1e-16
        kwargs.update(epsilon=eps, scale=dx / eps ** (1 / (n + order)))
    else:
        kwargs.update(dx=dx)
    xa = np.asarray(x, dtype=float)
    near = False
    if bmode != "none":
        near = bool(np.any(xa - 2 * dx < b0) or np.any(xa + 2 * dx > b1))
    deg = poly_deg(mons)
    npts = STENCIL_POINTS[(n, order)]
    v.label(f"derivative:n{n}o{order}", f"bounds:{bmode}", f"shape:{len(shape)}d",
            "near_bound" if near else "interior", f"deg{deg}")
    v.nontrivial = bool(deg == npts - 1 or near)
    cls = f"n={n} order={order} bounds={bmode} near={near} ndim={len(shape)}"
    res = H.derivative(rec.f1, x, **kwargs)
    res = np.asarray(res)
    v.checked("deriv-shape")
    want_shape = shape + ((case["vec_out"],) if case.get("vec_out") else ())
    if res.shape != want_shape:
        v.fail("deriv-shape", cls, f"result shape {res.shape}, expected {want_shape}")
        return
    v.checked("deriv-bounds")
    allpos = np.concatenate([c.ravel() for c in rec.calls])
    if np.any(allpos < b0) or np.any(allpos > b1):
        bad = allpos[(allpos < b0) | (allpos > b1)]
        v.fail("deriv-bounds", cls, f"f evaluated outside bounds ({b0},{b1}) at {bad[:4].tolist()}")
    # exactness; rounding bound from the recorded stencil positions
    v.checked("deriv-exact")
    pos = rec.calls[0]  # (npts, *shape)
    if pos.shape[0] != npts:
        v.fail("deriv-exact", cls, f"stencil uses {pos.shape[0]} points, expected {npts}")
        return
    span = pos.max(axis=0) - pos.min(axis=0)
    dx_eff = span / (npts - 1) if n == 2 or order == 2 and False else None
    # recover step from positions: the table positions are consecutive integers except the
    # central first-derivative rows; use the smallest gap
    srt = np.sort(pos, axis=0)
    gaps = np.diff(srt, axis=0)
    dx_eff = gaps.min(axis=0)
    coeffmax = {(1, 2): 1.0, (1, 4): 36 / 12, (2, 2): 2.0, (2, 4): 114 / 12}[(n, order)]
    rb = rounding_bound(mons, pos[..., None]).sum(axis=0) * coeffmax / dx_eff ** n
    exp = _deriv_expected(mons, n, xa)
    scale_out = [1.0] if not case.get("vec_out") else [k + 1.0 for k in range(case["vec_out"])]
    for k, sc in enumerate(scale_out):
        got = res[..., k] if case.get("vec_out") else res
        err = np.abs(got - sc * exp)
        tol = KROUND * sc * rb + 1e-300
        if np.any(err > tol):
            i = np.unravel_index(np.argmax(err / tol), err.shape) if err.shape else ()
            v.fail("deriv-exact", cls,
                   f"derivative off by {float(err[i]):.3e} (rounding bound {float(tol[i] if np.ndim(tol) else tol):.3e}) "
                   f"at x={float(xa[i]) if xa.shape else float(xa)} dx={dx}",
                   got=float(got[i]), expected=float((sc * exp)[i] if np.ndim(exp) else sc * exp))
            break
    v.info["max_err_over_bound"] = float(np.max(np.abs(res[..., 0] - exp if case.get("vec_out") else res - exp) / (KROUND * rb + 1e-300)))


def _axis_list(axis, nv):
    if axis is None:
        return list(range(nv))
    if isinstance(axis, int):
        return [axis]
    return list(axis)


def _step_kwargs(case, order, nder):
    kind, step = case["dxkind"], case["step"]
    eps = 1e-16
    f = eps ** (1 / (nder + order))
    if kind == "float":
        return {"dx": float(step)}, np.full(case["nv"], float(step))
    if kind == "array":
        return {"dx": np.array(step, dtype=float)}, np.array(step, dtype=float)
    if kind == "scale_float":
        return {"epsilon": eps, "scale": float(step) / f}, np.full(case["nv"], float(step))
    return {"epsilon": eps, "scale": np.array(step, dtype=float) / f}, np.array(step, dtype=float)


def check_gradient(case, v: Verdict):
    import WallGo.helpers as H

    order, nv, mons = case["order"], case["nv"], case["poly"]
    batch = tuple(case["batch"])
    X = np.array(case["x"], dtype=float).reshape(batch + (nv,))
    kw, steps = _step_kwargs(case, order, 1)
    axis = case["axis"]
    rec = Recorder(mons)
    res = np.asarray(H.gradient(rec.fN, X, order=order, axis=axis, **kw))
    al = _axis_list(axis, nv)
    deg = poly_deg(mons)
    maxdeg = {2: 1, 4: 3}[order]
    proper_axis = axis is not None and sorted(a % nv for a in al) != list(range(nv))
    v.nontrivial = bool(deg == maxdeg or proper_axis)
    v.label(f"gradient:o{order}", f"nv{nv}", f"batch{len(batch)}d", f"axis:{type(axis).__name__}",
            f"dx:{case['dxkind']}")
    cls = f"gradient order={order} axis={type(axis).__name__} dx={case['dxkind']} batch={len(batch)}d"
    v.checked("grad-shape")
    want = batch + (len(al),)
    if res.shape != want:
        v.fail("grad-shape", cls, f"shape {res.shape}, expected {want}")
        return
    v.checked("grad-exact")
    full = np.stack([poly_eval(poly_diff(mons, i), X) for i in range(nv)], axis=-1)
    exp = full[..., al]
    allpos = rec.calls[0]
    npts = 2 if order == 2 else 4
    cm = 0.5 if order == 2 else 8 / 12
    rbX = rounding_bound(mons, allpos).max() * npts * cm
    tol = KROUND * rbX / np.abs(steps[al])
    err = np.abs(res - exp)
    if np.any(err > tol + 1e-300):
        i = np.unravel_index(np.argmax(err / (tol + 1e-300)), err.shape)
        v.fail("grad-exact" if not proper_axis else "grad-axis", cls,
               f"gradient component {i} off by {float(err[i]):.3e} (bound {float(np.broadcast_to(tol, err.shape)[i]):.3e})",
               got=float(res[i]), expected=float(exp[i]))
    v.info["max_err_over_bound"] = float(np.max(err / (tol + 1e-300)))


def check_hessian(case, v: Verdict):
    import WallGo.helpers as H

    order, nv, mons = case["order"], case["nv"], case["poly"]
    batch = tuple(case["batch"])
    X = np.array(case["x"], dtype=float).reshape(batch + (nv,))
    kw, steps = _step_kwargs(case, order, 2)
    xA, yA = case["xAxis"], case["yAxis"]
    rec = Recorder(mons)
    res = np.asarray(H.hessian(rec.fN, X, order=order, xAxis=xA, yAxis=yA, **kw))
    xl, yl = _axis_list(xA, nv), _axis_list(yA, nv)
    deg = poly_deg(mons)
    maxdeg = {2: 3, 4: 5}[order]
    proper_axis = (xA is not None or yA is not None)
    v.nontrivial = bool(deg == maxdeg or proper_axis)
    v.label(f"hessian:o{order}", f"nv{nv}", f"batch{len(batch)}d",
            f"axes:{type(xA).__name__}/{type(yA).__name__}", f"dx:{case['dxkind']}")
    cls = (f"hessian order={order} xAxis={type(xA).__name__} yAxis={type(yA).__name__} "
           f"dx={case['dxkind']} batch={len(batch)}d")
    v.checked("hess-shape")
    want = batch + (len(xl), len(yl))
    if res.shape != want:
        v.fail("hess-shape", cls, f"shape {res.shape}, expected {want}")
        return
    v.checked("hess-exact")
    full = np.empty(batch + (nv, nv))
    for i in range(nv):
        di = poly_diff(mons, i)
        for j in range(nv):
            dij = poly_diff(di, j)
            full[..., i, j] = poly_eval(dij, X) if dij else 0.0
    exp = full[..., xl, :][..., :, yl]
    allpos = rec.calls[0]
    npts = 4 if order == 2 else 8
    cm = 0.25 if order == 2 else 16 / 48
    rbX = rounding_bound(mons, allpos).max() * npts * cm
    tol = KROUND * rbX / np.abs(steps[xl][:, None] * steps[yl][None, :])
    err = np.abs(res - exp)
    if np.any(err > tol + 1e-300):
        i = np.unravel_index(np.argmax(err / (tol + 1e-300)), err.shape)
        v.fail("hess-exact" if not proper_axis else "hess-axis", cls,
               f"hessian entry {i} off by {float(err[i]):.3e} (bound {float(np.broadcast_to(tol, err.shape)[i]):.3e})",
               got=float(res[i]), expected=float(exp[i]))
    v.info["max_err_over_bound"] = float(np.max(err / (tol + 1e-300)))


def check_rowselect(case, v: Verdict):
    import WallGo.helpers as H

    order, n, side, k = case["order"], case["n"], case["side"], case["k"]
    dx = 0.25
    b0, b1 = -3.0, 5.0  # width 32 steps
    x0 = b0 + 0.5 * k * dx if side == "lo" else b1 - 0.5 * k * dx
    npts = STENCIL_POINTS[(n, order)]
    mons = [[((-1) ** j) * (j + 2), [j]] for j in range(npts)]
    x = x0 if case["shape"] == "scalar" else np.array([x0, 1.0, x0])
    rec = Recorder(mons)
    res = np.asarray(H.derivative(rec.f1, x, n=n, order=order, bounds=(b0, b1), dx=dx))
    cls = f"rowselect n={n} order={order} side={side} k/2={k / 2}"
    v.nontrivial = True
    v.label(f"rowselect:n{n}o{order}")
    v.checked("deriv-bounds")
    allpos = np.concatenate([c.ravel() for c in rec.calls])
    if np.any(allpos < b0) or np.any(allpos > b1):
        v.fail("deriv-bounds", cls, f"stencil leaves [{b0},{b1}]: {sorted(set(allpos.tolist()))}")
    v.checked("deriv-exact")
    exp = _deriv_expected(mons, n, np.asarray(x, dtype=float))
    pos = rec.calls[0]
    rb = rounding_bound(mons, pos[..., None]).sum(axis=0) * 10 / dx ** n
    if np.any(np.abs(res - exp) > KROUND * rb):
        v.fail("deriv-exact", cls, f"got {res.tolist()} expected {np.asarray(exp).tolist()}")


def _make_veff(case):
    import WallGo
    from WallGo import Fields

    holder = {"mons": case["poly"]}
    nf = case["nf"]
    calls = []

    class PolyV(WallGo.EffectivePotential):
        fieldCount = nf
        effectivePotentialError = case["eps"]

        def evaluate(self, fields, temperature):
            f = np.asarray(fields, dtype=float)
            T = np.asarray(temperature, dtype=float)
            calls.append(np.array(np.broadcast_to(T, np.broadcast_shapes(T.shape, f.shape[:-1]))))
            X = np.empty(np.broadcast_shapes(f.shape[:-1], T.shape) + (nf + 1,))
            X[..., :nf] = f
            X[..., nf] = T
            return poly_eval(holder["mons"], X)

    V = PolyV()
    V.configureDerivatives(
        WallGo.VeffDerivativeSettings(
            temperatureVariationScale=float(case["tscale"]),
            fieldValueVariationScale=(float(case["fscale"]) if case["fscale_kind"] == "float"
                                      else [float(s) for s in case["fscale"]]),
        )
    )
    return V, calls, Fields, holder


def check_veff(case, v: Verdict):
    V, calls, Fields, holder = _make_veff(case)
    fdt = case.get("fields_dtype", "float")
    F = Fields(*[np.array(p, dtype=fdt) for p in case["fields"]])
    v.label(f"veff-fields:{fdt}")
    h = _check_veff_round(case, v, V, calls, F, case["poly"], "")
    if case.get("poly2"):
        # same object, same points, another polynomial (parameters changed in place); the arrays returned by the
        # first round belong to the caller, who may overwrite them
        if h is not None and h.flags.writeable:
            h *= 3.0
        holder["mons"] = case["poly2"]
        v.label("veff-history:parameters-updated-in-place")
        _check_veff_round(case, v, V, calls, F, case["poly2"], " after-parameter-update")


def _check_veff_round(case, v: Verdict, V, calls, F, mons, suffix):
    nf, eps = case["nf"], case["eps"]
    npnt = F.shape[0]
    T = float(case["T"][0]) if case["tmode"] == "scalar" else np.array(case["T"], dtype=float)
    Tb = np.broadcast_to(np.asarray(T, dtype=float), (npnt,))
    X = np.concatenate([np.asarray(F, dtype=float), Tb[:, None]], axis=1)
    dT = case["tscale"] * eps ** 0.2
    nearT = bool(np.any(Tb < 2 * dT))
    v.label("veff", f"nf{nf}", f"T:{case['tmode']}", "T_near_zero" if nearT else "T_far")
    v.nontrivial = bool(v.nontrivial or nearT or poly_deg(mons) == 3)
    cls = f"veff nf={nf} Tmode={case['tmode']} nearT0={nearT}" + (
        f" fields={case['fields_dtype']}" if case.get("fields_dtype") else "") + suffix
    fs = np.full(nf, case["fscale"]) if case["fscale_kind"] == "float" else np.array(case["fscale"])
    absP = rounding_bound(mons, np.abs(X) + np.append(fs, case["tscale"]) * 4).max() / EPS
    # --- derivT (callers pass one field point with a scalar T, or N points with N temperatures;
    #     a scalar T with several field points is not a supported call and is not generated)
    del calls[:]
    if case["tmode"] == "scalar" and npnt > 1:
        got = np.asarray(V.derivT(F, Tb.copy()))
    else:
        got = np.asarray(V.derivT(F, T))
    v.checked("veff-derivT-bounds")
    allT = np.concatenate([np.ravel(c) for c in calls]) if calls else np.array([])
    if allT.size and np.any(allT < 0):
        v.fail("veff-derivT-bounds", cls, f"potential evaluated at negative temperature {allT.min():.3e}")
    v.checked("veff-derivT")
    exp = poly_eval(poly_diff(mons, nf), X)
    if got.shape not in (exp.shape, ()) and got.size != exp.size:
        v.fail("veff-derivT", cls, f"shape {got.shape}, expected {exp.shape}")
    else:
        tol = KROUND * EPS * absP * 40 / dT
        err = np.abs(got.reshape(exp.shape) - exp) if got.size == exp.size else np.abs(got - exp)
        if np.any(err > tol):
            v.fail("veff-derivT", cls, f"dV/dT off by {err.max():.3e} (bound {tol:.3e})",
                   got=got.tolist(), expected=exp.tolist())
    # --- derivField
    dF = fs * eps ** 0.2
    v.checked("veff-derivField")
    got = np.asarray(V.derivField(F, T))
    exp = np.stack([poly_eval(poly_diff(mons, i), X) for i in range(nf)], axis=-1)
    if got.shape != exp.shape:
        v.fail("veff-derivField", cls, f"shape {got.shape}, expected {exp.shape}")
    else:
        tol = KROUND * EPS * absP * 8 / dF
        err = np.abs(got - exp)
        if np.any(err > tol):
            v.fail("veff-derivField", cls, f"dV/dphi off by {err.max():.3e} (bound {tol.min():.3e})")
    # --- second derivatives
    steps = np.append(fs, case["tscale"]) * eps ** (1 / 6)
    full = np.empty((npnt, nf + 1, nf + 1))
    for i in range(nf + 1):
        di = poly_diff(mons, i)
        for j in range(nf + 1):
            dij = poly_diff(di, j)
            full[:, i, j] = poly_eval(dij, X) if dij else 0.0
    tolH = KROUND * EPS * absP * 8 / (steps[:, None] * steps[None, :])
    # hessian steps in T may reach below zero only via hessian (no bound there: property only
    # bounds derivT), so no bounds assertion for these
    v.checked("veff-deriv2Field2")
    got = np.asarray(V.deriv2Field2(F, T))
    exp = full[:, :nf, :nf]
    if got.shape != exp.shape:
        v.fail("veff-deriv2Field2", cls, f"shape {got.shape}, expected {exp.shape}")
    elif np.any(np.abs(got - exp) > tolH[:nf, :nf]):
        v.fail("veff-deriv2Field2", cls, f"d2V/dphi2 off by {np.abs(got - exp).max():.3e}")
    v.checked("veff-deriv2FieldT")
    got = np.asarray(V.deriv2FieldT(F, T))
    exp = full[:, :nf, nf]
    if got.shape != exp.shape:
        v.fail("veff-deriv2FieldT", cls, f"shape {got.shape}, expected {exp.shape}")
    elif np.any(np.abs(got - exp) > tolH[:nf, nf]):
        v.fail("veff-deriv2FieldT", cls, f"d2V/dphidT off by {np.abs(got - exp).max():.3e}")
    v.checked("veff-allSecond")
    h, g, t2 = V.allSecondDerivatives(F, T)
    h, g, t2 = np.asarray(h), np.asarray(g), np.asarray(t2)
    if h.shape != (npnt, nf, nf) or g.shape != (npnt, nf) or t2.shape != (npnt,):
        v.fail("veff-allSecond", cls, f"shapes {h.shape} {g.shape} {t2.shape}")
        return None
    else:
        if np.any(np.abs(h - full[:, :nf, :nf]) > tolH[:nf, :nf]):
            v.fail("veff-allSecond", cls, "field Hessian block differs from exact")
        if np.any(np.abs(g - full[:, nf, :nf]) > tolH[nf, :nf]):
            v.fail("veff-allSecond", cls, "mixed field-T block differs from exact")
        if np.any(np.abs(t2 - full[:, nf, nf]) > tolH[nf, nf]):
            v.fail("veff-allSecond", cls, "d2V/dT2 differs from exact")
    return h


def check_case(case) -> Verdict:
    v = Verdict()
    kind = case["kind"]
    if kind == "table":
        check_table(case, v)
    elif kind == "hessian_table":
        check_hessian_table(case, v)
    elif kind == "rowselect":
        check_rowselect(case, v)
    elif kind == "derivative":
        check_derivative(case, v)
    elif kind == "gradient":
        check_gradient(case, v)
    elif kind == "hessian":
        check_hessian(case, v)
    elif kind == "veff":
        check_veff(case, v)
    else:
        raise ValueError(kind)
    return v
