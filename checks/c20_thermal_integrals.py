"""C20 - thermal integrals, their shipped tables and the ideal-gas limit agree.

Independent oracle (shares no code with WallGo.PotentialTools)
  x >= 0.01         Bessel series  J_b = -sum_n x K2(n sqrt x)/n^2,  J_f the same with (-1)^(n+1);
                    J' = (sqrt x / 2) sum K1(n sqrt x)/n (alternating for f), J'' = -(1/4) sum K0(n sqrt x);
                    summed until a rigorous tail bound is below 1e-17 of the sum.
  x < 0.01          mpmath tanh-sinh quadrature (20 digits) of the *defining complex integrand*
                    y^2 log(1 -/+ exp(-sqrt(y^2+x))) with principal branches, the interval split at
                    every point where the argument of the logarithm vanishes; Re J' from
                    J'(x) = -/+ (1/2) int log(1 -/+ exp(-sqrt(y^2+x))) dy (integration by parts).
  imaginary parts   closed forms of the principal-branch integral,
                    Im J_b = (pi/6)a^3 - (pi/32)a^4 + (pi/3) sum_k (a^2-(2k pi)^2)_+^(3/2),
                    Im J_f = (pi/32)a^4 - (pi/3) sum_k (a^2-((2k+1)pi)^2)_+^(3/2),   a^2 = -x,
                    cross-checked against the quadrature in every evaluation (else the case is discarded).
  J(0)              -pi^4/45, -7 pi^4/360.

Sub-oracles
  table-meta        10 000 rows, abscissae = linspace(-20, 1000), both objects carry a table
  zero-closed       J(0) direct = closed form
  table-row         every shipped row (Re, Im) equals the oracle
  spline-mid        shipped interpolant and its first derivative at every interval midpoint equal a scipy
                    not-a-knot spline of ORACLE values on the same abscissae (rows already reported by
                    table-row are substituted by the table's own value, so one corrupt row is reported once)
  interp-true       shipped interpolant, first (and for x >= 1.5 second) derivative against the true
                    function, bounded by the Hall-Meyer cubic-spline bounds with f'''' from the oracle
                    plus a measured envelope around the non-analytic points x = 0 and (J_f) x = -pi^2
  direct-value      direct evaluation (Re, Im) against the oracle within the quad tolerance
  direct-decay      |J(x)| <= closed-form Boltzmann bound (+ quad tolerance) for x >= 25
  direct-identity   Re J_f(x) = Re J_b(x) - Re J_b(4x)/8  (metamorphic, no oracle needed)
  direct-d1/-d2     finite-difference derivative of the direct evaluation
  shape             output shape is x.shape + (2,), array evaluation = element-wise evaluation
  extrap-const/-none  evaluation beyond the table ends
  pot-sum           potentialOneLoopThermal = T^4/(2 pi^2) [sum n_B Re J_b + sum n_F Re J_f] of its own
                    integrals object evaluated point by point by the harness (structure, broadcasting)
  pot-oracle        the same against the oracle integrals
  pot-SB            all massless => -pi^2/90 (n_B + 7/8 n_F) T^4
  pot-heavy         all m/T in [15, 40] => |V_T| below the closed-form Boltzmann bound
  pot-continuity    |V(m^2+delta) - V(m^2)| <= L |delta| T^2/(2 pi^2) + noise, incl. across m^2 = 0 and
                    the table ends with CONSTANT extrapolation
  pot-abs-arg       ABS_ARGUMENT: V(m^2) = V(|m^2|) for bosons AND fermions
  pot-error         ERROR: ValueError iff some m^2 < 0
  pot-abs-result    ABS_RESULT: result is finite and non-negative when some m^2 < 0 (only that is asserted)
  jcw / cw-sum      jCW and potentialOneLoop against n m^4 (ln|m^2/mu^2| - c)/(64 pi^2) (+ i pi n m^4/(64 pi^2)
                    for m^2 < 0), bosons minus fermions
"""
from __future__ import annotations

import math

import numpy as np
from hypothesis import strategies as st

from vlib.core import Verdict

PROPERTY_ID = "C20"
ENGINE = ("exhaustive enumeration of all 2 x 10000 table rows and 2 x 9999 interval midpoints "
          "(scipy Bessel series / mpmath quadrature oracle) + hypothesis @given")
RULE = (
    "Enumerated in BOTH tiers (nothing is strided): every row and every interval midpoint of both shipped "
    "tables, in blocks of 25 rows for x <= 0.3 (mpmath oracle) and 280 rows above (Bessel series), each block "
    "with 12 margin rows for the local oracle spline. Generated: (a) arguments in [-60, 5000] drawn from the "
    "classes generic / log-uniform / within 10^-9..1 of 0, -pi^2, -4 pi^2, -20, 1000 / beyond either table "
    "end / exactly a table row, evaluated directly (three call paths), interpolated (5-point half-spacing "
    "stencil), extrapolated (NONE, CONSTANT), derivative orders 0-2, scalar / 0-d / 1-d / 2-d input; "
    "(b) one-loop thermal potential of a concrete EffectivePotentialNoResum subclass with 0-4 bosons and "
    "0-4 fermions, dof in [0, 30], m_i^2 = A_i + B_i phi^2, spectra massless / light / heavy / mixed / "
    "slightly negative / around zero / around the table ends, T over five decades as float, 0-d or per-point "
    "array, 1-4 field points, direct or shipped-table integrals, all four imaginary-part options; (c) jCW; "
    "(d) call histories on one Integrals() object (built directly or owned by a potential without tables): "
    "probe arguments evaluated before and after a scan of 510-990 further arguments (more than the "
    "adaptive-update threshold of InterpolatableFunction), the value must not change and must still be the integral. "
    "Non-trivial = argument is not a table abscissa (point cases) resp. at least one boson and one fermion "
    "with distinct masses (potential cases); distinct by canonical JSON of the case."
)
BUDGET = {
    "quick": {"cases": 6000, "shrink": True, "time_cap_s": 600, "shrink_cap_s": 60},
    "thorough": {"cases": 150000, "shrink": True, "time_cap_s": 3000},
}

# ---------------------------------------------------------------------------
# constants and tolerances
# ---------------------------------------------------------------------------
NROWS = 10000
XMIN, XMAX = -20.0, 1000.0
H = (XMAX - XMIN) / (NROWS - 1)
PI = math.pi
PI2 = PI * PI
RHO = 2.0 - math.sqrt(3.0)          # decay rate per interval of a cubic-spline perturbation (closed form)
JB0 = -PI ** 4 / 45.0
JF0 = -7.0 * PI ** 4 / 360.0
SERIES_MIN = 0.01                   # Bessel series used for x >= SERIES_MIN
QUAD_EPS = 1.49e-8                  # scipy.integrate.quad default epsabs = epsrel used by integrals._integrator
KQ = 10.0                           # DESIGN 2.4 factor on a solver tolerance
ORACLE_ERR = 1e-12                  # oracle accuracy (validated: closed-form Im, J_f = J_b(x) - J_b(4x)/8, dps 20 vs 35)
MARGIN = 12                         # margin rows of a block; RHO**12 = 1.4e-7
CUT_ERR = RHO ** MARGIN * 1e-2      # effect of cutting the oracle spline (<= RHO^M * inherent error <= 1e-2)
KT = 2.0                            # slack on the finite-difference estimate of f''''
ENV_SAFETY = 5.0
COARSE_REL = 0.05                   # where the module disclaims quad convergence (interior singular points)
# Measured envelope of |shipped interpolant - true function| / RHO^max(0,|x-xs|/H-1) within 3 intervals of the
# non-analytic point xs (unchanged tree, 24 points per interval, value and first derivative, Re and Im).
ENV0 = {
    ("Jb", 0.0): {"v_re": 1.1e-3, "v_im": 1.1e-3, "d_re": 7.2e-2, "d_im": 6.0e-2},
    ("Jf", 0.0): {"v_re": 2.8e-5, "v_im": 5.9e-5, "d_re": 1.0e-3, "d_im": 2.9e-3},
    ("Jf", -PI2): {"v_re": 3.2e-3, "v_im": 1.1e-3, "d_re": 1.3e-1, "d_im": 1.1e-1},
}
SMOOTH_ENV = 3e-7                   # measured max inherent value error >= 8 intervals away from xs (x5 when used)
FD_NOISE = 4.4e-10                  # measured max |direct - oracle| in the regular regions (x5 when used, d2 only)
TOLERANCES = {
    "quad_eps (scipy default epsabs=epsrel used by the code and to make the tables)": QUAD_EPS,
    "KQ": KQ,
    "row/direct tolerance": "KQ*quad_eps*n_integrals*(1+|J|) + oracle_err; Im must be exactly 0 for x >= 0",
    "oracle_err": ORACLE_ERR,
    "spline-mid": "value 2*rowtol + cut; derivative 6*rowtol/H + cut*6/H (Lebesgue-type constants of the cubic spline)",
    "interp-true": "2*rowtol + KT*(5/384) H^4 max|f''''| + 5*ENV0*RHO^max(0,d/H-1); derivative 6*rowtol/H + "
                   "KT*(1/24) H^3 max|f''''| + 5*ENV0_d*RHO^...; second derivative 12*rowtol/H^2 + KT*(3/8) H^2 max|f''''|"
                   " (Hall-Meyer constants; f'''' from 4th differences of the oracle at spacing H/2)",
    "KT": KT,
    "direct-d1": "(1.5/dx)*(row/direct tolerance) + 1e-9, dx = 1e-16^(1/5): noise amplification of the 4th-order stencil",
    "direct-d2": "(16/3/dx^2)*5*FD_NOISE*(1+|J|) + 1e-5, dx = 1e-16^(1/6) (the quad-tolerance-derived bound would be "
                 "vacuous, 0.17*(1+|J|); measured envelope instead)",
    "direct-decay": "closed form x K2(s)(1+e^-s) with K2(s) <= sqrt(pi/2s) e^-s (1+15/8s+105/128s^2), plus the quad tolerance",
    "pot-*": "thermal sum of the per-integral tolerances times T^4/(2 pi^2); pot-sum/pot-abs-arg 1e-12 relative (rounding)",
    "pot-continuity": "L = 1.5*max(|J'_oracle|, pi^2/12 near 0) + 0.05 (+ 5*ENV0_d with tables); noise 2*direct tolerance "
                      "(direct) or 1e-13 (tables: the spline is exactly continuous)",
    "jcw/cw-sum": "1e-13 / 1e-12 relative to the sum of |terms| (rounding)",
    "ENV0 (measured on the unchanged tree, x5 in use)": {f"{k[0]}@{k[1]:.4f}": v for k, v in ENV0.items()},
    "SMOOTH_ENV (measured, x5, only in the potential with tables)": SMOOTH_ENV,
    "FD_NOISE (measured, x5, only for direct-d2)": FD_NOISE,
    "coarse_rel (beyond the documented convergence of quad)": COARSE_REL,
    "margin_rows": MARGIN,
}
EXHAUSTIVE_SUBDOMAINS = [
    "all 10000 rows of InterpolationTable_Jb.txt and of InterpolationTable_Jf.txt, Re and Im column, against the "
    "oracle (quick and thorough; negative-x rows are NOT strided: the mpmath oracle costs 0.04 s per row)",
    "all 9999 interval midpoints of either table: shipped interpolant and first derivative against the oracle "
    "spline and against the true function (quick and thorough)",
    "direct evaluation of J_b and J_f (public direct path) at all 2 x 10000 table abscissae against the oracle "
    "(quick and thorough)",
]
ASSUMPTIONS = [
    "The tables are required to be as accurate as the quadrature that produced them promises: "
    "KQ*1.49e-8*(number of quad calls)*(1+|J|). DESIGN's 1e-8+1e-7|J| is tighter than quad's epsabs for |J| << 1.",
    "Between table rows the property cannot hold better than cubic-spline theory allows; near x = 0 and "
    "(J_f) x = -pi^2, where J behaves like |x-xs|^(3/2), a measured envelope x5 is used (value up to 1.1e-3, "
    "first derivative up to 0.13 on the unchanged tree) and decays with the closed-form rate 2-sqrt(3) per interval.",
    "integrals.py disclaims quad convergence for 'large negative x'. This is read as: arguments for which the "
    "integrand has an interior singular point that quad is not told about AND that lie outside the shipped "
    "table, i.e. J_b for x < -4 pi^2 and J_f for x < -20; there only a 5 % bound is asserted. J_f on "
    "[-20, -pi^2) has the same interior singularity but is inside the shipped table and inside the range "
    "that readInterpolationTable validates, so the full tolerance is asserted there.",
    "Arguments below -60 are not generated (DESIGN residual risk).",
    "Finite-difference derivatives of the direct evaluation are not asserted where the integrand has an "
    "interior singular point, nor within 0.05 of a non-analytic point of J.",
    "ABS_RESULT is documented ambiguously; only finiteness and non-negativity are asserted.",
    "Negative fermion mass squares are only generated in (-4.8, 0) T^2 (above -pi^2 T^2) or under ABS_ARGUMENT; "
    "negative boson mass squares down to -60 T^2.",
    "Underscore attributes _interpolationPoints/_interpolationValues are read through getattr guards.",
]


# ---------------------------------------------------------------------------
# oracle
# ---------------------------------------------------------------------------
class OracleFail(Exception):
    pass


def _series(x, kind, der):
    """Bessel series for x >= SERIES_MIN (array).  Rigorous tail bounds:
    der 0: sum_{n>N} x K2(ns)/n^2 <= x K2(Ns)/N;  der 1: <= K1(Ns)/(2N);  der 2: <= K0(Ns)/(4(e^s-1))."""
    from scipy.special import kv

    x = np.atleast_1d(np.asarray(x, dtype=float))
    s = np.sqrt(x)
    tot = np.zeros_like(x)
    n = 1
    while True:
        w = n * s
        if der == 0:
            k = kv(2, w)
            t = -x * k / n ** 2
            tail = x * k / n
        elif der == 1:
            k = kv(1, w)
            t = 0.5 * s * k / n
            tail = 0.5 * k / n
        else:
            k = kv(0, w)
            t = -0.25 * k
            tail = 0.25 * k / np.expm1(s)
        if kind == "f" and n % 2 == 0:
            t = -t
        tot += t
        if np.all(tail <= 1e-17 * np.abs(tot) + 1e-300):
            break
        n += 1
        if n > 20000:
            raise OracleFail("series did not converge")
    return tot


def im_closed(kind, x, der=0):
    """Closed form of the imaginary part of the principal-branch integral (and its x-derivative)."""
    x = float(x)
    if x >= 0:
        return 0.0
    a2 = -x
    a = math.sqrt(a2)
    if kind == "b":
        if der == 0:
            s = PI / 6 * a ** 3 - PI * a2 * a2 / 32
            k = 1
            while (2 * k * PI) ** 2 < a2:
                s += PI / 3 * (a2 - (2 * k * PI) ** 2) ** 1.5
                k += 1
        else:
            s = -(PI / 4 * a - PI * a2 / 16)
            k = 1
            while (2 * k * PI) ** 2 < a2:
                s -= PI / 2 * math.sqrt(a2 - (2 * k * PI) ** 2)
                k += 1
        return s
    if der == 0:
        s = PI * a2 * a2 / 32
        k = 0
        while ((2 * k + 1) * PI) ** 2 < a2:
            s -= PI / 3 * (a2 - ((2 * k + 1) * PI) ** 2) ** 1.5
            k += 1
    else:
        s = -(PI * a2 / 16)
        k = 0
        while ((2 * k + 1) * PI) ** 2 < a2:
            s += PI / 2 * math.sqrt(a2 - ((2 * k + 1) * PI) ** 2)
            k += 1
    return s


def _mp_quad(x, kind, der):
    """mpmath quadrature of the defining complex integrand (der 0) or of -/+ 1/2 int log(...) (der 1)."""
    import mpmath as mp

    mp.mp.dps = 20
    xm = mp.mpf(float(x))
    sgn = -1 if kind == "b" else 1
    if der == 0:
        def f(y):
            return y * y * mp.log(1 + sgn * mp.exp(-mp.sqrt(y * y + xm)))
        pref = 1.0 if kind == "b" else -1.0
    else:
        def f(y):
            return mp.log(1 + sgn * mp.exp(-mp.sqrt(y * y + xm)))
        pref = -0.5 if kind == "b" else 0.5
    if xm < 0:
        a2 = -xm
        a = mp.sqrt(a2)
        pts = [mp.mpf(0)]
        k = 2 if kind == "b" else 1
        sing = []
        while (k * mp.pi) ** 2 < a2:
            sing.append(mp.sqrt(a2 - (k * mp.pi) ** 2))
            k += 2
        pts += sorted(sing) + [a, a + 1, a + 5, a + 20, mp.inf]
    elif xm > 0:
        s = mp.sqrt(xm)
        pts = [mp.mpf(0), s, 10 * s, 10 * s + 1, 10 * s + 5, 10 * s + 20, mp.inf]
    else:
        pts = [mp.mpf(0), 1, 5, 20, mp.inf]
    val, err = mp.quad(f, pts, error=True)
    if not float(err) < 1e-11:
        raise OracleFail(f"mpmath quadrature error estimate {float(err):.1e} at {kind} x={float(x)!r} der={der}")
    return complex(pref * val)


EULER_GAMMA = 0.5772156649015329
LN_AB = 1.5 - 2 * EULER_GAMMA + 2 * math.log(4 * PI)
LN_AF = 1.5 - 2 * EULER_GAMMA + 2 * math.log(PI)
SMALL_X = 1e-9


def _small_x(kind, x, der):
    """High-temperature expansion for 0 < |x| < SMALL_X (principal branches; neglected terms O(x^2 ln x) resp.
    O(x^2) are < 1e-16):  J_b = -pi^4/45 + pi^2 x/12 - (pi/6) x^(3/2) - (x^2/32) ln(x/a_b),
    J_f = -7 pi^4/360 + pi^2 x/24 + (x^2/32) ln(x/a_f)."""
    import cmath

    z = complex(x, 0.0)
    sq = cmath.sqrt(z)
    lg = cmath.log(z)
    if kind == "b":
        if der == 0:
            return JB0 + PI2 * z / 12 - PI / 6 * z * sq - z * z / 32 * (lg - LN_AB)
        return PI2 / 12 - PI / 4 * sq - z / 16 * (lg - LN_AB) - z / 32
    if der == 0:
        return JF0 + PI2 * z / 24 + z * z / 32 * (lg - LN_AF)
    return PI2 / 24 + z / 16 * (lg - LN_AF) + z / 32


_CACHE = {}


def oracle(kind, x, der=0):
    """Complex J (der 0) or J' (der 1) of kind 'b'/'f' at a float x."""
    x = float(x)
    key = (kind, x, der)
    if key in _CACHE:
        return _CACHE[key]
    if x >= SERIES_MIN:
        val = complex(float(_series(x, kind, der)[0]), 0.0)
    elif x == 0.0:
        val = complex((JB0 if kind == "b" else JF0) if der == 0 else (PI2 / 12 if kind == "b" else PI2 / 24), 0.0)
    elif abs(x) < SMALL_X:
        val = _small_x(kind, x, der)
        if x > 0:
            val = complex(val.real, 0.0)
    else:
        q = _mp_quad(x, kind, der)
        imc = im_closed(kind, x, der)
        if der == 0 and abs(q.imag - imc) > 1e-10 * (1 + abs(imc)):
            raise OracleFail(f"quadrature and closed-form imaginary part differ by {abs(q.imag - imc):.1e}")
        val = complex(q.real, imc)
    if len(_CACHE) > 20000:
        _CACHE.clear()
    _CACHE[key] = val
    return val


def oracle_vec(kind, xs, der=0):
    xs = np.asarray(xs, dtype=float)
    out = np.empty(xs.shape, dtype=complex)
    big = xs >= SERIES_MIN
    if np.any(big):
        out[big] = _series(xs[big], kind, der)
    for i in np.flatnonzero(~big.ravel()):
        idx = np.unravel_index(i, xs.shape)
        out[idx] = oracle(kind, xs[idx], der)
    return out


def oracle_d2_re(kind, x):
    """Re J''(x): closed series for x >= SERIES_MIN, else central difference of the oracle J' (step 1e-3)."""
    if x >= SERIES_MIN + 2e-3:
        return float(_series(x, kind, 2)[0])
    hh = 1e-3
    return (oracle(kind, x + hh, 1).real - oracle(kind, x - hh, 1).real) / (2 * hh)


def boltzmann_bound(x):
    """Closed-form bound |J_b|,|J_f| <= x K2(s)(1+e^-s), K2(s) <= sqrt(pi/2s) e^-s (1+15/8s+105/128s^2), s = sqrt x."""
    s = math.sqrt(x)
    return x * math.sqrt(PI / (2 * s)) * math.exp(-s) * (1 + 15 / (8 * s) + 105 / (128 * s * s)) * (1 + math.exp(-s))


# ---------------------------------------------------------------------------
# helpers around the code under test
# ---------------------------------------------------------------------------
KIND = {"Jb": "b", "Jf": "f"}


def n_int(x, comp):
    """number of quad calls behind a component"""
    if x >= 0:
        return 1
    return 2 if comp == 0 else 1


def tol_quad(x, jabs, comp):
    return KQ * QUAD_EPS * n_int(x, comp) * (1.0 + jabs) + ORACLE_ERR * (1.0 + jabs)


def region(fn, x):
    if x > XMAX:
        return "x>1000"
    if x > 0:
        return "0<x<=1000"
    if fn == "Jb":
        if x >= XMIN:
            return "-20<=x<=0"
        return "-4pi^2<x<-20" if x > -4 * PI2 else "x<=-4pi^2"
    if x >= -PI2:
        return "-pi^2<=x<=0"
    return "-20<=x<-pi^2" if x >= XMIN else "x<-20"


def disclaimed(fn, x):
    """interior singular point AND outside the shipped table: documented non-convergence of quad"""
    return (fn == "Jb" and x <= -4 * PI2) or (fn == "Jf" and x < XMIN)


def interior_singular(fn, x):
    return (fn == "Jb" and x <= -4 * PI2) or (fn == "Jf" and x < -PI2)


def sing_points(fn):
    return [0.0] if fn == "Jb" else [0.0, -PI2]


def env(fn, x, what):
    tot = 0.0
    for xs in sing_points(fn):
        tot += ENV_SAFETY * ENV0[(fn, xs)][what] * RHO ** max(0.0, abs(x - xs) / H - 1.0)
    return tot


def _ext(name):
    from WallGo import EExtrapolationType

    return getattr(EExtrapolationType, name)


def default_integral(fn, lower="NONE", upper="NONE"):
    """The shipped, table-backed object; extrapolation state is (re)set explicitly because
    EffectivePotentialNoResum(useDefaultInterpolation=True) mutates this shared object."""
    from WallGo import PotentialTools

    J = getattr(PotentialTools.defaultIntegrals, fn)
    if J.extrapolationTypeLower != _ext(lower) or J.extrapolationTypeUpper != _ext(upper):
        J.setExtrapolationType(_ext(lower), _ext(upper))
    J.disableAdaptiveInterpolation()
    return J


_FRESH = {}


def fresh_integral(fn):
    from WallGo import PotentialTools

    if fn not in _FRESH:
        _FRESH[fn] = getattr(PotentialTools, fn + "Integral")(bUseAdaptiveInterpolation=False)
    return _FRESH[fn]


def table_arrays(J):
    X = getattr(J, "_interpolationPoints", None)
    V = getattr(J, "_interpolationValues", None)
    if X is None or V is None or np.ndim(V) != 2:
        return None, None
    return np.asarray(X, dtype=float), np.asarray(V, dtype=float)


def direct_eval(fn, x, path):
    """(re, im) of the direct evaluation through one of three call paths."""
    if path == "impl":
        r = fresh_integral(fn)._functionImplementation(float(x))
    elif path == "fresh":
        r = fresh_integral(fn)(float(x))
    else:
        r = default_integral(fn)(float(x), bUseInterpolatedValues=False)
    r = np.ravel(np.asarray(r, dtype=float))
    return r


COMP = ("re", "im")


# ---------------------------------------------------------------------------
# enumeration
# ---------------------------------------------------------------------------
NEG_ROWS = 200          # rows 0..199 have x <= 0.3
NEG_BLOCK = 25
POS_BLOCK = 280


def enumerate_cases(tier):
    yield {"kind": "meta"}
    for fn in ("Jb", "Jf"):
        for s in range(0, NEG_ROWS, NEG_BLOCK):
            yield {"kind": "rows", "fn": fn, "start": s, "stop": s + NEG_BLOCK}
        for s in range(NEG_ROWS, NROWS, POS_BLOCK):
            yield {"kind": "rows", "fn": fn, "start": s, "stop": min(NROWS, s + POS_BLOCK)}


def check_meta(case, v: Verdict):
    v.nontrivial = True
    v.label("meta")
    for fn in ("Jb", "Jf"):
        J = default_integral(fn)
        v.checked("table-meta")
        if not J.hasInterpolation():
            v.fail("table-meta", fn, "defaultIntegrals object has no interpolation table after import")
            continue
        X, V = table_arrays(J)
        if X is None:
            v.label("skipped:no-underscore-attrs")
            continue
        if X.shape != (NROWS,) or V.shape != (NROWS, 2):
            v.fail("table-meta", fn, f"table shapes {X.shape} {V.shape}, expected ({NROWS},) ({NROWS}, 2)")
            continue
        grid = np.linspace(XMIN, XMAX, NROWS)
        if np.max(np.abs(X - grid)) > 1e-9 or np.any(np.diff(X) <= 0):
            i = int(np.argmax(np.abs(X - grid)))
            v.fail("table-meta", fn, f"abscissa {i} is {X[i]!r}, expected {grid[i]!r} (linspace(-20,1000,10000))")
        if J.interpolationRangeMin() != X[0] or J.interpolationRangeMax() != X[-1]:
            v.fail("table-meta", fn, "interpolation range differs from the table ends")
        # J(0): closed forms, direct (quad tolerance) and interpolated (envelope)
        kind = KIND[fn]
        j0 = JB0 if kind == "b" else JF0
        v.checked("zero-closed")
        for path in ("impl", "fresh", "default"):
            r = direct_eval(fn, 0.0, path)
            if r.shape != (2,):
                v.fail("shape", f"{fn} direct scalar path={path}", f"J(0.0) has {r.size} numbers, expected 2")
                continue
            if abs(r[0] - j0) > tol_quad(0.0, abs(j0), 0) or r[1] != 0.0:
                v.fail("zero-closed", f"{fn} direct", f"J(0) = {r.tolist()} via {path}, closed form {j0!r}",
                       err=float(r[0] - j0))
        ri = np.asarray(J(0.0), dtype=float)
        v.info[f"{fn}_interp0_err"] = [float(ri[0] - j0), float(ri[1])]
        if abs(ri[0] - j0) > env(fn, 0.0, "v_re") + 1e-6 or abs(ri[1]) > env(fn, 0.0, "v_im") + 1e-6:
            v.fail("zero-closed", f"{fn} interpolated", f"interpolated J(0) = {ri.tolist()}, closed form {j0!r}")


def _m4_from_half_grid(orow, omid):
    """|f''''| estimates at the midpoints from 4th differences at spacing H/2.
    orow: rows lo..hi-1 (n), omid: midpoints of intervals lo..hi-2 (n-1).  Returns array (n-1,) (complex parts
    separately as a (n-1,2) real array); ends copy their neighbour."""
    n = len(orow)
    m4 = np.zeros((n - 1, 2))
    z = np.empty(2 * n - 1, dtype=complex)
    z[0::2] = orow
    z[1::2] = omid
    d4 = z[:-4] - 4 * z[1:-3] + 6 * z[2:-2] - 4 * z[3:-1] + z[4:]      # centred at z index 2..2n-4
    d4 = d4 / (H / 2) ** 4
    # midpoint j sits at z index 2j+1
    for j in range(n - 1):
        c = 2 * j + 1
        cands = []
        for cc in (c - 2, c - 1, c, c + 1, c + 2):
            if 2 <= cc <= 2 * n - 4:
                cands.append(d4[cc - 2])
        if cands:
            m4[j, 0] = max(abs(q.real) for q in cands)
            m4[j, 1] = max(abs(q.imag) for q in cands)
    return m4


def check_rows(case, v: Verdict):
    from scipy.interpolate import CubicSpline

    fn = case["fn"]
    kind = KIND[fn]
    s, e = int(case["start"]), int(case["stop"])
    J = default_integral(fn)
    X, V = table_arrays(J)
    v.nontrivial = True
    v.label(f"rows:{fn}", "rows:mpmath" if s < NEG_ROWS else "rows:series")
    if X is None or X.shape != (NROWS,):
        v.label("skipped:no-table-arrays")
        return
    lo, hi = max(0, s - MARGIN), min(NROWS, e + MARGIN)
    xr = X[lo:hi]
    try:
        orow = oracle_vec(kind, xr, 0)
        xm = 0.5 * (xr[1:] + xr[:-1])
        omid = oracle_vec(kind, xm, 0)
        omid1 = oracle_vec(kind, xm, 1)
    except OracleFail as exc:
        v.discarded(f"oracle: {exc}")
        return
    tab = V[lo:hi, 0] + 1j * V[lo:hi, 1]
    jabs = np.abs(orow)
    tol = np.stack([[tol_quad(x, a, 0) for x, a in zip(xr, jabs)],
                    [tol_quad(x, a, 1) if x < 0 else 0.0 for x, a in zip(xr, jabs)]], axis=1)
    dev = np.stack([(tab - orow).real, (tab - orow).imag], axis=1)
    bad = np.abs(dev) > tol                       # (n,2)
    # ---- table-row -----------------------------------------------------------------------------------
    v.checked("table-row")
    worst = {}
    for i in range(s - lo, e - lo):
        for c in (0, 1):
            if bad[i, c]:
                cls = f"{fn} {region(fn, xr[i])} {COMP[c]}"
                w = worst.setdefault(cls, {"n": 0, "row": None, "dev": 0.0})
                w["n"] += 1
                if abs(dev[i, c]) > abs(w["dev"]):
                    w.update(row=lo + i, dev=float(dev[i, c]), x=float(xr[i]), tol=float(tol[i, c]),
                             table=float(V[lo + i, c]), oracle=float((orow[i].real, orow[i].imag)[c]))
    for cls, w in worst.items():
        v.fail("table-row", cls,
               f"{w['n']} row(s) of InterpolationTable_{fn}.txt in [{s},{e}) differ from the integral; worst row "
               f"{w['row']} x={w['x']!r}: table {w['table']!r}, integral {w['oracle']!r}, difference {w['dev']:.3e} "
               f"(tolerance {w['tol']:.2e})", **w)
    v.info["max_row_dev"] = [float(np.max(np.abs(dev[s - lo:e - lo, 0]))), float(np.max(np.abs(dev[s - lo:e - lo, 1])))]
    # ---- direct evaluation at every row abscissa (public direct path, array input) -----------------------
    v.checked("direct-value")
    dire = np.asarray(fresh_integral(fn)(X[s:e]), dtype=float)
    if dire.shape != (e - s, 2):
        v.fail("shape", f"{fn} direct 1-d", f"direct J(x) has shape {dire.shape} for x of shape {(e - s,)}")
    else:
        ddev = dire - np.stack([orow.real, orow.imag], axis=1)[s - lo:e - lo]
        worst = {}
        for i in range(e - s):
            for c in (0, 1):
                if abs(ddev[i, c]) > tol[s - lo + i, c]:
                    cls = f"{fn} {region(fn, X[s + i])} {COMP[c]}"
                    w = worst.setdefault(cls, {"n": 0, "dev": 0.0})
                    w["n"] += 1
                    if abs(ddev[i, c]) > abs(w["dev"]):
                        w.update(x=float(X[s + i]), dev=float(ddev[i, c]), got=float(dire[i, c]),
                                 tol=float(tol[s - lo + i, c]))
        for cls, w in worst.items():
            v.fail("direct-value", cls,
                   f"direct {fn}(x) differs from the integral at {w['n']} table abscissa(e) in rows [{s},{e}); worst "
                   f"x={w['x']!r}: got {w['got']!r}, difference {w['dev']:.3e} (tolerance {w['tol']:.2e})", **w)
        v.info["max_direct_dev"] = [float(np.max(np.abs(ddev[:, 0]))), float(np.max(np.abs(ddev[:, 1])))]
        big = X[s:e] >= 25.0
        if np.any(big):
            v.checked("direct-decay")
            bnd = np.array([boltzmann_bound(x) + tol_quad(x, 0.0, 0) for x in X[s:e][big]])
            over = np.abs(dire[big, 0]) > bnd
            if np.any(over):
                k = int(np.argmax(over))
                v.fail("direct-decay", f"{fn} {region(fn, X[s:e][big][k])}",
                       f"|{fn}({X[s:e][big][k]!r})| = {abs(dire[big, 0][k]):.3e} exceeds the Boltzmann bound {bnd[k]:.3e}")
    # ---- midpoints -----------------------------------------------------------------------------------
    j0, j1 = s, min(e, NROWS - 1)                 # intervals [X[j], X[j+1]], j0 <= j < j1
    if j1 <= j0:
        return
    sl = slice(j0 - lo, j1 - lo)
    mids = xm[sl]
    got = np.asarray(J(mids), dtype=float)
    got1 = np.asarray(J.derivative(mids, 1), dtype=float)
    if got.shape != (len(mids), 2) or got1.shape != (len(mids), 2):
        v.fail("shape", f"{fn} interpolated 1-d", f"J(x) shape {got.shape}, derivative {got1.shape} for x of shape {mids.shape}")
        return
    # oracle spline on the same abscissae; rows already reported are substituted by the table value
    yor = np.stack([orow.real, orow.imag], axis=1)
    yor[bad] = V[lo:hi][bad]
    S = CubicSpline(xr, yor, axis=0, bc_type="not-a-knot")
    ref, ref1 = S(mids), S(mids, 1)
    n = len(xr)
    rowtol_loc = np.empty((n - 1, 2))
    for j in range(n - 1):
        a, b = max(0, j - 2), min(n, j + 4)
        rowtol_loc[j] = np.maximum(tol[a:b].max(axis=0), KQ * QUAD_EPS)   # Im tolerance 0 for x>=0 -> floor
    rt = rowtol_loc[sl]
    v.checked("spline-mid")
    for c in (0, 1):
        e0 = np.abs(got[:, c] - ref[:, c])
        t0 = 2 * rt[:, c] + CUT_ERR
        e1 = np.abs(got1[:, c] - ref1[:, c])
        t1 = 6 * rt[:, c] / H + CUT_ERR * 6 / H
        for name, err, tl in (("value", e0, t0), ("d1", e1, t1)):
            k = int(np.argmax(err / tl))
            if err[k] > tl[k]:
                v.fail("spline-mid", f"{fn} {region(fn, mids[k])} {COMP[c]} {name}",
                       f"shipped interpolant {name} at midpoint x={mids[k]!r} differs from the spline of oracle "
                       f"values by {err[k]:.3e} (tolerance {tl[k]:.2e})", x=float(mids[k]), err=float(err[k]))
        v.info[f"spline_mid_max_{COMP[c]}"] = [float(e0.max()), float(e1.max())]
    # interpolant passes through its rows
    gr = np.asarray(J(X[s:e]), dtype=float)
    if np.max(np.abs(gr - V[s:e])) > 1e-12 * (1 + np.max(np.abs(V[s:e]))):
        k = int(np.argmax(np.max(np.abs(gr - V[s:e]), axis=1)))
        v.fail("spline-mid", f"{fn} {region(fn, X[s + k])} at-row",
               f"interpolant at row {s + k} is {gr[k].tolist()} but the table row is {V[s + k].tolist()}")
    # ---- against the true function --------------------------------------------------------------------
    v.checked("interp-true")
    m4 = _m4_from_half_grid(orow, omid)[sl]
    # propagated deviation of rows already reported
    prop = np.zeros((len(mids), 2))
    bi, bc = np.nonzero(bad)
    for i, c in zip(bi, bc):
        prop[:, c] += 2 * abs(dev[i, c]) * RHO ** np.maximum(0.0, np.abs(xr[i] - mids) / H - 0.5)
    tru = np.stack([omid.real, omid.imag], axis=1)[sl]
    tru1 = np.stack([omid1.real, omid1.imag], axis=1)[sl]
    for c in (0, 1):
        ev = np.array([env(fn, x, "v_" + COMP[c]) for x in mids])
        ed = np.array([env(fn, x, "d_" + COMP[c]) for x in mids])
        t0 = 2 * rt[:, c] + KT * (5 / 384) * H ** 4 * m4[:, c] + ev + prop[:, c] + ORACLE_ERR
        t1 = 6 * rt[:, c] / H + KT * (1 / 24) * H ** 3 * m4[:, c] + ed + prop[:, c] * 3 / H + ORACLE_ERR
        e0 = np.abs(got[:, c] - tru[:, c])
        e1 = np.abs(got1[:, c] - tru1[:, c])
        for name, err, tl in (("value", e0, t0), ("d1", e1, t1)):
            k = int(np.argmax(err / tl))
            if err[k] > tl[k]:
                v.fail("interp-true", f"{fn} {region(fn, mids[k])} {COMP[c]} {name}",
                       f"shipped interpolant {name} at midpoint x={mids[k]!r} differs from the integral by "
                       f"{err[k]:.3e} (bound {tl[k]:.2e}: spline theory + envelope)", x=float(mids[k]),
                       err=float(err[k]), bound=float(tl[k]))
        v.info[f"interp_true_max_ratio_{COMP[c]}"] = [float(np.max(e0 / t0)), float(np.max(e1 / t1))]


# ---------------------------------------------------------------------------
# generated point cases
# ---------------------------------------------------------------------------
XCLASSES_DIRECT = ["log-pos", "uniform", "neg", "near0", "near-pi2", "near-low-end", "near-high-end",
                   "beyond-low", "beyond-high", "near-4pi2", "row", "large"]
XCLASSES_INTERP = ["log-pos", "uniform", "neg", "near0", "near-pi2", "near-low-end", "near-high-end", "row"]
XCLASSES_EXTRAP = ["beyond-low", "beyond-high", "just-low", "just-high"]


@st.composite
def st_x(draw, xclass):
    sgn = draw(st.sampled_from([-1.0, 1.0]))
    if xclass == "log-pos":
        return 10.0 ** draw(st.floats(-3, 3))
    if xclass == "uniform":
        return draw(st.floats(XMIN, XMAX))
    if xclass == "neg":
        return draw(st.floats(XMIN, 0.0))
    if xclass == "near0":
        return sgn * 10.0 ** draw(st.floats(-9, 0)) if draw(st.integers(0, 9)) else 0.0
    if xclass == "near-pi2":
        return -PI2 + sgn * 10.0 ** draw(st.floats(-9, 0))
    if xclass == "near-4pi2":
        return -4 * PI2 + sgn * 10.0 ** draw(st.floats(-6, 0))
    if xclass == "near-low-end":
        return XMIN + sgn * 10.0 ** draw(st.floats(-9, 0))
    if xclass == "near-high-end":
        return XMAX + sgn * 10.0 ** draw(st.floats(-9, 1))
    if xclass == "beyond-low":
        return draw(st.floats(-60.0, XMIN, exclude_max=True))
    if xclass == "beyond-high":
        return draw(st.floats(XMAX, 5000.0, exclude_min=True))
    if xclass == "large":
        return draw(st.floats(25.0, 1000.0))
    if xclass == "just-low":
        return XMIN - 10.0 ** draw(st.floats(-9, 0))
    if xclass == "just-high":
        return XMAX + 10.0 ** draw(st.floats(-9, 1))
    if xclass == "row":
        return {"row": draw(st.integers(0, NROWS - 1))}
    raise ValueError(xclass)


@st.composite
def st_point_case(draw):
    fn = draw(st.sampled_from(["Jb", "Jf"]))
    mode = draw(st.sampled_from(["direct", "direct", "direct", "interp", "interp", "interp", "extrap"]))
    if mode == "direct":
        xclass = draw(st.sampled_from(XCLASSES_DIRECT))
        case = {"kind": "point", "fn": fn, "mode": mode, "xclass": xclass, "x": draw(st_x(xclass)),
                "path": draw(st.sampled_from(["impl", "fresh", "default"])),
                "order": draw(st.sampled_from([0, 0, 1, 1, 2, 2]))}
    elif mode == "interp":
        xclass = draw(st.sampled_from(XCLASSES_INTERP))
        case = {"kind": "point", "fn": fn, "mode": mode, "xclass": xclass, "x": draw(st_x(xclass)),
                "shape": draw(st.sampled_from(["scalar", "0d", "1d", "2d-col", "2d-row"]))}
    else:
        xclass = draw(st.sampled_from(XCLASSES_EXTRAP))
        case = {"kind": "point", "fn": fn, "mode": mode, "xclass": xclass, "x": draw(st_x(xclass)),
                "ext": draw(st.sampled_from(["NONE", "CONSTANT"])),
                "x_in": draw(st.floats(XMIN, XMAX)),
                "shape": draw(st.sampled_from(["scalar", "1d", "mixed"])),
                "order": draw(st.sampled_from([0, 0, 1]))}
    return case


def _resolve_x(case, X):
    x = case["x"]
    if isinstance(x, dict):
        if X is None:
            return XMIN + H * x["row"], True
        return float(X[x["row"]]), True
    x = float(x)
    is_row = X is not None and bool(np.any(X == x))
    return x, is_row


def _check_component(v, sub, fn, x, got, want, jabs, label_extra=""):
    """direct evaluation tolerance per component"""
    for c in (0, 1):
        w = (want.real, want.imag)[c]
        if disclaimed(fn, x):
            tl = COARSE_REL * (1 + jabs)
        elif x >= 0 and c == 1:
            tl = 0.0
        else:
            tl = tol_quad(x, jabs, c)
        err = abs(got[c] - w)
        v.info.setdefault("err_over_tol", []).append(float(err / tl) if tl > 0 else float(err))
        if not err <= tl:
            v.fail(sub, f"{fn} {region(fn, x)} {COMP[c]}{label_extra}",
                   f"{fn}({x!r}) {COMP[c]} = {got[c]!r}, integral = {w!r}, difference {err:.3e} (tolerance {tl:.2e})",
                   x=x, got=float(got[c]), want=float(w))


def check_point_direct(case, v: Verdict, x, X):
    fn = case["fn"]
    kind = KIND[fn]
    order = case["order"]
    path = case["path"]
    if order == 0:
        got = direct_eval(fn, x, path)
        v.checked("shape")
        if got.shape != (2,):
            v.fail("shape", f"{fn} direct scalar path={path}", f"{fn}({x!r}) has {got.size} numbers, expected 2")
            return
        want = oracle(kind, x, 0)
        v.checked("direct-value")
        _check_component(v, "direct-value", fn, x, got, want, abs(want))
        if x >= 25.0:
            v.checked("direct-decay")
            bound = boltzmann_bound(x) + tol_quad(x, 0.0, 0)
            if not abs(got[0]) <= bound:
                v.fail("direct-decay", f"{fn} {region(fn, x)}",
                       f"|{fn}({x!r})| = {abs(got[0]):.3e} exceeds the Boltzmann bound {boltzmann_bound(x):.3e} "
                       f"+ quad tolerance", x=x)
        if x > -PI2 and x <= 1250.0:
            # Re J_f(x) = Re J_b(x) - Re J_b(4x)/8 ; all three in regions where quad is not disclaimed
            v.checked("direct-identity")
            jb = direct_eval("Jb", x, path)[0]
            jf = direct_eval("Jf", x, path)[0]
            jb4 = direct_eval("Jb", 4 * x, path)[0]
            res = jf - (jb - jb4 / 8)
            tl = (tol_quad(x, abs(jf), 0) + tol_quad(x, abs(jb), 0) + tol_quad(4 * x, abs(jb4), 0) / 8)
            if not abs(res) <= tl:
                v.fail("direct-identity", f"{region('Jf', x)}",
                       f"Re Jf(x) - [Re Jb(x) - Re Jb(4x)/8] = {res:.3e} at x={x!r} (tolerance {tl:.2e})", x=x)
        return
    # ---- finite-difference derivative of the direct evaluation ---------------------------------------
    dx = 1e-16 ** (1.0 / (order + 4))
    near_sing = min(abs(x - xs) for xs in (0.0, -PI2, -4 * PI2, -9 * PI2)) < 0.05 + 2 * dx
    if interior_singular(fn, x - 2 * dx) or near_sing or x - 2 * dx < -60.0:
        v.label("direct-deriv:not-asserted")
        return
    J = fresh_integral(fn) if path != "default" else default_integral(fn)
    got = np.ravel(np.asarray(J.derivative(float(x), order, False), dtype=float))
    v.checked("shape")
    if got.shape != (2,):
        v.fail("shape", f"{fn} direct derivative", f"derivative has {got.size} numbers, expected 2")
        return
    jabs = abs(oracle(kind, x, 0))
    if order == 1:
        want = oracle(kind, x, 1)
        want = (want.real, want.imag)
        # stencil (1,-8,8,-1)/12dx: sum |c| = 1.5/dx ; truncation dx^4 f^(5)/30 is < 1e-12 away from xs
        tols = [1.5 / dx * tol_quad(x, jabs, c) + 1e-9 for c in (0, 1)]
        if x - 2 * dx >= 0:
            tols[1] = 0.0
        sub = "direct-d1"
    else:
        if abs(x) < 0.3:
            v.label("direct-deriv:not-asserted")
            return
        im2 = 0.0
        if x < 0:
            hh = 1e-3
            im2 = (im_closed(kind, x + hh, 1) - im_closed(kind, x - hh, 1)) / (2 * hh)
        want = (oracle_d2_re(kind, x), im2)
        # measured envelope of the quad noise (FD_NOISE x5); stencil sum |c| = 16/3 / dx^2
        tols = [16 / 3 / dx ** 2 * ENV_SAFETY * FD_NOISE * (1 + jabs) + 1e-5 for c in (0, 1)]
        if x - 2 * dx >= 0:
            tols[1] = 0.0
        sub = "direct-d2"
    v.checked(sub)
    for c in (0, 1):
        err = abs(got[c] - want[c])
        v.info.setdefault("deriv_err", []).append(float(err))
        if not err <= tols[c]:
            v.fail(sub, f"{fn} {region(fn, x)} {COMP[c]}",
                   f"d^{order}{fn}/dx^{order} ({x!r}) {COMP[c]} = {got[c]!r} by finite differences of the direct "
                   f"evaluation, true {want[c]!r}, difference {err:.3e} (tolerance {tols[c]:.2e})", x=x)


def _shape_input(xs, shape):
    xs = np.asarray(xs, dtype=float)
    if shape == "1d":
        return xs
    if shape == "2d-col":
        return xs.reshape(-1, 1)
    if shape == "2d-row":
        return xs.reshape(1, -1)
    return xs


def check_point_interp(case, v: Verdict, x0, X, V):
    fn = case["fn"]
    kind = KIND[fn]
    J = default_integral(fn)
    x0 = min(max(x0, XMIN + H), XMAX - H)
    xs = x0 + 0.5 * H * np.arange(-2, 3)
    shape = case["shape"]
    # ---- evaluation, shapes --------------------------------------------------------------------------
    v.checked("shape")
    if shape in ("scalar", "0d"):
        vals, d1s = [], []
        for xx in xs[1:4]:
            arg = float(xx) if shape == "scalar" else np.asarray(float(xx))
            r = np.asarray(J(arg), dtype=float)
            r1 = np.asarray(J.derivative(arg, 1), dtype=float)
            if r.shape != (2,) or r1.shape != (2,):
                v.fail("shape", f"{fn} interpolated {shape}", f"J(x) shape {r.shape}, derivative shape {r1.shape} for scalar x")
                return
            vals.append(r)
            d1s.append(r1)
        vals, d1s = np.array(vals), np.array(d1s)
    else:
        arg = _shape_input(xs[1:4], shape)
        r = np.asarray(J(arg), dtype=float)
        r1 = np.asarray(J.derivative(arg, 1), dtype=float)
        if r.shape != arg.shape + (2,) or r1.shape != arg.shape + (2,):
            v.fail("shape", f"{fn} interpolated {shape}", f"J(x) shape {r.shape}, derivative {r1.shape} for x of shape {arg.shape}")
            return
        vals, d1s = r.reshape(3, 2), r1.reshape(3, 2)
        # element-wise consistency
        one = np.asarray(J(float(xs[2])), dtype=float)
        if np.max(np.abs(one - vals[1])) > 1e-13 * (1 + np.max(np.abs(one))):
            v.fail("shape", f"{fn} interpolated {shape}", f"array evaluation {vals[1].tolist()} != scalar evaluation {one.tolist()} at x={xs[2]!r}")
    # ---- tolerance ingredients -----------------------------------------------------------------------
    o5 = oracle_vec(kind, xs, 0)
    o1 = oracle_vec(kind, xs[1:4], 1)
    d4 = (o5[0] - 4 * o5[1] + 6 * o5[2] - 4 * o5[3] + o5[4]) / (H / 2) ** 4
    m4 = (abs(d4.real), abs(d4.imag))
    jabs = float(np.max(np.abs(o5)))
    prop = np.zeros((3, 2))
    if fn == "Jf" and x0 < -PI2 + MARGIN * H and X is not None:
        # rows around the stencil whose own deviation is reported by table-row: propagate, do not re-report
        # Im: closed form (free) for +-12 rows; Re: quadrature for +-6 rows (largest reported Re deviation is
        # 8.5e-5 and 2*8.5e-5*RHO^6 < 1e-7 is below the row tolerance)
        i0 = int(np.searchsorted(X, x0))
        for i in range(max(0, i0 - MARGIN), min(NROWS, i0 + MARGIN)):
            near = abs(i - i0) <= 6
            jo = oracle(kind, X[i], 0) if near else complex(float("nan"), im_closed(kind, X[i], 0))
            jscale = abs(jo) if near else abs(complex(V[i, 0], jo.imag))
            for c in ((0, 1) if near else (1,)):
                dv = abs(V[i, c] - (jo.real, jo.imag)[c])
                if dv > tol_quad(X[i], jscale, c):
                    prop[:, c] += 2 * dv * RHO ** np.maximum(0.0, np.abs(X[i] - xs[1:4]) / H - 0.5)
        if np.any(prop > 0):
            v.label("interp:near-reported-row")
    v.checked("interp-true")
    for c in (0, 1):
        rt = max(tol_quad(min(x0, -1e-300) if c == 1 else x0, jabs, c), KQ * QUAD_EPS)
        for k in range(3):
            xx = xs[k + 1]
            want = (o5[k + 1].real, o5[k + 1].imag)[c]
            want1 = (o1[k].real, o1[k].imag)[c]
            t0 = 2 * rt + KT * (5 / 384) * H ** 4 * m4[c] + env(fn, xx, "v_" + COMP[c]) + prop[k, c] + ORACLE_ERR
            t1 = (6 * rt / H + KT * (1 / 24) * H ** 3 * m4[c] + env(fn, xx, "d_" + COMP[c]) + prop[k, c] * 3 / H
                  + ORACLE_ERR)
            e0, e1 = abs(vals[k, c] - want), abs(d1s[k, c] - want1)
            v.info.setdefault("interp_ratio", []).append([float(e0 / t0), float(e1 / t1)])
            if not e0 <= t0:
                v.fail("interp-true", f"{fn} {region(fn, xx)} {COMP[c]} value",
                       f"interpolated {fn}({xx!r}) {COMP[c]} = {vals[k, c]!r}, integral {want!r}, difference {e0:.3e} "
                       f"(bound {t0:.2e})", x=float(xx))
                break
            if not e1 <= t1:
                v.fail("interp-true", f"{fn} {region(fn, xx)} {COMP[c]} d1",
                       f"interpolated d{fn}/dx({xx!r}) {COMP[c]} = {d1s[k, c]!r}, true {want1!r}, difference {e1:.3e} "
                       f"(bound {t1:.2e})", x=float(xx))
                break
    # ---- second derivative of the interpolant, smooth region only --------------------------------------
    if xs[0] >= 1.5:
        v.checked("interp-d2")
        d2 = np.asarray(J.derivative(float(xs[2]), 2), dtype=float)
        want2 = float(_series(xs[2], kind, 2)[0])
        rt = tol_quad(x0, jabs, 0)
        t2 = 12 * rt / H ** 2 + KT * (3 / 8) * H ** 2 * m4[0] + 1e-9
        if not abs(d2[0] - want2) <= t2:
            v.fail("interp-d2", f"{fn} {region(fn, xs[2])}",
                   f"interpolated second derivative at {xs[2]!r} = {d2.tolist()}, true {want2!r} (bound {t2:.2e})")


def check_point_extrap(case, v: Verdict, x, X):
    fn = case["fn"]
    kind = KIND[fn]
    ext = case["ext"]
    shape = case["shape"]
    order = case["order"]
    if XMIN <= x <= XMAX:
        x = XMIN - 1e-9 if x < 0 else XMAX + 1e-9
    J = default_integral(fn, ext, ext)
    try:
        end = XMIN if x < XMIN else XMAX
        if order == 1:
            if ext != "NONE":
                v.label("extrap-deriv:not-asserted")
                return
            dx = 1e-16 ** 0.2
            if interior_singular(fn, x + 2 * dx) or x - 2 * dx < -60 or abs(x + 4 * PI2) < 0.05 + 2 * dx:
                v.label("extrap-deriv:not-asserted")
                return
            got = np.ravel(np.asarray(J.derivative(float(x), 1), dtype=float))
            want = oracle(kind, x, 1)
            jabs = abs(oracle(kind, x, 0))
            v.checked("extrap-none")
            for c in (0, 1):
                tl = 1.5 / dx * tol_quad(x, jabs, c) + 1e-9 if not (x > 0 and c == 1) else 0.0
                w = (want.real, want.imag)[c]
                if not abs(got[c] - w) <= tl:
                    v.fail("extrap-none", f"{fn} {region(fn, x)} {COMP[c]} d1",
                           f"derivative beyond the table end at {x!r}: {got[c]!r}, true {w!r} (tolerance {tl:.2e})", x=x)
            return
        x_in = float(case["x_in"])
        if shape == "scalar":
            arg = float(x)
        elif shape == "1d":
            arg = np.array([x])
        else:
            arg = np.array([x, x_in, x])
        r = np.asarray(J(arg), dtype=float)
        v.checked("shape")
        if r.shape != np.shape(arg) + (2,):
            v.fail("shape", f"{fn} extrapolated {ext} {shape}", f"J(x) shape {r.shape} for x of shape {np.shape(arg)}")
            return
        got = r.reshape(-1, 2)[0]
        if ext == "CONSTANT":
            v.checked("extrap-const")
            want = np.asarray(J(float(end)), dtype=float)
            if np.max(np.abs(got - want)) > 1e-13 * (1 + np.max(np.abs(want))):
                v.fail("extrap-const", f"{fn} {region(fn, x)}",
                       f"CONSTANT extrapolation at {x!r} gives {got.tolist()}, table end value {want.tolist()}", x=x)
        else:
            v.checked("extrap-none")
            want = oracle(kind, x, 0)
            _check_component(v, "extrap-none", fn, x, got, want, abs(want))
        if shape == "mixed":
            inside = np.asarray(J(x_in), dtype=float)
            row = r.reshape(-1, 2)
            if np.max(np.abs(row[1] - inside)) > 1e-13 * (1 + np.max(np.abs(inside))) or \
                    np.max(np.abs(row[2] - row[0])) > 0:
                v.fail("shape", f"{fn} extrapolated {ext} mixed",
                       f"mixed in/out-of-range array gives {row.tolist()}, element-wise {inside.tolist()} inside")
    finally:
        default_integral(fn)


def check_point(case, v: Verdict):
    fn = case["fn"]
    J = default_integral(fn)
    X, V = table_arrays(J)
    x, is_row = _resolve_x(case, X)
    v.nontrivial = not is_row
    v.label(f"point:{case['mode']}", f"fn:{fn}", f"xclass:{case['xclass']}", f"region:{fn} {region(fn, x)}")
    try:
        if case["mode"] == "direct":
            v.label(f"order:{case['order']}", f"path:{case['path']}")
            check_point_direct(case, v, x, X)
        elif case["mode"] == "interp":
            v.label(f"shape:{case['shape']}")
            check_point_interp(case, v, x, X, V)
        else:
            v.label(f"ext:{case['ext']}", f"shape:{case['shape']}", f"order:{case['order']}")
            check_point_extrap(case, v, x, X)
    except OracleFail as exc:
        v.info["oracle_fail"] = str(exc)
        v.discarded(f"oracle: {str(exc)[:40]}")


# ---------------------------------------------------------------------------
# potential
# ---------------------------------------------------------------------------
SPECTRA = ["massless", "light", "heavy", "mixed", "negative", "zero-cross", "ends"]
OPTIONS = ["PRINCIPAL_PART", "ABS_ARGUMENT", "ABS_RESULT", "ERROR"]


@st.composite
def st_xtarget(draw, spectrum, fermion, option):
    """dimensionless m^2/T0^2 of one particle at phi = 0 and its slope in phi^2"""
    if spectrum == "massless":
        return 0.0, 0.0
    if spectrum == "light":
        return draw(st.floats(0.0, 1.0)), draw(st.floats(0.0, 1.0))
    if spectrum == "heavy":
        m = draw(st.floats(15.0, 40.0))
        return m * m, draw(st.floats(0.0, 50.0))
    if spectrum == "mixed":
        return 10.0 ** draw(st.floats(-3, 3.4)), draw(st.floats(0.0, 10.0))
    if spectrum == "negative":
        # T varies by a factor 2 around T0, i.e. x by a factor 4: fermions stay above -pi^2 (> -4.8), bosons above -60
        lo = -1.2 if (fermion and option != "ABS_ARGUMENT") else -15.0
        return draw(st.floats(lo, 2.0)), draw(st.floats(0.0, 1.0))
    if spectrum == "zero-cross":
        if fermion and option != "ABS_ARGUMENT" and draw(st.booleans()):
            return 10.0 ** draw(st.floats(-12, -2)), 0.0
        return draw(st.sampled_from([-1.0, 1.0])) * 10.0 ** draw(st.floats(-12, -2)), 0.0
    if spectrum == "ends":
        if fermion and option != "ABS_ARGUMENT":
            return XMAX + draw(st.sampled_from([-1.0, 1.0])) * 10.0 ** draw(st.floats(-9, 0)), 0.0
        end = draw(st.sampled_from([XMIN, XMAX]))
        return end + draw(st.sampled_from([-1.0, 1.0])) * 10.0 ** draw(st.floats(-9, 0)), 0.0
    raise ValueError(spectrum)


@st.composite
def st_pot_case(draw):
    spectrum = draw(st.sampled_from(SPECTRA))
    option = draw(st.sampled_from(OPTIONS)) if spectrum in ("negative", "zero-cross", "ends") else \
        draw(st.sampled_from(["PRINCIPAL_PART", "PRINCIPAL_PART", "ERROR", "ABS_ARGUMENT", "ABS_RESULT"]))
    integrals = draw(st.sampled_from(["direct", "tables", "tables"]))
    nb = draw(st.integers(0, 4))
    nf = draw(st.integers(0, 4))
    if draw(st.integers(0, 3)):
        nb, nf = max(nb, 1), max(nf, 1)
    npnt = draw(st.integers(1, 4))
    t0 = 10.0 ** draw(st.floats(-2, 3))
    tmode = draw(st.sampled_from(["float", "0d", "array"]))
    temps = [t0 * draw(st.floats(0.5, 2.0)) for _ in range(npnt)] if tmode == "array" else [t0]
    phi = [draw(st.floats(0.0, 2.0)) for _ in range(npnt)]

    def species(n, fermion):
        out = []
        for _ in range(n):
            a, b = draw(st_xtarget(spectrum, fermion, option))
            dof = draw(st.sampled_from([0, 1, 2, 3, 4, 6, 12, 30])) if draw(st.booleans()) else \
                draw(st.floats(0.0, 30.0))
            out.append({"a": a, "b": b, "dof": dof, "c": draw(st.sampled_from([1.5, 5.0 / 6.0, 0.5])),
                        "mu": draw(st.floats(0.1, 10.0))})
        return out

    case = {"kind": "pot", "spectrum": spectrum, "option": option, "integrals": integrals,
            "T0": t0, "tmode": tmode, "T": temps, "phi": phi,
            "bosons": species(nb, False), "fermions": species(nf, True),
            "mass_shape": draw(st.sampled_from(["2d", "2d", "1d"])) if npnt == 1 and tmode != "array" else "2d",
            "delta": draw(st.sampled_from([-1.0, 1.0])) * 10.0 ** draw(st.floats(-10, -4))}
    return case


def _make_potential(case):
    from WallGo.PotentialTools import EffectivePotentialNoResum, EImaginaryOption

    t0sq = float(case["T0"]) ** 2

    class GenPot(EffectivePotentialNoResum):
        fieldCount = 1
        effectivePotentialError = 1e-8

        def __init__(self, spec, shift=0.0, **kw):
            super().__init__(**kw)
            self.spec = spec
            self.shift = shift

        def _info(self, fields, which):
            f = np.asarray(fields, dtype=float)
            ph = f[..., 0]
            sp = self.spec[which]
            cols = [t0sq * (p["a"] + self.shift + p["b"] * ph ** 2) for p in sp]
            msq = np.stack(cols, axis=-1) if cols else np.zeros(ph.shape + (0,))
            dof = np.array([p["dof"] for p in sp], dtype=float)
            c = np.array([p["c"] for p in sp], dtype=float)
            mu = np.array([p["mu"] * math.sqrt(t0sq) for p in sp], dtype=float)
            return msq, dof, c, mu

        def bosonInformation(self, fields, temperature=None):
            return self._info(fields, "bosons")

        def fermionInformation(self, fields, temperature=None):
            return self._info(fields, "fermions")

        def evaluate(self, fields, temperature):
            b = self.bosonInformation(fields)
            f = self.fermionInformation(fields)
            return self.potentialOneLoop(b, f) + self.potentialOneLoopThermal(b, f, temperature)

    def build(option, shift=0.0):
        return GenPot(case, shift=shift, useDefaultInterpolation=(case["integrals"] == "tables"),
                      imaginaryOption=getattr(EImaginaryOption, option))

    return build


def _temps(case):
    if case["tmode"] == "float":
        return float(case["T"][0])
    if case["tmode"] == "0d":
        return np.asarray(float(case["T"][0]))
    return np.array(case["T"], dtype=float)


def _tab_tol(fn, x, jabs):
    """tolerance on the real part of the shipped interpolant at an arbitrary in-range x (no f'''' available)"""
    return 2 * tol_quad(x, jabs, 0) + ENV_SAFETY * SMOOTH_ENV + env(fn, x, "v_re")


def check_pot(case, v: Verdict):
    build = _make_potential(case)
    option = case["option"]
    tables = case["integrals"] == "tables"
    pot = build(option)
    npnt = len(case["phi"])
    fields = np.array(case["phi"], dtype=float).reshape(npnt, 1)
    T = _temps(case)
    Tb = np.broadcast_to(np.asarray(T, dtype=float), (npnt,)).copy()
    bos = pot.bosonInformation(fields)
    fer = pot.fermionInformation(fields)
    if case["mass_shape"] == "1d":
        bos = (bos[0][0],) + bos[1:]
        fer = (fer[0][0],) + fer[1:]
    msqB = np.asarray(bos[0], dtype=float).reshape(npnt, -1)
    msqF = np.asarray(fer[0], dtype=float).reshape(npnt, -1)
    nB, nF = bos[1], fer[1]
    xB = msqB / (Tb[:, None] ** 2 + 1e-100)
    xF = msqF / (Tb[:, None] ** 2 + 1e-100)
    anyneg = bool(np.any(msqB < 0) or np.any(msqF < 0))
    distinct = (msqB.shape[1] >= 1 and msqF.shape[1] >= 1
                and len({round(float(m), 12) for m in np.concatenate([msqB[0], msqF[0]])}) >= 2)
    v.nontrivial = bool(distinct)
    v.label("pot", f"spectrum:{case['spectrum']}", f"option:{option}", f"integrals:{case['integrals']}",
            f"T:{case['tmode']}", f"npnt:{npnt}", f"nb:{msqB.shape[1]}", f"nf:{msqF.shape[1]}",
            "anyneg" if anyneg else "allpos", f"mass_shape:{case['mass_shape']}")
    cls = f"{case['integrals']} {option}"
    cls_sp = f"{case['integrals']} {case['spectrum']}"
    # ---- call -------------------------------------------------------------------------------------------
    try:
        got = pot.potentialOneLoopThermal(bos, fer, T)
        raised = False
    except ValueError as exc:
        raised = True
        got = None
        if option != "ERROR":
            v.fail("pot-error", cls, f"ValueError with imaginaryOption={option}: {str(exc)[:200]}")
            return
    if option == "ERROR":
        v.checked("pot-error")
        if raised != anyneg:
            v.fail("pot-error", cls + (" anyneg" if anyneg else " allpos"),
                   f"imaginaryOption=ERROR: raised={raised} but some m^2 < 0 is {anyneg}")
        if raised:
            v.label("outcome:ValueError")
            return
    got = np.asarray(got, dtype=float)
    v.checked("shape")
    want_shape = () if (case["mass_shape"] == "1d") else (npnt,)
    if got.shape != want_shape:
        v.fail("shape", f"pot {case['tmode']} {case['mass_shape']}",
               f"potentialOneLoopThermal returned shape {got.shape}, expected {want_shape}")
        return
    got = got.reshape(npnt)
    pref = Tb ** 4 / (2 * PI2)
    # effective arguments
    if option == "ABS_ARGUMENT":
        xBe, xFe = np.abs(xB), np.abs(xF)
    else:
        xBe, xFe = xB, xF
    Jb, Jf = pot.integrals.Jb, pot.integrals.Jf
    # ---- pot-sum: structure against the potential's own integrals, point by point -------------------------
    own = np.zeros(npnt)
    scale = np.zeros(npnt)
    for p in range(npnt):
        for xs_, ns_, J in ((xBe[p], nB, Jb), (xFe[p], nF, Jf)):
            for xx, nn in zip(xs_, np.broadcast_to(ns_, xs_.shape)):
                r = np.ravel(np.asarray(J(np.asarray(float(xx))), dtype=float))[0]
                own[p] += nn * r
                scale[p] += abs(nn * r)
    own_v = own * pref
    if option == "ABS_RESULT" and anyneg:
        own_v = np.abs(own_v)
    v.checked("pot-sum")
    # msq/(T^2+1e-100) in the code vs here: identical expression; rounding only
    tl = 1e-12 * scale * pref + 1e-300
    if tables:
        # near x=0 the spline slope times the rounding of x is still negligible
        pass
    if np.any(np.abs(got - own_v) > tl):
        k = int(np.argmax(np.abs(got - own_v) / tl))
        v.fail("pot-sum", cls,
               f"potentialOneLoopThermal = {got[k]!r} but T^4/(2pi^2)[sum nB Re Jb + sum nF Re Jf] of its own integrals "
               f"= {own_v[k]!r} (point {k}, T={Tb[k]!r})", got=got.tolist(), want=own_v.tolist())
    if option == "ABS_RESULT":
        v.checked("pot-abs-result")
        if anyneg and (np.any(got < 0) or not np.all(np.isfinite(got))):
            v.fail("pot-abs-result", cls, f"ABS_RESULT returned {got.tolist()}")
        if anyneg:
            return
    # ---- pot-oracle ------------------------------------------------------------------------------------
    try:
        want = np.zeros(npnt)
        tol = np.zeros(npnt)
        heavy_bound = np.zeros(npnt)
        for p in range(npnt):
            for xs_, ns_, fn in ((xBe[p], nB, "Jb"), (xFe[p], nF, "Jf")):
                for xx, nn in zip(xs_, np.broadcast_to(ns_, xs_.shape)):
                    xx = float(xx)
                    xo = min(max(xx, XMIN), XMAX) if tables else xx      # CONSTANT extrapolation
                    jo = oracle(KIND[fn], xo, 0)
                    want[p] += nn * jo.real
                    if tables:
                        tj = _tab_tol(fn, xo, abs(jo))
                    else:
                        tj = COARSE_REL * (1 + abs(jo)) if disclaimed(fn, xx) else tol_quad(xx, abs(jo), 0)
                    tol[p] += abs(nn) * tj
                    if xx >= 25.0:
                        heavy_bound[p] += abs(nn) * (boltzmann_bound(min(xx, XMAX) if tables else xx))
                    else:
                        heavy_bound[p] = np.inf
    except OracleFail as exc:
        v.info["oracle_fail"] = str(exc)
        v.discarded(f"oracle: {str(exc)[:40]}")
        return
    v.checked("pot-oracle")
    want_v, tol_v = want * pref, tol * pref + 1e-13 * np.abs(want * pref) + 1e-300   # floor: denormal dof
    v.info["pot_err_over_tol"] = float(np.max(np.abs(got - want_v) / (tol_v + 1e-300)))
    if np.any(np.abs(got - want_v) > tol_v):
        k = int(np.argmax(np.abs(got - want_v) / (tol_v + 1e-300)))
        v.fail("pot-oracle", cls_sp,
               f"V_T = {got[k]!r}, oracle thermal sum {want_v[k]!r}, difference {abs(got[k] - want_v[k]):.3e} "
               f"(tolerance {tol_v[k]:.2e}; T={Tb[k]!r}, xB={xB[k].tolist()}, xF={xF[k].tolist()})")
    # ---- Stefan-Boltzmann --------------------------------------------------------------------------------
    if case["spectrum"] == "massless":
        v.checked("pot-SB")
        sb = -PI2 / 90 * (float(np.sum(np.broadcast_to(nB, (msqB.shape[1],))))
                          + 7 / 8 * float(np.sum(np.broadcast_to(nF, (msqF.shape[1],))))) * Tb ** 4
        if np.any(np.abs(got - sb) > tol_v + 1e-13 * np.abs(sb)):
            k = int(np.argmax(np.abs(got - sb)))
            v.fail("pot-SB", cls_sp, f"massless V_T = {got[k]!r}, Stefan-Boltzmann {sb[k]!r} at T={Tb[k]!r} (tolerance {tol_v[k]:.2e})")
    # ---- heavy ---------------------------------------------------------------------------------------------
    if case["spectrum"] == "heavy":
        v.checked("pot-heavy")
        bound = heavy_bound * pref + tol_v
        if np.any(np.abs(got) > bound):
            k = int(np.argmax(np.abs(got) / bound))
            v.fail("pot-heavy", cls_sp, f"|V_T| = {abs(got[k]):.3e} exceeds the Boltzmann bound {bound[k]:.3e} at T={Tb[k]!r}")
    # ---- ABS_ARGUMENT ----------------------------------------------------------------------------------------
    if option == "ABS_ARGUMENT":
        v.checked("pot-abs-arg")
        ref = build("PRINCIPAL_PART")
        bosA = (np.abs(np.asarray(bos[0])),) + tuple(bos[1:])
        ferA = (np.abs(np.asarray(fer[0])),) + tuple(fer[1:])
        r = np.asarray(ref.potentialOneLoopThermal(bosA, ferA, T), dtype=float).reshape(npnt)
        if np.any(np.abs(r - got) > 1e-12 * scale * pref + 1e-300):
            k = int(np.argmax(np.abs(r - got)))
            v.fail("pot-abs-arg", cls + (" negF" if np.any(msqF < 0) else "") + (" negB" if np.any(msqB < 0) else ""),
                   f"ABS_ARGUMENT V(m^2) = {got[k]!r} but V(|m^2|) = {r[k]!r}")
    # ---- continuity -------------------------------------------------------------------------------------------
    if option in ("PRINCIPAL_PART", "ABS_ARGUMENT") and msqB.shape[1] + msqF.shape[1] > 0:
        delta = float(case["delta"])
        pot2 = build(option, shift=delta)
        b2, f2 = pot2.bosonInformation(fields), pot2.fermionInformation(fields)
        if case["mass_shape"] == "1d":
            b2 = (b2[0][0],) + b2[1:]
            f2 = (f2[0][0],) + f2[1:]
        got2 = np.asarray(pot2.potentialOneLoopThermal(b2, f2, T), dtype=float).reshape(npnt)
        v.checked("pot-continuity")
        try:
            lip = np.zeros(npnt)
            noise = np.zeros(npnt)
            for p in range(npnt):
                for xs_, ns_, fn in ((xB[p], nB, "Jb"), (xF[p], nF, "Jf")):
                    for xx, nn in zip(xs_, np.broadcast_to(ns_, xs_.shape)):
                        xx = float(xx)
                        dxx = abs(delta) * case["T0"] ** 2 / Tb[p] ** 2
                        xe = abs(xx) if option == "ABS_ARGUMENT" else xx
                        if tables:
                            xe = min(max(xe, XMIN), XMAX)
                        if xe > 1e-8:
                            L = abs(float(_series(max(xe, SERIES_MIN), KIND[fn], 1)[0])) if xe >= SERIES_MIN else PI2 / 12
                        elif xe >= 0:
                            L = PI2 / 12
                        else:
                            L = abs(oracle(KIND[fn], xe, 1).real) + 0.1
                        L = max(L, PI2 / 12 if xe > -1e-3 else 0.0) * 1.5 + 0.05
                        if tables:
                            L += env(fn, xe, "d_re")
                            nz = 1e-13 * (1 + abs(oracle(KIND[fn], xe, 0)))
                        else:
                            jo = abs(oracle(KIND[fn], xe, 0))
                            nz = 2 * (COARSE_REL * (1 + jo) if disclaimed(fn, xe) else tol_quad(xe, jo, 0))
                        lip[p] += abs(nn) * L * dxx
                        noise[p] += abs(nn) * nz
        except OracleFail as exc:
            v.info["oracle_fail"] = str(exc)
            v.discarded(f"oracle: {str(exc)[:40]}")
            return
        bound = (lip + noise) * pref + 1e-300
        dv = np.abs(got2 - got)
        v.info["continuity_ratio"] = float(np.max(dv / (bound + 1e-300)))
        if np.any(dv > bound):
            k = int(np.argmax(dv / (bound + 1e-300)))
            v.fail("pot-continuity", cls_sp,
                   f"|V(m^2+delta)-V(m^2)| = {dv[k]:.3e} for delta = {delta * case['T0'] ** 2:.3e} exceeds "
                   f"L|delta|T^2/(2pi^2)+noise = {bound[k]:.3e} (T={Tb[k]!r}, xB={xB[k].tolist()}, xF={xF[k].tolist()})")


# ---------------------------------------------------------------------------
# Coleman-Weinberg
# ---------------------------------------------------------------------------
@st.composite
def st_jcw_case(draw):
    n = draw(st.integers(1, 4))
    npnt = draw(st.integers(1, 3))

    def msq():
        k = draw(st.sampled_from(["pos", "pos", "neg", "zero", "tiny"]))
        if k == "zero":
            return 0.0
        if k == "tiny":
            return draw(st.sampled_from([-1.0, 1.0])) * 10.0 ** draw(st.floats(-30, -6))
        mag = 10.0 ** draw(st.floats(-4, 6))
        return mag if k == "pos" else -mag

    return {"kind": "jcw", "msqB": [[msq() for _ in range(n)] for _ in range(npnt)],
            "msqF": [[abs(msq()) if draw(st.integers(0, 3)) else msq() for _ in range(n)] for _ in range(npnt)],
            "dofB": [draw(st.sampled_from([0.0, 1.0, 3.0, 6.0, 30.0])) for _ in range(n)],
            "dofF": [draw(st.sampled_from([0.0, 4.0, 12.0])) for _ in range(n)],
            "c": [draw(st.sampled_from([1.5, 5.0 / 6.0, 0.5])) for _ in range(n)],
            "mu": [10.0 ** draw(st.floats(-2, 3)) for _ in range(n)],
            "mu_scalar": draw(st.booleans()),
            "option": draw(st.sampled_from(OPTIONS))}


def check_jcw(case, v: Verdict):
    from WallGo.PotentialTools import EffectivePotentialNoResum, EImaginaryOption

    mB = np.array(case["msqB"], dtype=float)
    mF = np.array(case["msqF"], dtype=float)
    nB, nF = np.array(case["dofB"]), np.array(case["dofF"])
    c = np.array(case["c"])
    mu = float(case["mu"][0]) if case["mu_scalar"] else np.array(case["mu"])
    option = case["option"]
    anyneg = bool(np.any(mB < 0) or np.any(mF < 0))
    v.nontrivial = bool(anyneg or mB.size > 1)
    v.label("jcw", f"option:{option}", "anyneg" if anyneg else "allpos")

    def closed(m, n):
        with np.errstate(all="ignore"):
            lg = np.where(m != 0, np.log(np.abs(np.where(m != 0, m, 1.0)) / np.asarray(mu) ** 2), 0.0)
        re = n * m * m * (lg - c) / (64 * PI2)
        im = np.where(m < 0, n * m * m * PI / (64 * PI2), 0.0)
        mag = np.abs(n) * m * m * (np.abs(lg) + np.abs(c) + PI) / (64 * PI2)
        return re, im, mag

    v.checked("jcw")
    for m, n, nm in ((mB, nB, "bosons"), (mF, nF, "fermions")):
        got = np.asarray(EffectivePotentialNoResum.jCW(m, n, c, mu))
        re, im, mag = closed(m, n)
        err = np.maximum(np.abs(np.real(got) - re), np.abs(np.imag(got) - im))
        if got.shape != m.shape or np.any(err > 1e-13 * mag + 1e-300):
            k = np.unravel_index(int(np.argmax(err - 1e-13 * mag)), m.shape) if got.shape == m.shape else None
            v.fail("jcw", "neg" if np.any(m < 0) else "pos",
                   f"jCW({nm}) = {got.tolist()} but closed form {re.tolist()} + i {im.tolist()} (worst at {k})")
            return

    class P(EffectivePotentialNoResum):
        fieldCount = 1
        effectivePotentialError = 1e-8

        def bosonInformation(self, fields, temperature=None):
            return None

        def fermionInformation(self, fields, temperature=None):
            return None

        def evaluate(self, fields, temperature):
            return None

    pot = P(imaginaryOption=getattr(EImaginaryOption, option))
    bos, fer = (mB, nB, c, mu), (mF, nF, c, mu)
    try:
        got = pot.potentialOneLoop(bos, fer)
        raised = False
    except ValueError:
        raised = True
    v.checked("cw-sum")
    if option == "ERROR":
        if raised != anyneg:
            v.fail("cw-sum", f"ERROR {'anyneg' if anyneg else 'allpos'}", f"ERROR option: raised={raised}, some m^2<0: {anyneg}")
        if raised:
            v.label("outcome:ValueError")
            return
    elif raised:
        v.fail("cw-sum", option, "ValueError although imaginaryOption != ERROR")
        return
    if option == "ABS_ARGUMENT":
        mBe, mFe = np.abs(mB), np.abs(mF)
    else:
        mBe, mFe = mB, mF
    reB, _, magB = closed(mBe, nB)
    reF, _, magF = closed(mFe, nF)
    want = reB.sum(axis=-1) - reF.sum(axis=-1)
    mag = magB.sum(axis=-1) + magF.sum(axis=-1)
    got = np.asarray(got)
    if option == "ABS_RESULT" and anyneg:
        if np.any(np.iscomplex(got)) or np.any(np.real(got) < 0):
            v.fail("cw-sum", "ABS_RESULT", f"ABS_RESULT returned {got.tolist()}")
        return
    if np.iscomplexobj(got) and np.any(np.imag(got) != 0):
        v.fail("cw-sum", option, f"potentialOneLoop returned a complex value {got.tolist()}")
        return
    if got.shape != want.shape or np.any(np.abs(np.real(got) - want) > 1e-12 * mag + 1e-300):
        v.fail("cw-sum", option + (" negF" if np.any(mF < 0) else "") + (" negB" if np.any(mB < 0) else ""),
               f"potentialOneLoop = {np.real(got).tolist()} but sum_B - sum_F of the closed form = {want.tolist()}")


# ---------------------------------------------------------------------------
# ---------------------------------------------------------------------------
# call histories on one Integrals() object (the object a potential without tables owns)
# ---------------------------------------------------------------------------
@st.composite
def st_hist_case(draw):
    """A long scan (more evaluations than InterpolatableFunction's adaptive-update threshold of 500) between two
    evaluations of the same probe arguments, on the Integrals() object built by default / by a potential
    constructed without tables.  The integral is a function of its argument: the scan must not change it."""
    n = draw(st.integers(510, 900))
    lo = draw(st.floats(-3.0, 1.0))
    hi = draw(st.floats(1.5, 3.0))
    neg = draw(st.sampled_from([0.0, 0.0, 5.0, 20.0]))
    probes = [draw(st.floats(0.0, 1.0)) for _ in range(4)]
    return {"kind": "hist", "via": draw(st.sampled_from(["integrals", "potential"])), "n": n, "lo": lo, "hi": hi,
            "neg": neg, "probes": probes, "chunk": draw(st.sampled_from([1, 7, 64, 1000]))}


def check_hist(case, v: Verdict):
    from WallGo.PotentialTools import EffectivePotentialNoResum, EImaginaryOption, Integrals

    if case["via"] == "integrals":
        ints = Integrals()
    else:
        class P(EffectivePotentialNoResum):
            fieldCount = 1
            effectivePotentialError = 1e-8

            def bosonInformation(self, fields, temperature=None):
                return None

            def fermionInformation(self, fields, temperature=None):
                return None

            def evaluate(self, fields, temperature):
                return 0.0

        pot = P(imaginaryOption=EImaginaryOption.PRINCIPAL_PART)   # the scan may contain negative mass^2
        ints = pot.integrals
    n, lo, hi = int(case["n"]), float(case["lo"]), float(case["hi"])
    xs = 10.0 ** np.linspace(lo, hi, n)
    if case["neg"] > 0:
        xs = np.concatenate([-np.linspace(0.01, case["neg"], n // 10), xs])
    px = np.array([10.0 ** (lo + u * (hi - lo)) for u in case["probes"]])
    v.label("hist", f"via:{case['via']}", f"scan:{'neg+pos' if case['neg'] > 0 else 'pos'}", f"chunk:{case['chunk']}")
    v.nontrivial = True
    for fn in ("Jb", "Jf"):
        J = getattr(ints, fn)
        kind = fn[1]
        before = np.array([np.ravel(np.asarray(J(float(x)), dtype=float)) for x in px])
        ch = int(case["chunk"])
        for i in range(0, len(xs), ch):
            if case["via"] == "potential":
                # the scan goes through the one-loop thermal potential (one boson + one fermion of mass^2 x at T = 1)
                m = xs[i:i + ch][:, None]
                one = np.array([1.0])
                pot.potentialOneLoopThermal((m, one, one, one), (m, one, one, one), 1.0)
            else:
                J(xs[i:i + ch])
        after = np.array([np.ravel(np.asarray(J(float(x)), dtype=float)) for x in px])
        v.checked("hist-repeat")
        v.checked("hist-direct")
        for k, x in enumerate(px):
            want = oracle(kind, float(x))
            jabs = abs(want)
            if not (np.array_equal(before[k], after[k])
                    or np.max(np.abs(before[k] - after[k])) <= tol_quad(x, jabs, 0)):
                v.fail("hist-repeat", f"{fn} via={case['via']}",
                       f"{fn}({x!r}) = {before[k][0]!r} before and {after[k][0]!r} after {len(xs)} further evaluations on "
                       f"the same Integrals() object (integral {want.real!r})", x=float(x))
                break
            _check_component(v, "hist-direct", fn, float(x), after[k], want, jabs, label_extra=" after-scan")



@st.composite
def st_histx_case(draw):
    """A user-owned Integrals() object: tables built on [0, b0], boundary-value (CONSTANT) extrapolation as the default
    tables use, arguments beyond the table evaluated, the tables widened with extendInterpolationTable (what
    tests/testsPotentialTools test_Jb_extend_range does), arguments inside and beyond the NEW table evaluated."""
    b0 = float(draw(st.integers(4, 30)))
    b1 = b0 + float(draw(st.integers(5, 60)))
    return {"kind": "histx", "b0": b0, "b1": b1, "per_unit": draw(st.sampled_from([4, 8])),
            "first": [draw(st.floats(0.0, 1.0)) for _ in range(2)],
            "later": [draw(st.floats(0.0, 1.0)) for _ in range(3)],
            "beyond": [draw(st.floats(0.01, 3.0)) for _ in range(2)],
            "order": draw(st.sampled_from(["value-first", "derivative-first"]))}


def check_histx(case, v: Verdict):
    from WallGo import EExtrapolationType
    from WallGo.PotentialTools import Integrals

    ints = Integrals()
    b0, b1, k = float(case["b0"]), float(case["b1"]), int(case["per_unit"])
    v.label("histx", f"per_unit:{k}", case["order"])
    v.nontrivial = True
    for fn in ("Jb", "Jf"):
        J = getattr(ints, fn)
        kind = fn[1]
        J.newInterpolationTable(0.0, b0, int(b0 * k) + 1)
        J.setExtrapolationType(EExtrapolationType.CONSTANT, EExtrapolationType.CONSTANT)

        def val(x):
            return np.ravel(np.asarray(J(float(x)), dtype=float))

        def beyond_ok(x, edge, stage):
            """boundary-value extrapolation: J(x) beyond the table is the integral at the CURRENT table end"""
            got, want = val(x), oracle(kind, edge)
            v.checked("histx-constant")
            if not abs(got[0] - want.real) <= tol_quad(edge, abs(want), 0):
                v.fail("histx-constant", f"{fn} {stage}",
                       f"{fn}({x!r}) with boundary-value extrapolation = {got[0]!r} {stage}; the table ends at {edge!r} where "
                       f"the integral is {want.real!r}", x=float(x))
                return False
            return True

        for u in case["first"]:
            if case["order"] == "derivative-first":
                J.derivative(b0 * (1.0 + u) + 0.5, 1, True)
                J.derivative(b0 * u, 1, True)
                J.derivative(b0 * u, 2, True)
            if not beyond_ok(b0 * (1.0 + u) + 0.5, b0, "before the extension"):
                return
        J.extendInterpolationTable(0.0, b1, 0, int((b1 - b0) * k))
        v.checked("histx-range")
        if abs(J.interpolationRangeMax() - b1) > 1e-9 * b1:
            v.fail("histx-range", fn, f"after extendInterpolationTable(0, {b1}, ...) the table ends at {J.interpolationRangeMax()!r}")
            return
        edge = float(J.interpolationRangeMax())
        for u in case["beyond"]:
            if not beyond_ok(edge + u * b1, edge, "after the extension"):
                return
        # inside the widened table: spacing 1/k on a smooth function; measured envelope of the spline error for
        # Jb/Jf on x >= 4 at spacing 1/4 is 2e-6 (|J| h^4 5/384 with |J| < 0.1): bound 1e-4 (1 + |J|)
        v.checked("histx-inside")
        for u in case["later"]:
            x = b0 + u * (b1 - b0)
            got, want = val(x), oracle(kind, x)
            err = abs(got[0] - want.real)
            v.info["histx_inside_err"] = max(v.info.get("histx_inside_err", 0.0), float(err))
            if not err <= 1e-4 * (1.0 + abs(want)):
                v.fail("histx-inside", f"{fn}", f"{fn}({x!r}) = {got[0]!r} inside the widened table, integral {want.real!r}", x=float(x))
                return
        # first derivative inside the widened table (the tables "reproduce those integrals and their first derivative
        # over their whole range" for whatever was asked of the object before): measured envelope on the unchanged
        # tree for spacing 1/4 and 1/8 on x >= 4 (48 configurations): 6.1e-7; bound 2e-5 (1 + |J'|)
        v.checked("histx-derivative")
        for u in case["later"]:
            x = b0 + u * (b1 - b0)
            got = np.ravel(np.asarray(J.derivative(float(x), 1, True), dtype=float))
            want = oracle(kind, x, 1)
            err = abs(got[0] - want.real) if np.isfinite(got[0]) else np.inf
            v.info["histx_derivative_err"] = max(v.info.get("histx_derivative_err", 0.0), float(min(err, 1e300)))
            if not err <= 2e-5 * (1.0 + abs(want)):
                v.fail("histx-derivative", f"{fn} {case['order']}",
                       f"{fn}.derivative({x!r}) = {got[0]!r} inside the widened table [0, {b1}], derivative of the integral "
                       f"{want.real!r}", x=float(x))
                return


# ---------------------------------------------------------------------------
# "every temperature" includes T = 0 exactly (the module guards the division m^2/T^2 for it)
# ---------------------------------------------------------------------------
@st.composite
def st_pot0_case(draw):
    t0 = 10.0 ** draw(st.floats(-2, 3))
    tform = draw(st.sampled_from(["float", "int", "0d", "array", "int-array"]))
    if tform in ("array", "int-array"):
        n = draw(st.integers(2, 4))
        k0 = draw(st.integers(0, n - 1))
        temps = [0.0 if i == k0 else (float(draw(st.integers(1, 300))) if tform == "int-array"
                                      else t0 * draw(st.floats(0.5, 2.0))) for i in range(n)]
    else:
        temps = [0.0]
    xs = [0.0, 0.0, 1e-6, 0.3, 5.0, 200.0]
    nb, nf = draw(st.integers(0, 3)), draw(st.integers(0, 3))
    if nb + nf == 0:
        nb = 1
    return {"kind": "pot0", "integrals": draw(st.sampled_from(["direct", "tables"])), "T0": t0, "tform": tform, "T": temps,
            "xB": [[draw(st.sampled_from(xs)) for _ in range(nb)] for _ in temps],
            "xF": [[draw(st.sampled_from(xs)) for _ in range(nf)] for _ in temps],
            "nB": [draw(st.sampled_from([1, 2, 3, 6, 24])) for _ in range(nb)],
            "nF": [draw(st.sampled_from([1, 4, 12])) for _ in range(nf)]}


def check_pot0(case, v: Verdict):
    from WallGo.PotentialTools import EffectivePotentialNoResum, EImaginaryOption

    class P(EffectivePotentialNoResum):
        fieldCount = 1
        effectivePotentialError = 1e-8

        def bosonInformation(self, fields, temperature=None):
            return None

        def fermionInformation(self, fields, temperature=None):
            return None

        def evaluate(self, fields, temperature):
            return 0.0

    pot = P(useDefaultInterpolation=(case["integrals"] == "tables"), imaginaryOption=EImaginaryOption.ERROR)
    temps = list(case["T"])
    tform = case["tform"]
    T = {"float": 0.0, "int": 0, "0d": np.array(0.0)}.get(tform)
    if T is None:
        T = np.array(temps, dtype=float) if tform == "array" else np.array([int(t) for t in temps])
    sc = float(case["T0"]) ** 2
    mB = np.array(case["xB"], dtype=float).reshape(len(temps), -1) * sc
    mF = np.array(case["xF"], dtype=float).reshape(len(temps), -1) * sc
    nB, nF = np.array(case["nB"], dtype=float), np.array(case["nF"], dtype=float)
    massless = bool(np.any(mB == 0) or np.any(mF == 0))
    v.label("pot0", f"integrals:{case['integrals']}", f"T:{tform}", "massless-species" if massless else "massive-only")
    v.nontrivial = massless
    cls = f"{case['integrals']} T={tform}" + (" massless" if massless else "")

    def call(mb, mf, t):
        oneb, onef = np.ones(mb.shape[-1]), np.ones(mf.shape[-1])
        return np.atleast_1d(np.asarray(pot.potentialOneLoopThermal((mb, nB, oneb, oneb), (mf, nF, onef, onef), t), dtype=float))

    got = call(mB, mF, T)
    v.checked("pot0-zero")
    if got.shape != (len(temps),):
        v.fail("pot0-zero", cls + " shape", f"potentialOneLoopThermal returned shape {got.shape} for {len(temps)} temperatures")
        return
    for i, t in enumerate(temps):
        if t == 0.0:
            if not (np.isfinite(got[i]) and abs(got[i]) <= 1e-250):
                v.fail("pot0-zero", cls, f"thermal one-loop potential at T = 0 (entry {i} of {temps}) is {got[i]!r}; the free energy "
                       f"of an ideal gas at zero temperature vanishes (m^2 = {mB[i].tolist()} / {mF[i].tolist()})")
                return
        else:
            v.checked("pot0-row")
            alone = call(mB[i:i + 1], mF[i:i + 1], float(t))
            if not abs(got[i] - alone[0]) <= 1e-12 * abs(alone[0]) + 1e-300:
                v.fail("pot0-row", cls, f"entry {i} (T = {t!r}) of a temperature array containing 0 is {got[i]!r}; evaluated alone "
                       f"{alone[0]!r}")
                return


def strategy(tier):
    # weights chosen from the measured label histogram (Hypothesis favours the structurally smaller branches)
    return st.integers(0, 48).flatmap(
        lambda k: st_point_case() if k < 40 else (st_pot_case() if k < 44 else (
            st_jcw_case() if k < 45 else (st_hist_case() if k < 46 else (st_histx_case() if k < 48 else st_pot0_case())))))


def check_case(case) -> Verdict:
    np.set_printoptions(legacy="1.25")     # plain float repr in messages (no 'np.float64(...)')
    v = Verdict()
    kind = case["kind"]
    if kind == "meta":
        check_meta(case, v)
    elif kind == "rows":
        check_rows(case, v)
    elif kind == "point":
        check_point(case, v)
    elif kind == "pot":
        check_pot(case, v)
    elif kind == "jcw":
        check_jcw(case, v)
    elif kind == "hist":
        check_hist(case, v)
    elif kind == "histx":
        check_histx(case, v)
    elif kind == "pot0":
        check_pot0(case, v)
    else:
        raise ValueError(kind)
    return v
