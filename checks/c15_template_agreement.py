"""C15 - full hydrodynamics and the template model agree on template equations of state.

Differential check: WallGo.Hydrodynamics (general solver) against WallGo.HydrodynamicsTemplateModel (closed forms)
on EOS objects that ARE of the constant-sound-speed template form.  Every quantity is computed by both solvers at
two tolerance levels, L0 = (rtol, atol) = (1e-6, 1e-10) (default) and L1 = (1e-9, 1e-12); the two must agree
within the sum of their tolerance-propagated allowances at either level (so agreement must tighten with the
tolerance), and vlib.refhydro - which shares no code with either - arbitrates: the class string of a violation
says which side is outside its own allowance (general-wrong / template-wrong / both-wrong / neither).

Sub-oracles (K = 10)
  vJ             findJouguetVelocity: image of the general solver's T- tolerance window under v+(T-) + 1e-11
  vmin           minVelocity: K(atol + rtol v) + K rtol Tn/|dTn'/dvw| for each solver (strongest shock integrated by
                 the reference) + the difference between the two definitions (T- floor TMinHydro vs 0)
  matching       findMatching (v+, v-, T+, T-): deflagration/hybrid dv+ = K(atol + rtol v+) + K rtol Tn/|dTn'/dv+|,
                 dT = |dT/dv+| dv+ + K(atol + rtol T), dv- = image of dT- under c_b; detonation: T- window and its
                 image under the junction relation (reference slopes)
  boundaries     findHydroBoundaries (c1, c2, T+, T-, velocityMid): forward image of the matching allowance
  none-mismatch  one solver returns a tuple of None / zeros / raises WallGoError where the other returns numbers
                 (outside a margin 1e-3 of v_min)
  lte            findvwLTE: K(atol + rtol v) + [K rtol Tn |dS/dv+|/|dTn'/dv+| + K atol |dS/dv+|]/|dS/dv| for each
                 solver; sentinel on one side only is a violation unless the number is within 1e-3 of v_min or v_J
                 or alpha_n within 1e-3 (relative) of a threshold
  kappa          efficiencyFactor: |kappa_gen - kappa_tmpl|/kappa_ref <= ENV[level] (measured envelope x5, 2.4.4) + the
                 forward image of the matching allowance on kappa (reference profile re-integrated from the shifted
                 wall states), and the disagreement must not grow when the tolerance is tightened
"""
from __future__ import annotations

import math

from hypothesis import strategies as st

from vlib import refhydro as R
from vlib import zoo_eos as Z
from vlib.core import Verdict

PROPERTY_ID = "C15"
ENGINE = "hypothesis @given, differential (general vs template solver) at two tolerance levels, independent reference as arbiter"
RULE = (
    "Case = template EOS (alpha_n = max((1-Psi_n)/3, positive-bag-constant bound) + 10^[-3,0.3], Psi_n in [0.5,1) "
    "half uniform half log-close to 1, c_s^2 and c_b^2 independently in [0.2,1/3] with mass on 0.2, 0.25, 1/3, "
    "Tn in 10^[-2,3]) x kind: (landmarks) vJ, minVelocity, findvwLTE; (matching) wall velocity from classes with "
    "mass at v_min, c_b, v_J and 0.99 -> findMatching, findHydroBoundaries, efficiencyFactor. Every quantity from "
    "both solvers at (1e-6,1e-10) and (1e-9,1e-12). Non-trivial = both sides return numbers (not sentinels/None) "
    "and, for the matching kind, vw not within 1e-3 of v_min, c_b, v_J. In a third of the cases all four solver objects "
    "first answer efficiencyFactor for one or two other walls (hybrid / detonation / deflagration) - call history on "
    "one object. Distinct by canonical JSON of the case."
)
BUDGET = {
    "quick": {"cases": 800, "shrink": True, "time_cap_s": 900},
    "thorough": {"cases": 30000, "shrink": True, "time_cap_s": 3300},
}
K = 10.0
LEVELS = {"L0": (1e-6, 1e-10), "L1": (1e-9, 1e-12)}
VJ_FLOOR = 1e-11
KAPPA_ENV = {"L0": 8e-2, "L1": 2.5e-3}
KAPPA_NOT_WORSE = 1e-4
ROUND = 1e-12
TOLERANCES = {
    "K": K,
    "levels": {k: list(x) for k, x in LEVELS.items()},
    "vJ_floor": VJ_FLOOR,
    "kappa_envelope": KAPPA_ENV,
    "kappa_envelope_measurement": "180 template EOS x wall velocities (6 seeds), unchanged tree, outside -0.05 <= vw - vJ <= 0.005: "
                                  "max |kappa_gen - kappa_tmpl|/kappa_ref = 1.6e-2 at L0, 5.1e-4 at L1; x5. Inside that window "
                                  "(class near-vJ) the measured maximum is 1.1e-1 at L0, 2.5e-3 at L1 (C03 finding F4)",
    "kappa_not_worse": "d(L1) <= d(L0) + 1e-4",
    "closed_form_rounding": ROUND,
}
ASSUMPTIONS = [
    "The template EOS keeps a positive bag constant (alpha_n above (mu-nu)/(3 mu)) as WallGoManager demands; the "
    "property's '1e-3 to order one' is realised as lower bound + 10^[-3, 0.3].",
    "minVelocity of the general solver is defined with T- = TMinHydro = 0.01 Tn, of the template solver with T- -> 0; "
    "the reference evaluates both definitions and their difference is part of the allowance.",
    "Wall velocities are placed relative to the template solver's closed-form landmarks (v_min, c_b, v_J).",
    "Efficiency factor: no tolerance-derived bound exists (Simpson rule on the ODE solver's own steps), so a measured "
    "envelope with a convergence relation is used (DESIGN 2.4.4).",
]
EXHAUSTIVE_SUBDOMAINS = []
WARM_CLASSES = ["hyb", "hyb", "det", "det", "defl"]
VCLASSES = ["vmin", "vmin+", "defl", "defl", "defl", "cb-", "cb+", "hyb", "hyb", "hyb", "vJ-", "vJ-", "vJ+", "vJ+",
            "det", "det", "v099"]


# ---------------------------------------------------------------------------------------------
# strategy
# ---------------------------------------------------------------------------------------------
def _f(lo, hi):
    return st.floats(lo, hi, allow_nan=False, allow_infinity=False)


@st.composite
def st_template15(draw):
    if draw(st.booleans()):
        psi = draw(_f(0.5, 0.999))
    else:
        psi = 1.0 - 0.5 * 10.0 ** draw(_f(-3.0, 0.0))
    cs2, cb2 = draw(Z.st_csq()), draw(Z.st_csq())
    mu, nu = 1.0 + 1.0 / cs2, 1.0 + 1.0 / cb2
    lower = max((1.0 - psi) / 3.0, (mu - nu) / (3.0 * mu), 0.0)
    al = lower + 10.0 ** draw(_f(-3.0, 0.3))
    spec = {"family": "template", "Tn": draw(Z.st_tn()), "alN": al, "psiN": psi, "cs2": cs2, "cb2": cb2,
            "g": 10.0 ** draw(_f(-1.0, 2.0))}
    if draw(st.integers(0, 2)) == 0:
        # the low-T phase is tabulated down to a fraction of Tn only (its own range, not the solver's T- floor
        # tmin*Tn): the equation of state is still the template form everywhere (template extrapolation is exact)
        spec["ranges"] = {"high": list(Z.WIDE), "low": [round(draw(_f(0.3, 0.8)), 3), Z.WIDE[1]]}
    return spec


@st.composite
def st_case(draw, tier):
    spec = draw(st_template15())
    # call history: in a third of the cases both solvers first answer efficiencyFactor for one or two OTHER walls
    # (hybrids / detonations integrate the rarefaction wave, deflagrations the shock) before the compared queries
    warm = None
    if draw(st.integers(0, 2)) == 0:
        warm = [[draw(st.sampled_from(WARM_CLASSES)), draw(_f(0.0, 1.0))] for _ in range(draw(st.integers(1, 2)))]
    if draw(st.integers(0, 9)) < 3:
        return {"kind": "landmarks", "eos": spec, "warm": warm}
    return {"kind": "matching", "eos": spec, "vclass": draw(st.sampled_from(VCLASSES)), "u": draw(_f(0.0, 1.0)),
            "warm": warm}


def strategy(tier):
    return st_case(tier)


# ---------------------------------------------------------------------------------------------
# helpers
# ---------------------------------------------------------------------------------------------
def _is_num(x):
    try:
        return x is not None and math.isfinite(float(x))
    except (TypeError, ValueError):
        return False


def box(T, rtol, atol):
    return K * (atol + rtol * abs(T))


def gam(v):
    return 1.0 / math.sqrt(1.0 - v * v)


def who_wrong(g, t, ref, ag, at):
    bad_g = not abs(g - ref) <= ag
    bad_t = not abs(t - ref) <= at
    return "both-wrong" if bad_g and bad_t else "general-wrong" if bad_g else "template-wrong" if bad_t else "neither"


class Pair:
    """General and template solver at one tolerance level."""

    def __init__(self, th, lev):
        self.lev = lev
        self.rtol, self.atol = LEVELS[lev]
        self.g = Z.build_hydro(th, self.rtol, self.atol)
        self.t = Z.build_template(th, self.rtol, self.atol)


def call(fn, *a):
    """-> ('num', value) | ('none', None) | ('error', text)"""
    from WallGo import WallGoError

    try:
        r = fn(*a)
    except WallGoError as exc:
        return "error", str(exc)[:120]
    if isinstance(r, tuple):
        if any(x is None for x in r):
            return "none", None
        if not all(_is_num(x) for x in r):
            return "nan", r
        return "num", tuple(float(x) for x in r)
    if not _is_num(r):
        return "nan", r
    return "num", float(r)


def matching_allow(eos, Tn, vw, ref, rtol, atol):
    """Per-component allowance around the exact matching `ref` (reference slopes)."""
    if ref.kind == "detonation":
        b = box(ref.Tm, rtol, atol)
        try:
            dv = max(abs(R.deton_vm(eos, Tn, ref.Tm + s * b) - ref.vm) for s in (-1.0, 1.0))
        except (ValueError, ZeroDivisionError):
            dv = float("inf")
        if dv != dv:
            dv = float("inf")
        return {"vp": 0.0, "vm": 1.5 * dv + 1e-13, "Tp": 0.0, "Tm": b}
    dvp = K * (atol + rtol * ref.vp) + K * rtol * Tn / abs(ref.dTn_dvp)
    a = {"vp": dvp + 1e-14, "Tp": abs(ref.dTp_dvp) * dvp + box(ref.Tp, rtol, atol),
         "Tm": abs(ref.dTm_dvp) * dvp + box(ref.Tm, rtol, atol)}
    a["vm"] = 1e-15 if ref.kind == "deflagration" else 1e-13  # c_b is a constant of the template EOS
    return a


def boundaries_from(eos, m):
    vp, vm, Tp, Tm = m
    w = eos.ws(Tp)
    return (-w * R.g2(vp) * vp, eos.ps(Tp) + w * R.g2(vp) * vp * vp, Tp, Tm, -0.5 * (vp + vm))


def boundaries_allow(eos, ref, a):
    """Forward image of the matching allowance on (c1, c2, T+, T-, vmid)."""
    vp, Tp = ref.vp, ref.Tp
    w, dw, dp = eos.ws(Tp), eos.dws(Tp), eos.dps(Tp)
    g2 = R.g2(vp)
    dc1 = w * (1 + vp * vp) * g2 * g2 * a["vp"] + dw * g2 * vp * a["Tp"]
    dc2 = w * 2 * vp * g2 * g2 * a["vp"] + (dp + dw * g2 * vp * vp) * a["Tp"]
    sc = w * (1.0 + g2 * vp * vp) + abs(eos.ps(Tp))
    return (dc1 + ROUND * w * g2 * vp, dc2 + ROUND * sc, a["Tp"] + ROUND * Tp, a["Tm"] + ROUND * ref.Tm,
            0.5 * (a["vp"] + a["vm"]) + 1e-15)


# ---------------------------------------------------------------------------------------------
# landmarks: vJ, vmin, LTE
# ---------------------------------------------------------------------------------------------
def check_landmarks(case, v, th, meta, eos, pairs):
    Tn = meta["Tn"]
    alN, psiN = meta["alN"], meta["psiN"]
    mu, nu = 1.0 + 1.0 / meta["cs2n"], 1.0 + 1.0 / meta["cb2n"]
    thresholds = [(1.0 - psiN) / 3.0, (mu - nu) / (3.0 * mu), 1.0 / 3.0]
    near_alpha = min(abs(alN - t) for t in thresholds) < 1e-3 * max(alN, 1e-3)
    # ---- vJ -----------------------------------------------------------------------------------
    try:
        vJr, TmJ = R.chapman_jouguet(eos, Tn)
        vJr2, _ = R.jouguet_by_minimisation(eos, Tn)
        if abs(vJr - vJr2) > 1e-9:
            raise R.RefFailure("vJ-inconsistent")
    except R.RefFailure as exc:
        v.label(f"ref-vJ:{str(exc).split(':')[0]}")
        return v.discarded(f"reference:{str(exc).split(':')[0]}")
    for lev, P in pairs.items():
        kg, g = call(P.g.findJouguetVelocity)
        kt, t = call(P.t.findJouguetVelocity)
        if kg != "num" or kt != "num":
            v.label(f"vJ:{kg}/{kt}")
            if kg != kt:
                v.fail("none-mismatch", f"vJ/{lev}/{kg}-vs-{kt}", f"findJouguetVelocity: general {kg} {g!r}, template {kt} {t!r}")
            continue
        v.checked("vJ")
        w = box(TmJ, P.rtol, P.atol)
        dev = [abs(R.deton_vp(eos, Tn, T) - vJr) for T in (TmJ - w, TmJ + w)]
        ag = max([d for d in dev if d == d] + [0.0]) + VJ_FLOOR
        at = VJ_FLOOR
        v.info[f"vJ_diff_{lev}"] = g - t
        if not abs(g - t) <= ag + at:
            v.fail("vJ", f"{lev}/{who_wrong(g, t, vJr, ag, at)}",
                   f"findJouguetVelocity: general {g:.13g}, template {t:.13g}, reference {vJr:.13g}; "
                   f"|difference| {abs(g - t):.3e} > {ag + at:.2e} (alpha_n={alN:.6g}, cb2={meta['cb2n']:.6g})",
                   general=g, template=t, reference=vJr)
    v.nontrivial = True
    # ---- vmin -----------------------------------------------------------------------------------
    vmin_ref = None
    try:
        v0, s0, _ = R.min_velocity(eos, Tn, 0.0)
        v1, s1, _ = R.min_velocity(eos, Tn, 0.01 * Tn)
        vmin_ref = (v0, s0, v1, s1)
    except R.RefFailure as exc:
        v.label(f"ref-vmin:{str(exc).split(':')[0]}")
    for lev, P in pairs.items():
        kg, g = call(P.g.minVelocity)
        kt, t = call(P.t.minVelocity)
        if kg != "num" or kt != "num":
            v.label(f"vmin:{kg}/{kt}")
            continue
        if vmin_ref is None:
            break
        v0, s0, v1, s1 = vmin_ref
        v.checked("vmin")
        if (g == 0.0) != (t == 0.0):
            if abs(alN - 1.0 / 3.0) < 1e-3 or max(g, t) < 2e-3:
                v.label("vmin:sentinel-mismatch-in-margin")
                continue
            v.fail("vmin", f"{lev}/sentinel-mismatch",
                   f"minVelocity: general {g!r}, template {t!r}, reference {v1:.8g} (alpha_n = {alN:.8g})",
                   general=g, template=t, reference=[v0, v1])
            continue
        if g == 0.0:
            v.label("vmin:none")
            if v0 > 2e-3:
                v.fail("vmin", f"{lev}/both-zero", f"minVelocity is 0 for both solvers but the reference finds {v0:.8g}")
            continue
        ag = K * (P.atol + P.rtol * v1) + (K * P.rtol * Tn / abs(s1) if s1 else float("inf"))
        at = K * (P.atol + P.rtol * v0) + (K * P.rtol * Tn / abs(s0) if s0 else float("inf"))
        v.info[f"vmin_diff_{lev}"] = g - t
        v.info[f"vmin_ratio_{lev}"] = abs(g - t) / (ag + at + abs(v0 - v1))
        if not abs(g - t) <= ag + at + abs(v0 - v1):
            bg, bt = not abs(g - v1) <= ag, not abs(t - v0) <= at
            who = "both-wrong" if bg and bt else "general-wrong" if bg else "template-wrong" if bt else "neither"
            v.fail("vmin", f"{lev}/{who}",
                   f"minVelocity: general {g:.12g} (reference with T- = 0.01 Tn: {v1:.12g}, allowed {ag:.2e}), template "
                   f"{t:.12g} (reference with T- -> 0: {v0:.12g}, allowed {at:.2e}); alpha_n = {alN:.6g}",
                   general=g, template=t, reference=[v0, v1])
    # ---- LTE ------------------------------------------------------------------------------------
    from WallGo import WallGoError

    res = {}
    for lev, P in pairs.items():
        for nm, h in (("g", P.g), ("t", P.t)):
            try:
                res[nm, lev] = float(h.findvwLTE())
            except WallGoError as exc:
                res[nm, lev] = None
                v.label(f"lte:{nm}:WallGoError")
            except ValueError as exc:
                if near_alpha and "different signs" in str(exc):
                    res[nm, lev] = None
                    v.label("lte:ValueError-in-margin")
                else:
                    raise
    vJt = pairs["L0"].t.vJ
    lo_v = max(pairs["L0"].g.vMin, pairs["L0"].t.vMin, 1e-3)
    ref_root = None
    for lev, P in pairs.items():
        g, t = res["g", lev], res["t", lev]
        if g is None or t is None:
            continue
        v.checked("lte")
        v.label(f"lte:{'sentinel' if g in (0.0, 1.0) else 'root'}/{'sentinel' if t in (0.0, 1.0) else 'root'}")
        sent_g, sent_t = g in (0.0, 1.0), t in (0.0, 1.0)
        if sent_g or sent_t:
            if g == t:
                continue
            num = t if sent_g else g
            in_margin = near_alpha or (not (sent_g and sent_t) and (abs(num - lo_v) < 2e-3 or abs(num - vJt) < 2e-3))
            if in_margin:
                v.label("lte:sentinel-mismatch-in-margin")
                continue
            # who is right?  reference S at the ends of the window
            who = "?"
            try:
                sa = R.entropy_mismatch(*R.match_deflag(eos, Tn, lo_v + 1e-3).tuple())
                sb = R.entropy_mismatch(*R.match_deflag(eos, Tn, vJt - 1e-3).tuple())
                truth = 0.0 if sa < 0 else 1.0 if sb > 0 else "root"
                who = ("general-wrong" if (g if sent_g else "root") != truth else "") + \
                      ("template-wrong" if (t if sent_t else "root") != truth else "")
                who = who.replace("wronggeneral", "wrong+general") or "neither"
                if who == "general-wrongtemplate-wrong":
                    who = "both-wrong"
            except (R.RefFailure, TypeError):
                pass
            rel = "cs2>cb2" if mu < nu else "cs2<cb2" if mu > nu else "cs2=cb2"
            strong = "vMin>0" if lo_v > 1e-3 else "vMin=0"
            v.fail("lte", f"{lev}/sentinel-mismatch/{who}/{rel}/{strong}",
                   f"findvwLTE: general {g!r}, template {t!r} (alpha_n={alN:.6g}, Psi_n={psiN:.6g}, window "
                   f"[{lo_v:.4g}, {vJt:.6g}])", general=g, template=t)
            continue
        # both numbers
        if ref_root is None:
            try:
                vr, mr = R.lte_root(eos, Tn, max(lo_v, min(g, t) - 0.01), min(vJt - 1e-9, max(g, t) + 0.01), guess=g)
                h = 1e-5 * vr
                sa = R.entropy_mismatch(*R.match_deflag(eos, Tn, vr - h, hint_vp=mr.vp).tuple())
                sb = R.entropy_mismatch(*R.match_deflag(eos, Tn, vr + h, hint_vp=mr.vp).tuple())
                scale = mr.Tp * gam(mr.vp)
                dSdv = abs(sb - sa) * scale / (2 * h)
                gp, gm = gam(mr.vp), gam(mr.vm)
                Svp = abs(mr.dTp_dvp * gp + mr.Tp * gp ** 3 * mr.vp - mr.dTm_dvp * gm)
                ref_root = (vr, mr, dSdv, Svp)
            except (R.RefFailure, TypeError, AttributeError) as exc:
                v.label(f"ref-lte:{str(exc).split(':')[0][:30]}")
                ref_root = False
        if not ref_root:
            continue
        vr, mr, dSdv, Svp = ref_root
        if abs(vr - lo_v) < 1e-3 or abs(vr - vJt) < 1e-3:
            v.label("lte:root-in-margin")
            continue
        tolS = K * P.rtol * Tn * Svp / abs(mr.dTn_dvp) + K * P.atol * Svp
        a1 = K * (P.atol + P.rtol * vr) + (tolS / dSdv if dSdv > 0 else float("inf"))
        v.info[f"lte_diff_{lev}"] = g - t
        v.info[f"lte_ratio_{lev}"] = abs(g - t) / (2 * a1)
        if not abs(g - t) <= 2 * a1:
            who = who_wrong(g, t, vr, a1, a1)
            if "template" in who or who == "both-wrong":
                # is the template solver's "root" a jump of its own shooting function (solveAlpha switching roots)?
                try:
                    T_ = P.t

                    def shoot(x):
                        vm_ = min(T_.cb, x)
                        return T_._shooting(x, T_.getVp(vm_, T_.solveAlpha(x)))

                    fa, fb = shoot(t * (1 - 1e-4)), shoot(t * (1 + 1e-4))
                    if fa * fb < 0 and min(abs(fa), abs(fb)) > 1e-3:
                        who += "/jump"
                except Exception:  # noqa: BLE001  (labelling aid only)
                    pass
            v.fail("lte", f"{lev}/{mr.kind}/{Z.speed_bucket(vr)}/{who}",
                   f"findvwLTE: general {g:.12g}, template {t:.12g}, reference {vr:.12g}; |difference| "
                   f"{abs(g - t):.3e} > {2 * a1:.2e} (alpha_n={alN:.6g}, Psi_n={psiN:.6g})",
                   general=g, template=t, reference=vr)
    return v


# ---------------------------------------------------------------------------------------------
# matching: findMatching, findHydroBoundaries, efficiencyFactor
# ---------------------------------------------------------------------------------------------
def check_matching(case, v, th, meta, eos, pairs):
    Tn = meta["Tn"]
    T0 = pairs["L0"].t
    vmin_t, cb, vJ = T0.vMin, float(T0.cb), T0.vJ
    vmin = max(vmin_t, pairs["L0"].g.vMin)
    vw = Z.velocity(case["vclass"], case["u"], vmin, cb, vJ)
    near = min(abs(vw - max(vmin, 1e-3)), abs(vw - cb), abs(vw - vJ)) < 1e-3
    near_vmin = abs(vw - max(vmin, 1e-3)) < 1e-3 + 1e-12
    nearJ = -0.05 <= vw - vJ <= 0.005
    v.label(f"vclass:{case['vclass']}", "speed:" + Z.speed_bucket(vw), "landmark-margin" if near else "landmark-free")
    v.info.update(vw=vw, vMin=vmin, cb=cb, vJ=vJ, alN=meta["alN"], psiN=meta["psiN"])
    if abs(vw - vJ) <= K * (LEVELS["L0"][1] + LEVELS["L0"][0] * vJ):
        # the two solvers (and the reference) place vJ within their tolerances of each other: which branch a wall
        # this close to vJ belongs to is not defined to that accuracy
        v.label("margin:at-vJ")
        return v.discarded("margin:at-vJ")
    # reference
    ref, why = None, None
    try:
        ref = R.match(eos, Tn, vw, vJ=None, want_kappa=True)
        if not ref.ok:
            why, ref = ref.reason, None
    except R.RefFailure as exc:
        why = str(exc)
    if ref is None:
        v.label(f"ref:{(why or '?').split(':')[0]}")
    elif ref.kind != "detonation" and not ref.dTn_dvp:
        ref, why = None, "no-slopes"
    branch = ref.kind if ref is not None else "unknown"
    bucket = Z.speed_bucket(vw)
    eq_cs = case["eos"]["cs2"] == case["eos"]["cb2"]   # mu == nu: the template solver's alpha+ -> 0 end is degenerate
    v.label(f"branch:{branch}")
    got = {}
    bad_levels = set()
    for lev, P in pairs.items():
        got["g", lev] = call(P.g.findMatching, vw)
        flag = "" if branch == "detonation" or P.g.success else "/unconverged-flag"
        got["t", lev] = call(P.t.findMatching, vw)
        kg, g = got["g", lev]
        kt, t = got["t", lev]
        thin = ""
        try:
            if branch != "detonation" and ref is not None and ref.shock is not None and ref.shock.xi_sh is not None \
                    and ref.shock.xi_sh - vw < 3e-3:
                thin = "/thin-shock"     # shock wave thinner than 3e-3 in xi (the listed tight-tolerance finding)
        except AttributeError:
            pass
        cls = (f"{branch}/{bucket}" + thin + ("/near-vMin" if near_vmin else "")
               + ("/vp<1e-3" if (ref is not None and branch != "detonation" and ref.vp < 1e-3 and not near_vmin) else "")
               + ("/cs2=cb2" if eq_cs else "") + f"/{lev}")
        if kg != "num" or kt != "num":
            v.label(f"matching:{kg}/{kt}")
            if (kg == "num") != (kt == "num") and not near_vmin:
                v.checked("none-mismatch")
                exists = "a matching exists (reference)" if ref is not None else f"reference: {why}"
                v.fail("none-mismatch", f"{cls}/general-{kg}/template-{kt}",
                       f"findMatching({vw:.10g}): general -> {kg} {g!r}, template -> {kt} {t!r}; {exists}; "
                       f"vMin={vmin:.6g}, cb={cb:.6g}, vJ={vJ:.6g}, alpha_n={meta['alN']:.6g}", vw=vw)
            continue
        if ref is None:
            if why in R.NO_SOLUTION_REASONS:
                v.label("ref-says-no-solution")
                continue
            return v.discarded(f"reference:{(why or '?').split(':')[0]}")
        if not (0 < g[0] < 1 and 0 < g[1] < 1 and g[2] > 0 and g[3] > 0 and 0 < t[0] < 1 and 0 < t[1] < 1 and t[2] > 0 and t[3] > 0):
            v.label("matching:degenerate")
            continue
        v.checked("matching")
        v.nontrivial = v.nontrivial or not near
        a = matching_allow(eos, Tn, vw, ref, P.rtol, P.atol)
        rt = dict(zip(("vp", "vm", "Tp", "Tm"), ref.tuple()))
        gd = dict(zip(("vp", "vm", "Tp", "Tm"), g))
        td = dict(zip(("vp", "vm", "Tp", "Tm"), t))
        ratios = {k: (abs(gd[k] - td[k]) / (2 * a[k]) if a[k] > 0 else (0.0 if gd[k] == td[k] else float("inf"))) for k in a}
        v.info[f"matching_ratio_{lev}"] = max(ratios.values())
        bad = [k for k, r in ratios.items() if not r <= 1.0]
        if bad:
            bad_levels.add(lev)   # efficiency factor and boundary constants of this level are consequences
            k0 = max(bad, key=lambda k: ratios[k])
            who = who_wrong(gd[k0], td[k0], rt[k0], a[k0], a[k0])
            v.fail("matching", f"{cls}/{who}{flag if 'general' in who or who == 'both-wrong' else ''}",
                   f"findMatching({vw:.10g}) [{branch}]: " + ", ".join(
                       f"{k}: general {gd[k]:.10g} template {td[k]:.10g} exact {rt[k]:.10g} (allowed +-{a[k]:.1e} each)"
                       for k in bad) + f"; worst {k0} {ratios[k0]:.3g}x", vw=vw, general=list(g), template=list(t),
                   reference=list(ref.tuple()))
        # ---- boundaries ---------------------------------------------------------------------------
        kbg, bg = call(P.g.findHydroBoundaries, vw)
        kbt, bt = call(P.t.findHydroBoundaries, vw)
        if kbg == "num" and kbt == "num" and not bad:
            v.checked("boundaries")
            ab = boundaries_allow(eos, ref, a) if branch != "detonation" else None
            if ab is None:
                w = eos.ws(Tn)
                g2 = R.g2(vw)
                ab = (ROUND * w * g2 * vw, ROUND * (w * (1 + g2 * vw * vw) + abs(eos.ps(Tn))), ROUND * Tn,
                      a["Tm"] + ROUND * ref.Tm, 0.5 * a["vm"] + 1e-15)
            rb = boundaries_from(eos, ref.tuple())
            names = ("c1", "c2", "Tp", "Tm", "vmid")
            rr = [abs(x - y) / (2 * z) if z > 0 else float("inf") for x, y, z in zip(bg, bt, ab)]
            v.info[f"boundaries_ratio_{lev}"] = max(rr)
            badb = [i for i, r in enumerate(rr) if not r <= 1.0]
            if badb:
                i0 = max(badb, key=lambda i: rr[i])
                who = who_wrong(bg[i0], bt[i0], rb[i0], ab[i0], ab[i0])
                v.fail("boundaries", f"{cls}/{names[i0]}/{who}",
                       f"findHydroBoundaries({vw:.10g}): " + ", ".join(
                           f"{names[i]}: general {bg[i]:.12g} template {bt[i]:.12g} from the exact matching {rb[i]:.12g} "
                           f"(allowed +-{ab[i]:.1e} each)" for i in badb), vw=vw, general=list(bg), template=list(bt))
        elif (kbg == "num") != (kbt == "num") and not near_vmin:
            v.fail("none-mismatch", f"{cls}/boundaries/general-{kbg}/template-{kbt}",
                   f"findHydroBoundaries({vw:.10g}): general -> {kbg}, template -> {kbt}", vw=vw)
    # ---- efficiency factor ------------------------------------------------------------------------
    if ref is None or near_vmin:
        return v
    try:
        kref = R.kappa(eos, Tn, vw, ref.vp, ref.vm, ref.Tp, ref.Tm, shock=ref.shock)[0]
    except R.RefFailure as exc:
        v.label(f"ref-kappa:{str(exc).split(':')[0]}")
        return v
    if not kref > 0:
        return v
    d = {}
    for lev, P in pairs.items():
        if got["g", lev][0] != "num" or got["t", lev][0] != "num" or lev in bad_levels:
            continue
        try:
            kg_, kap_g = call(P.g.efficiencyFactor, vw)
            kt_, kap_t = call(P.t.efficiencyFactor, vw)
        except TypeError:
            v.label("kappa:TypeError-none-matching")
            continue
        if kg_ != "num" or kt_ != "num":
            v.label(f"kappa:{kg_}/{kt_}")
            continue
        d[lev] = (abs(kap_g - kap_t) / kref, kap_g / kref - 1.0, kap_t / kref - 1.0)
        v.info[f"kappa_diff_{lev}"] = d[lev][0]
    cls = f"{branch}/{bucket}" + ("/near-vJ" if nearJ else "")
    # forward image of the matching allowance on kappa (conditioning: e.g. weak detonations at vw -> 1, where
    # kappa ~ (vw - v-)^2 and vw - v- ~ alpha_n)
    cond = {}
    for lev, P in pairs.items():
        if lev not in d:
            continue
        a = matching_allow(eos, Tn, vw, ref, P.rtol, P.atol)
        dk = 0.0
        try:
            for sgn in (-1.0, 1.0):
                if branch == "detonation":
                    k2 = R.kappa(eos, Tn, vw, ref.vp, min(ref.vm + sgn * a["vm"], vw * (1 - 1e-15)), ref.Tp,
                                 ref.Tm + sgn * a["Tm"])[0]
                else:
                    dv = sgn * min(a["vp"], 0.5 * ref.vp, 0.5 * (vw - ref.vp) if vw > ref.vp else a["vp"])
                    k2 = R.kappa(eos, Tn, vw, ref.vp + dv, ref.vm, ref.Tp + ref.dTp_dvp * dv, ref.Tm + ref.dTm_dvp * dv)[0]
                dk = max(dk, abs(k2 - kref) / kref)
        except R.RefFailure:
            dk = float("inf")
        cond[lev] = dk
        v.info[f"kappa_cond_{lev}"] = dk
    for lev in d:
        v.checked("kappa")
        bound = KAPPA_ENV[lev] + 2.0 * cond[lev]
        if not d[lev][0] <= bound:
            eg, et = abs(d[lev][1]), abs(d[lev][2])
            who = "both-wrong" if min(eg, et) > bound / 2 else "general-wrong" if eg > et else "template-wrong"
            v.fail("kappa", f"{cls}/{lev}/{who}",
                   f"efficiencyFactor({vw:.8g}) [{branch}, vJ={vJ:.6g}]: general and template differ by "
                   f"{d[lev][0]:.3e} of the reference value {kref:.6g} at {lev} (envelope {KAPPA_ENV[lev]:.1e} + tolerance "
                   f"image {2 * cond[lev]:.1e}); general {d[lev][1]:+.3e}, template {d[lev][2]:+.3e} relative to the reference",
                   vw=vw, kappa_ref=kref, rel_err_general=d[lev][1], rel_err_template=d[lev][2])
    if "L0" in d and "L1" in d and d["L1"][0] > d["L0"][0] + KAPPA_NOT_WORSE + 2.0 * cond["L1"]:
        v.fail("kappa", f"{cls}/not-converging",
               f"efficiencyFactor({vw:.8g}): disagreement grows when the tolerance is tightened: {d['L0'][0]:.3e} at L0, "
               f"{d['L1'][0]:.3e} at L1", vw=vw)
    return v


def check_case(case) -> Verdict:
    from WallGo import WallGoError

    v = Verdict()
    spec = case["eos"]
    v.label(f"kind:{case['kind']}")
    th, meta = Z.build(spec)
    eos = R.Eos(th, meta["T_valid"][0])
    v.label("alpha>1/3" if meta["alN"] > 1.0 / 3.0 else "alpha<1/3",
            "cs2>cb2" if spec["cs2"] > spec["cb2"] else "cs2<cb2" if spec["cs2"] < spec["cb2"] else "cs2=cb2")
    try:
        pairs = {lev: Pair(th, lev) for lev in LEVELS}
    except WallGoError as exc:
        v.label("outcome:init-WallGoError")
        v.info["init_error"] = str(exc)[:200]
        return v
    except ValueError as exc:
        if abs(meta["alN"] - 1.0 / 3.0) < 1e-3 and "different signs" in str(exc):
            v.label("outcome:init-ValueError-in-margin")
            return v.discarded("margin:alpha=1/3")
        raise
    if case.get("warm"):
        # earlier queries on the same objects (the answers themselves are compared in other cases); whatever they
        # leave behind must not change the compared answers below - the reference has no history
        T0 = pairs["L0"].t
        lo = max(T0.vMin, pairs["L0"].g.vMin)
        for vclass, u in case["warm"]:
            vw0 = Z.velocity(vclass, u, lo, float(T0.cb), T0.vJ)
            if abs(vw0 - float(T0.cb)) < 1e-4 * float(T0.cb):
                continue     # the template solver may not return next to c_b (see Z.velocity)
            for P in pairs.values():
                # (efficiencyFactor is only defined where a matching exists - as in the compared queries below)
                for obj in (P.g, P.t):
                    if call(obj.findMatching, vw0)[0] == "num":
                        try:
                            call(obj.efficiencyFactor, vw0)
                        except TypeError:    # its own internal matching came back as None (same rule as below)
                            v.label("warm:TypeError-none-matching")
        v.label("history:warm-" + "+".join(sorted({w[0] for w in case["warm"]})))
    else:
        v.label("history:fresh")
    if case["kind"] == "landmarks":
        return check_landmarks(case, v, th, meta, eos, pairs)
    return check_matching(case, v, th, meta, eos, pairs)
