"""C01 - the reported wall velocity is a bracketed zero of the total pressure; labelling; window;
attached data belong to the converged solution; runaway; history independence.

A case is a *history* of public calls on one WallGoManager (generated as one value so that it
shrinks and replays as one value).  Sub-oracles (DESIGN 3/C01):
  labelling      success=False <=> ERROR ; RUNAWAY => no velocity ; success+DEFLAGRATION => finite v
  labelling-unconverged
                 a success with finite v is never built on a pressure evaluation that ran out of its iteration
                 budget (observed from outside: the solver's 'has not converged' log record during the LAST
                 wallPressure call of solveWall; configurations with maxIterations 2 and 3 make it reachable)
  bracket        p(v - k errTol) < 0 < p(v + k errTol) re-evaluated through the public EOM
  window         vMin <= v <= min(vJ, fastestDeflag())
  attached       T+/T-/vJ are those of findHydroBoundaries(v); widths/offsets/profiles are those of a
                 re-converged wallPressure(v); end points of the profiles are the phases at T-/T+
  runaway        p(v_max) < 0 at the top of the searched window
  history        every SOLVE equals (==) the result of the same call on a fresh manager in a fresh
                 process, whatever preceded it on this manager
"""
from __future__ import annotations

import math

import numpy as np
from hypothesis import strategies as st

from vlib import e2e
from vlib import zoo_potentials as zp
from vlib.core import Verdict, canonical, load_findings, match_known

PROPERTY_ID = "C01"
ENGINE = "hypothesis @given over generated call histories (model point x config x op sequence)"
RULE = (
    "A case is a history on one WallGoManager: model point (Z2x2 / Cubic1 families), solver "
    "configuration, and 3-7 operations from {SOLVE(settings), LTE, HYDRO_QUERY(vw), RESETUP(other "
    "point), RESETUP(original), CONFIG(other), CONFIG(original), DETON(thorough)}; the history "
    "starts and ends with the same SOLVE. Non-trivial = at least two SOLVEs of the same "
    "(point, config, settings) separated by another operation and the fresh-process reference is a "
    "success with finite velocity or a clean runaway. Distinct by canonical JSON of the history."
)
BUDGET = {
    "quick": {"cases": 48, "shrink": False, "dedupe": True, "time_cap_s": 900, "max_discard": 0.5},
    "thorough": {"cases": 480, "shrink": False, "dedupe": True, "time_cap_s": 6 * 3600,
                 "max_discard": 0.5},
}
K_BRACKET = 2.0
TOLERANCES = {
    "bracket_k": K_BRACKET,
    "bracket_eta_rel": 0.1,
    "hydro_attached_rel": 1e-12,
    "reconverged_width_rel": 0.05,
    "reconverged_offset_abs": 0.05,
    "reconverged_profile_rel": 0.1,
    "T30_rel": 1e-5,
    "note": "reconverged_* are envelopes (x5) of the difference between the reported solution and a "
            "re-converged wallPressure(v) started from the reported wall parameters, measured on the "
            "unchanged tree over seeds 1,2,3,5,8 (max seen: width 1.6e-3, offset 1.3e-3, profile 1.7e-2; the "
            "profiles live on a grid that is re-mapped to the wall shape, hence the looser profile bound). "
            "T30_rel: the reported (fields,T,v) triples satisfy w g^2 v = c1 up to the accuracy of the "
            "finite-difference dV/dT (measured <= 2e-9)",
}
ASSUMPTIONS = [
    "Model families are polynomial (Z2x2, Cubic1); off-equilibrium particles only when synthetic "
    "collision files are available.",
    "The pressure re-evaluations use the public route manager.setupWallSolver(settings).eom."
    "wallPressure with the solver's own initial absolute tolerance 1e-8.",
]

_REF_CACHE: dict = {}
_FINDINGS = load_findings("C01")


# ---------------------------------------------------------------------------
# strategy
# ---------------------------------------------------------------------------
CFGS = [
    {"spatialGridSize": 20, "momentumGridSize": 5, "errTol": 1e-3, "pressRelErrTol": 0.1, "maxIterations": 20},
    {"spatialGridSize": 30, "momentumGridSize": 5, "errTol": 1e-3, "pressRelErrTol": 0.1, "maxIterations": 20},
    {"spatialGridSize": 30, "momentumGridSize": 7, "errTol": 3e-4, "pressRelErrTol": 0.05, "maxIterations": 40},
    {"spatialGridSize": 40, "momentumGridSize": 5, "errTol": 1e-3, "pressRelErrTol": 0.05, "maxIterations": 20},
    {"spatialGridSize": 24, "momentumGridSize": 5, "errTol": 1e-3, "pressRelErrTol": 0.1, "maxIterations": 20,
     "conserveEnergyMomentum": False},
    # user-narrowed bounds on the wall thickness (in units of 1/Tn): solutions that sit on a bound
    # must be labelled as errors, not returned as converged
    {"spatialGridSize": 30, "momentumGridSize": 5, "errTol": 1e-3, "pressRelErrTol": 0.1, "maxIterations": 20,
     "wallThicknessBounds": [0.1, 4.0]},
    {"spatialGridSize": 30, "momentumGridSize": 5, "errTol": 1e-3, "pressRelErrTol": 0.1, "maxIterations": 20,
     "wallThicknessBounds": [4.2, 100.0]},
    # ... and on the wall offsets (two-field models: the second wall sits ~ +0.3..0.9 widths from the first)
    {"spatialGridSize": 30, "momentumGridSize": 5, "errTol": 1e-3, "pressRelErrTol": 0.1, "maxIterations": 20,
     "wallOffsetBounds": [-10.0, 0.4]},
    {"spatialGridSize": 24, "momentumGridSize": 5, "errTol": 1e-3, "pressRelErrTol": 0.1, "maxIterations": 20,
     "wallOffsetBounds": [-0.3, 0.3]},
    # a small budget for the pressure iteration: evaluations that run out of it are flagged by the solver
    # (logged + successWallPressure False) and a result built on such an evaluation must be an ERROR
    {"spatialGridSize": 30, "momentumGridSize": 5, "errTol": 1e-3, "pressRelErrTol": 0.1, "maxIterations": 3},
    {"spatialGridSize": 20, "momentumGridSize": 5, "errTol": 1e-3, "pressRelErrTol": 0.1, "maxIterations": 2},
]
SETTINGS = [
    {"offEq": False, "mfp": 50.0, "thick": 5.0},
    {"offEq": False, "mfp": 100.0, "thick": 3.0},
    {"offEq": False, "mfp": 50.0, "thick": 8.0},
]


@st.composite
def st_point(draw):
    fam = draw(st.sampled_from(["Z2x2", "Z2x2", "Cubic1"]))
    if fam == "Z2x2":
        # delta spread: small delta -> slow deflagrations, large -> runaways
        return draw(zp.st_z2x2(delta_range=(0.03, 0.16)))
    return draw(zp.st_cubic1(delta_range=(0.05, 0.6), min_alpha=1e-3))


@st.composite
def st_history(draw, tier="quick"):
    spec = draw(st_point())
    spec2 = draw(st_point())
    cfg = draw(st.sampled_from(CFGS))
    cfg2 = draw(st.sampled_from([c for c in CFGS if c is not cfg]))
    s0 = draw(st.sampled_from(SETTINGS))
    s1 = draw(st.sampled_from([s for s in SETTINGS if s is not s0]))
    inter = ["lte", "hydro", "resetup_other", "config_other", "solve_other_settings"]
    if tier == "thorough":
        inter.append("deton")
    coll = None
    if draw(st.sampled_from([False, False, True])):
        # out-of-equilibrium particles with a synthetic relaxation-time collision operator
        # (C delta f = Gamma delta f); stored grid size N_s >= N exercises the interpolation path
        parts = [{"name": "top", "y": round(draw(st.floats(0.7, 1.1)), 3), "stat": "Fermion", "dof": 12,
                  "field": 0, "m0sq": 0.0}]
        if draw(st.booleans()):
            parts.append({"name": "W", "y": round(draw(st.floats(0.4, 0.7)), 3), "stat": "Boson", "dof": 9,
                          "field": 0, "m0sq": 0.0})
        spec = dict(spec, particles=parts)
        spec2 = dict(spec2, particles=parts)
        # off-equilibrium solves cost 10-100x more: keep them on the cheap configurations
        cfg = draw(st.sampled_from(CFGS[:2]))
        cfg2 = draw(st.sampled_from([c for c in CFGS[:2] + CFGS[3:4] if c is not cfg]))
        nmax = max(cfg["momentumGridSize"], cfg2["momentumGridSize"])
        coll = {"N_stored": nmax + draw(st.sampled_from([0, 2])),
                "gammas": [round(10 ** draw(st.floats(-0.7, 0.7)), 3) for _ in parts],
                "basis": draw(st.sampled_from(["Chebyshev", "Cardinal"]))}
        s0 = dict(s0, offEq=True)
        s1 = dict(s1, offEq=draw(st.booleans()))
    same_tn = draw(st.sampled_from([False, False, True]))
    if same_tn:
        # the second point is the same model with fewer light degrees of freedom (coefficient of -a T^4): Tc and the
        # nucleation temperature are IDENTICAL, alpha_n / vJ / the wall velocity are not - a parameter updated in place
        # between two analyses at one temperature
        pp = dict(spec["p"])
        pp["a"] = pp["a"] * draw(st.sampled_from([0.7, 0.85]))
        spec2 = dict(spec, p=pp)
    n_mid = draw(st.integers(1, 3))
    ops = [["solve", 0]]
    point, conf = 0, 0
    for _ in range(n_mid):
        kind = draw(st.sampled_from(inter))
        if kind == "lte":
            ops.append(["lte"])
        elif kind == "hydro":
            ops.append(["hydro", round(draw(st.floats(0.05, 0.95)), 3)])
        elif kind == "resetup_other":
            ops.append(["resetup", 1])
            point = 1
            if draw(st.booleans()):
                ops.append(["solve", 0])
        elif kind == "config_other":
            ops.append(["config", 1])
            conf = 1
            if draw(st.booleans()):
                ops.append(["solve", 0])
        elif kind == "solve_other_settings":
            ops.append(["solve", 1])
        elif kind == "deton":
            ops.append(["deton", 0])
    if same_tn and ["resetup", 1] not in ops:
        ops.append(["resetup", 1])
        ops.append(["solve", 0])
        point = 1
    elif same_tn:
        k = ops.index(["resetup", 1])
        if ops[k + 1:k + 2] != [["solve", 0]]:
            ops.insert(k + 1, ["solve", 0])
    if point != 0:
        ops.append(["resetup", 0])
    if conf != 0:
        ops.append(["config", 0])
    ops.append(["solve", 0])
    case = {"kind": "history", "spec": spec, "spec2": spec2, "cfg": cfg, "cfg2": cfg2,
            "settings": [s0, s1], "ops": ops}
    if coll:
        case["coll"] = coll
    return case


def strategy(tier):
    return st_history(tier)


# ---------------------------------------------------------------------------
# oracle pieces
# ---------------------------------------------------------------------------
def _reference(spec, cfg, settings, coll=None, coll_dir=None):
    key = canonical([spec, cfg, settings, coll])
    if key not in _REF_CACHE:
        _REF_CACHE[key] = e2e.fresh_run({"spec": spec, "cfg": cfg, "what": ["solve"],
                                         "settings": settings, "profiles": False,
                                         "coll_dir": coll_dir})
    return _REF_CACHE[key]


def _same(a, b):
    if a is None or b is None:
        return a is None and b is None
    if isinstance(a, list):
        return isinstance(b, list) and len(a) == len(b) and all(_same(x, y) for x, y in zip(a, b))
    return a == b


HISTORY_KEYS = ["success", "solutionType", "wallVelocity", "wallVelocityLTE", "temperaturePlus",
                "temperatureMinus", "velocityJouguet", "wallWidths", "wallOffsets"]


def check_solution(v, manager, cf, rel, r, settings, cls, first_time):
    """Sub-oracles 1-5 on a WallGoResults r obtained from manager.solveWall(settings)."""
    import WallGo
    from WallGo.results import ESolutionType

    hyd = manager.hydrodynamics
    errTol = manager.config.configEOM.errTol
    # 1. labelling
    v.checked("labelling")
    if (not r.success) != (r.solutionType == ESolutionType.ERROR):
        v.fail("labelling", cls, f"success={r.success} but solutionType={r.solutionType.name}")
    if r.solutionType == ESolutionType.RUNAWAY and r.wallVelocity is not None:
        v.fail("labelling", cls, f"RUNAWAY returned with wallVelocity={r.wallVelocity}")
    if r.success and r.solutionType in (ESolutionType.DEFLAGRATION, ESolutionType.DETONATION):
        if r.wallVelocity is None or not math.isfinite(r.wallVelocity):
            v.fail("labelling", cls, f"{r.solutionType.name} success without a finite velocity")
    if not r.success:
        v.label("outcome:error")
        return
    # a successful result never sits on a configured bound of the wall parameters (the solver documents
    # that as "saturates the given bounds ... probably inaccurate" => ERROR)
    if r.solutionType in (ESolutionType.DEFLAGRATION, ESolutionType.DETONATION) and hasattr(r, "wallWidths"):
        v.checked("bounds-saturation")
        tb = np.array(manager.config.configEOM.wallThicknessBounds, dtype=float) / hyd.Tnucl
        ob = np.array(manager.config.configEOM.wallOffsetBounds, dtype=float)
        w_ = np.asarray(r.wallWidths, dtype=float)
        o_ = np.asarray(r.wallOffsets, dtype=float)
        on_w = [b for b in tb if np.any(np.abs(w_ - b) <= 1e-7 * b)]
        on_o = [b for b in ob if np.any(np.abs(o_[1:] - b) <= 1e-7 * abs(b))]
        if on_w or on_o:
            side = "upper" if (on_w and on_w[0] == tb[1]) or (on_o and on_o[0] == ob[1]) else "lower"
            v.fail("bounds-saturation", f"{side} bound",
                   f"success=True although a wall parameter sits on a configured bound: widths*Tn={w_ * hyd.Tnucl}, "
                   f"offsets={o_}, thickness bounds={tb * hyd.Tnucl}, offset bounds={ob}")
    if not first_time:
        return
    vmin = hyd.vMin
    vmax = min(hyd.vJ, hyd.fastestDeflag())
    eom = manager.setupWallSolver(e2e.settings_obj(settings)).eom
    Tn = hyd.Tnucl
    eom.pressAbsErrTol = 1e-8 * Tn ** 4  # as EOM.solveWall does
    if r.solutionType == ESolutionType.RUNAWAY:
        v.label("outcome:runaway")
        v.checked("runaway")
        guess = WallGo.WallParams(
            widths=(settings["thick"] / Tn) * np.ones(cf.nf), offsets=np.zeros(cf.nf))
        p = eom.wallPressure(vmax, guess)[0]
        v.info["p_at_vmax"] = float(p)
        if not p < 0:
            v.fail("runaway", cls, f"runaway reported but p(vmax={vmax:.4f}) = {p:.4e} >= 0")
        return
    if r.solutionType != ESolutionType.DEFLAGRATION:
        return
    vw = float(r.wallVelocity)
    v.label("outcome:deflagration" if vw < math.sqrt(float(manager.thermodynamics.csqLowT(r.temperatureMinus)))
            else "outcome:hybrid")
    # 3. window
    v.checked("window")
    if not (vmin - 1e-12 <= vw <= vmax + 1e-12):
        v.fail("window", cls, f"v={vw} outside [{vmin}, {vmax}]")
        return
    # 4a. hydrodynamic data attached
    v.checked("attached-hydro")
    c1, c2, Tp, Tm, vmid = hyd.findHydroBoundaries(vw)
    tol = TOLERANCES["hydro_attached_rel"]
    if abs(r.temperaturePlus - Tp) > tol * Tp or abs(r.temperatureMinus - Tm) > tol * Tm:
        v.fail("attached-hydro", cls,
               f"T+/T- reported ({r.temperaturePlus}, {r.temperatureMinus}) differ from "
               f"findHydroBoundaries(v) ({Tp}, {Tm})")
    if r.velocityJouguet != hyd.vJ:
        v.fail("attached-hydro", cls, f"velocityJouguet {r.velocityJouguet} != hydrodynamics.vJ {hyd.vJ}")
    # 4b. profile end points are the phases at T-/T+ (closed form)
    v.checked("attached-endpoints")
    fp = np.asarray(r.fieldProfiles, dtype=float)
    tp = np.asarray(r.temperatureProfile, dtype=float)
    if tp[0] != r.temperatureMinus or tp[-1] != r.temperaturePlus:
        v.fail("attached-endpoints", cls, "temperature profile end points are not (T-, T+)")
    lo_exact = rel.to_user(cf.phase("low", float(r.temperatureMinus)))
    hi_exact = rel.to_user(cf.phase("high", float(r.temperaturePlus)))
    scale = max(float(np.max(np.abs(lo_exact))), float(np.max(np.abs(hi_exact))), Tn)
    if np.all(np.isfinite(lo_exact)) and np.all(np.isfinite(hi_exact)):
        d = max(float(np.max(np.abs(fp[0] - lo_exact))), float(np.max(np.abs(fp[-1] - hi_exact))))
        v.info["endpoint_err_rel"] = d / scale
        if d > 1e-3 * scale:
            v.fail("attached-endpoints", cls,
                   f"field profile end points differ from the phases at T-/T+ by {d / scale:.2e} (relative)")
    # 4b''. the reported plasma velocity is in the wall frame: far behind / in front of the wall (where the deviations
    #      from equilibrium vanish identically) it is -v- / -v+ of the matching at the reported velocity; asserted for
    #      LTE and off-equilibrium solves alike (2 % relative: a profile left in another frame is off by O(1))
    vpr = np.asarray(r.velocityProfile, dtype=float)
    try:
        mvp, mvm = (float(x) for x in hyd.findMatching(vw)[:2])
    except (TypeError, ValueError):
        mvp = mvm = float("nan")
    if vpr.shape == tp.shape and math.isfinite(mvp) and math.isfinite(mvm):
        v.checked("attached-frame")
        v.info["frame_end_err"] = max(abs(vpr[0] + mvm) / mvm, abs(vpr[-1] + mvp) / mvp)
        if abs(vpr[0] + mvm) > 0.02 * mvm + 1e-9 or abs(vpr[-1] + mvp) > 0.02 * mvp + 1e-9:
            v.fail("attached-frame", cls + (" offEq" if settings.get("offEq") and len(model_particles(manager)) else " LTE"),
                   f"reported velocityProfile ends at ({vpr[0]!r}, {vpr[-1]!r}); wall-frame velocities of the matching at the "
                   f"reported wall velocity are (-v-, -v+) = ({-mvm!r}, {-mvp!r})")
    if settings.get("offEq") and len(model_particles(manager)):
        # With out-of-equilibrium particles (synthetic collision kernels, coarse momentum grids) the
        # pressure is not a smooth function of v at the scale of errTol: the solver's own evaluation
        # sequence shows jumps of +-5e3 within dv = 3e-4 (the wall width hops between 15 and 20 /Tn),
        # so "negative at v - k errTol, positive at v + k errTol" is not implied by a sign change
        # inside the root finder's final bracket. The bracket / re-convergence oracles are therefore
        # asserted for LTE solves only; labelling, window, attached-hydro, end points and the
        # bit-identical history oracle still apply to off-equilibrium solves.
        v.label("bracket_skipped:off_equilibrium")
        return
    if manager.config.configEOM.maxIterations < 10:
        # With a tiny iteration budget the oracle's own pressure evaluations at v +- k errTol may run out of it
        # (the returned number is then a mean of unconverged iterates, not the pressure): bracket / re-convergence
        # oracles are asserted for the configurations with a realistic budget only.
        v.label("bracket_skipped:low_iteration_cap")
        return
    if not manager.config.configEOM.conserveEnergyMomentum:
        # With conserveEnergyMomentum=False the temperature/velocity profiles are frozen at the ones
        # computed from the *starting* wall shape, so the pressure at a given v depends on the
        # solver's internal sequence of guesses and is not a function of v that can be re-evaluated
        # from outside: the bracket / re-convergence oracles are not defined in this documented
        # approximate mode (all other sub-oracles still run).
        v.label("bracket_skipped:nonconserving_mode")
        return
    # 4b'. reported (fields, T, v) triples carry the energy flux c1 of the matching at the reported v
    if not (settings.get("offEq") and len(model_particles(manager))):
        v.checked("attached-T30")
        xb = rel.to_base(fp[1:-1])
        Tb = tp[1:-1]
        vb = np.asarray(r.velocityProfile, dtype=float)[1:-1]
        w = -Tb * cf.dVdT(xb, Tb)
        res = w * vb / (1 - vb * vb) - c1
        t30 = float(np.max(np.abs(res)) / abs(c1))
        v.info["T30_rel_residual_reported"] = t30
        if manager.config.configEOM.conserveEnergyMomentum and t30 > TOLERANCES["T30_rel"]:
            v.fail("attached-T30", cls,
                   f"reported profiles do not carry the energy flux of the matching at v: max |w g^2 v - c1|/|c1| = {t30:.3e}")
    # 2. bracket, evaluated exactly as the solver's root finder evaluates the pressure: starting
    #    wall parameters interpolated between the solutions at the two ends of the window
    #    (EOM.solveWall / pressureWrapper), same absolute pressure tolerance.
    import copy

    v.checked("bracket")
    guess0 = WallGo.WallParams(widths=(settings["thick"] / Tn) * np.ones(cf.nf), offsets=np.zeros(cf.nf))
    eom.pressAbsErrTol = 1e-8 * Tn ** 4  # as EOM.solveWall does
    resMax = eom.wallPressure(vmax, copy.deepcopy(guess0))
    vmin_eff = vmin
    resMin = eom.wallPressure(vmin_eff, copy.deepcopy(guess0))
    while resMin[0] > 0 and vmin_eff * 2 < vmax:
        vmin_eff *= 2
        resMin = eom.wallPressure(vmin_eff, copy.deepcopy(guess0))
    pMin, wpMin, brMin = resMin[0], resMin[1], resMin[2]
    pMax, wpMax, brMax = resMax[0], resMax[1], resMax[2]
    eom.pressAbsErrTol = (0.01 * eom.errTol * (1 - eom.pressRelErrTol)
                          * np.minimum(np.abs(pMin), np.abs(pMax)) / 4)

    def solver_pressure(x):
        if abs(x - vmin_eff) < 1e-10 or x < vmin_eff:
            return float(pMin), wpMin
        if abs(x - vmax) < 1e-10 or x > vmax:
            return float(pMax), wpMax
        frac = (x - vmin_eff) / (vmax - vmin_eff)
        g = wpMin + (wpMax - wpMin) * frac
        gb = brMin + (brMax - brMin) * frac
        gin = copy.deepcopy(g)
        out = eom.wallPressure(x, g, boltzmannResultsInput=gb)
        return float(out[0]), gin

    wp = WallGo.WallParams(widths=np.array(r.wallWidths, dtype=float), offsets=np.array(r.wallOffsets, dtype=float))
    vlo = max(vw - K_BRACKET * errTol, vmin_eff)
    vhi = min(vw + K_BRACKET * errTol, vmax)
    plo, _ = solver_pressure(vlo)
    phi, gin = solver_pressure(vhi)
    v.info.update(p_lo=plo, p_hi=phi, v=vw, vlo=vlo, vhi=vhi)
    big = max(abs(plo), abs(phi))
    dV = abs(float(cf.Vphase("high", Tn) - cf.Vphase("low", Tn)))  # driving force as pressure scale
    if big < 1e-6 * dV:
        v.discarded("flat pressure around the root")
        return
    eta = TOLERANCES["bracket_eta_rel"] * big
    if plo > eta:
        v.fail("bracket", cls, f"p(v - {K_BRACKET} errTol) = {plo:.4e} > 0 (p(v + ..) = {phi:.4e}); v={vw}")
    if phi < -eta:
        v.fail("bracket", cls, f"p(v + {K_BRACKET} errTol) = {phi:.4e} < 0 (p(v - ..) = {plo:.4e}); v={vw}")
    if v.violations:
        return
    # 2'/4c. the same with the position grid adapted to the reported (converged) wall instead of
    #    the solver's interpolated guess: the reported state must be a fixed point of the pressure
    #    iteration and the zero of that pressure must be within the tolerance too.
    v.checked("bracket-adapted")
    eom.pressAbsErrTol = 1e-8 * Tn ** 4  # as EOM.solveWall does
    ratio = float(np.max(np.maximum(gin.widths / wp.widths, wp.widths / gin.widths)))
    M = manager.config.configGrid.spatialGridSize
    v.info["guess_over_converged_width"] = ratio
    cls_a = cls
    if ratio > 2.0 and M <= 30:
        cls_a = f"guess-grid-mismatch M={M}"
        v.label("class:guess-grid-mismatch")
    alo = float(eom.wallPressure(vlo, copy.deepcopy(wp))[0])
    ahi = float(eom.wallPressure(vhi, copy.deepcopy(wp))[0])
    p0, wp2, _, bg2, hr2 = eom.wallPressure(vw, copy.deepcopy(wp))
    v.info.update(pa_lo=alo, pa_hi=ahi, p_at_v=float(p0))
    etaa = TOLERANCES["bracket_eta_rel"] * max(abs(alo), abs(ahi))
    slope = (ahi - alo) / max(vhi - vlo, 1e-300)
    if slope > 0:
        v.info["adapted_root_offset_in_errTol"] = float(-p0 / slope / errTol)
    if alo > etaa or ahi < -etaa:
        v.fail("bracket-adapted", cls_a,
               f"with the grid adapted to the reported wall the pressure does not change sign within "
               f"+-{K_BRACKET} errTol of v={vw:.5f}: p(-)={alo:.4e} p(v)={p0:.4e} p(+)={ahi:.4e}")
    v.checked("attached-reconverged")
    wr = float(np.max(np.abs(wp2.widths - wp.widths) / np.abs(wp.widths)))
    orr = float(np.max(np.abs(wp2.offsets - wp.offsets)))
    v.info.update(reconv_width_rel=wr, reconv_offset_abs=orr)
    if wr > TOLERANCES["reconverged_width_rel"] or orr > TOLERANCES["reconverged_offset_abs"]:
        v.fail("attached-reconverged", cls_a,
               f"reported widths/offsets are not a fixed point of the pressure iteration at v: "
               f"re-converged width differs by {wr:.3e} (relative), offset by {orr:.3e}")
    t2 = np.asarray(bg2.temperatureProfile, dtype=float)
    v2 = np.asarray(bg2.velocityProfile, dtype=float)
    if t2.shape == tp.shape and not v.violations:
        dT = float(np.max(np.abs(t2 - tp)) / Tn)
        dv = float(np.max(np.abs(v2 - np.asarray(r.velocityProfile, dtype=float))))
        v.info.update(reconv_T_rel=dT, reconv_v_abs=dv)
        if dT > TOLERANCES["reconverged_profile_rel"] or dv > TOLERANCES["reconverged_profile_rel"]:
            v.fail("attached-reconverged", cls_a,
                   f"reported T/v profiles differ from the re-converged ones: dT/Tn={dT:.3e} dv={dv:.3e}")


class _CapObserver:
    """Observes, from outside, which EOM.wallPressure calls ran out of their iteration budget: the solver logs
    'Pressure for a wall velocity has not converged ...' at that point (equationOfMotion.py, wallPressure).
    `calls` gets one bool per wallPressure call made while the observer is active."""

    def __init__(self):
        self.calls = []
        self._hit = False

    def __enter__(self):
        import logging

        from WallGo.equationOfMotion import EOM

        obs = self

        class H(logging.Handler):
            def emit(self, record):
                try:
                    if "has not converged to" in record.getMessage():
                        obs._hit = True
                except Exception:  # noqa: BLE001
                    pass

        self._handler = H(level=logging.WARNING)
        root = logging.getLogger()
        self._state = (root.manager.disable, root.level)
        logging.disable(logging.NOTSET)
        if root.level > logging.WARNING or root.level == logging.NOTSET:
            root.setLevel(logging.WARNING)
        # WallGoManager.setVerbosity installs a StreamHandler on the root logger (basicConfig(force=True)):
        # park the other handlers so that nothing is printed while records are observed
        self._parked = list(root.handlers)
        for h in self._parked:
            root.removeHandler(h)
        root.addHandler(self._handler)
        self._orig = EOM.wallPressure
        orig = self._orig

        def wrapped(eom, *a, **k):
            obs._hit = False
            out = orig(eom, *a, **k)
            obs.calls.append(bool(obs._hit))
            return out

        EOM.wallPressure = wrapped
        self._EOM = EOM
        return self

    def __exit__(self, *exc):
        import logging

        self._EOM.wallPressure = self._orig
        root = logging.getLogger()
        root.removeHandler(self._handler)
        if not root.handlers:   # (a manager created inside the observed call would have installed a new one)
            for h in self._parked:
                root.addHandler(h)
        root.setLevel(self._state[1])
        logging.disable(self._state[0])
        return False


def model_particles(manager):
    return getattr(manager.model, "outOfEquilibriumParticles", [])


def run_history(case, v: Verdict):
    import shutil
    import tempfile

    coll = case.get("coll")
    coll_dir = None
    try:
        if coll:
            from vlib import collfiles

            coll_dir = tempfile.mkdtemp(prefix="verif_c01_coll_")
            names = [pt["name"] for pt in case["spec"]["particles"]]
            collfiles.write_relaxation_directory(coll_dir, names, int(coll["N_stored"]),
                                                 [float(g) for g in coll["gammas"]], basis=coll["basis"])
            v.label("offEq", f"particles:{len(names)}",
                    "interp" if coll["N_stored"] > case["cfg"]["momentumGridSize"] else "same_size")
        _run_history(case, v, coll, coll_dir)
    finally:
        if coll_dir:
            shutil.rmtree(coll_dir, ignore_errors=True)


def _run_history(case, v: Verdict, coll, coll_dir):
    import pathlib

    import WallGo

    spec_of = [case["spec"], case["spec2"]]
    cfg_of = [case["cfg"], case["cfg2"]]
    point, conf = 0, 0
    try:
        manager, model, cf, rel = zp.setup_manager(spec_of[0], cfg_of[0])
    except (WallGo.WallGoError, AssertionError, RuntimeError) as exc:
        v.discarded(f"setup failed: {type(exc).__name__}")
        v.label("setup_failed")
        return
    if coll_dir:
        manager.setPathToCollisionData(pathlib.Path(coll_dir))
    seen = {}
    solves_main = 0
    separated = False
    ref_ok = False
    fam = spec_of[0]["family"]
    v.label(f"family:{fam}", f"M{cfg_of[0]['spatialGridSize']}", f"nops:{len(case['ops'])}")
    broken = False  # a failed set-up leaves the manager undefined until the next successful one
    for i, op in enumerate(case["ops"]):
        kind = op[0]
        if broken and kind not in ("resetup", "config"):
            v.label("op_skipped_after_failed_setup")
            continue
        v.label(f"op:{kind}")
        if kind == "lte":
            try:
                manager.wallSpeedLTE()
            except WallGo.WallGoError:
                v.label("lte_error")
        elif kind == "hydro":
            try:
                manager.hydrodynamics.findMatching(float(op[1]))
                manager.hydrodynamics.findHydroBoundaries(float(op[1]))
            except (WallGo.WallGoError, ValueError, AssertionError):
                v.label("hydro_query_error")
        elif kind == "resetup":
            point = int(op[1])
            try:
                manager, model, cf, rel = zp.setup_manager(spec_of[point], cfg_of[conf], manager=manager)
                broken = False
            except (WallGo.WallGoError, AssertionError, RuntimeError) as exc:
                v.label("resetup_failed")
                broken = True
                if point == 0:
                    v.fail("history", f"{fam} resetup", f"re-setup of the original point failed after a history: {exc}")
                    return
        elif kind == "config":
            conf = int(op[1])
            zp.apply_config(manager, cfg_of[conf])
        elif kind == "deton":
            try:
                dres = manager.solveWallDetonation(e2e.settings_obj(case["settings"][int(op[1])]))
            except (WallGo.WallGoError, AssertionError):
                v.label("deton_error")
                dres = []
            from WallGo.results import ESolutionType as _EST

            hyd_ = manager.hydrodynamics
            for rd in dres:
                v.checked("labelling")
                dcls = f"{spec_of[point]['family']} detonation-search"
                v.label(f"deton_outcome:{rd.solutionType.name}")
                if (not rd.success) != (rd.solutionType == _EST.ERROR):
                    v.fail("labelling", dcls, f"success={rd.success} but solutionType={rd.solutionType.name}")
                if rd.solutionType in (_EST.RUNAWAY, _EST.DEFLAGRATION, _EST.DEFLAGRATION_OR_RUNAWAY) \
                        and rd.wallVelocity is not None:
                    v.fail("labelling", dcls, f"{rd.solutionType.name} from the detonation search carries wallVelocity={rd.wallVelocity}")
                if rd.success and rd.solutionType == _EST.DETONATION:
                    v.checked("window")
                    vd = rd.wallVelocity
                    if vd is None or not math.isfinite(vd):
                        v.fail("labelling", dcls, "DETONATION success without a finite velocity")
                    elif not (hyd_.vJ < vd <= manager.config.configEOM.vwMaxDeton + 1e-12):
                        v.fail("window", dcls, f"detonation velocity {vd} outside (vJ={hyd_.vJ}, {manager.config.configEOM.vwMaxDeton}]")
                    else:
                        v.checked("attached-hydro")
                        if abs(rd.temperaturePlus - hyd_.Tnucl) > 1e-12 * hyd_.Tnucl:
                            v.fail("attached-hydro", dcls, f"detonation with T+={rd.temperaturePlus} != Tn={hyd_.Tnucl}")
                        _, _, Tp_, Tm_, _ = hyd_.findHydroBoundaries(vd)
                        if abs(rd.temperatureMinus - Tm_) > 1e-12 * Tm_:
                            v.fail("attached-hydro", dcls, f"T- reported {rd.temperatureMinus} differs from findHydroBoundaries(v) {Tm_}")
        elif kind == "solve":
            sidx = int(op[1])
            settings = case["settings"][sidx]
            key = (point, conf, sidx)
            cls = f"{spec_of[point]['family']} M={cfg_of[conf]['spatialGridSize']} cons={cfg_of[conf].get('conserveEnergyMomentum', True)}"
            obs = _CapObserver()
            try:
                with obs:
                    r = manager.solveWall(e2e.settings_obj(settings))
            except (WallGo.WallGoError, WallGo.CollisionLoadError) as exc:
                v.label("solve_wallgoerror")
                summ = {"error": str(exc)[:200]}
                r = None
            if r is not None:
                # 1'. an unsuccessful run is always labelled as an error: all reported data come from the LAST
                #     pressure evaluation of solveWall (the one at the root); if that evaluation ran out of its
                #     iteration budget the result is not converged and must not be a success
                v.checked("labelling-unconverged")
                v.label(f"cap_hit_in_solve:{'last' if obs.calls and obs.calls[-1] else ('some' if any(obs.calls) else 'none')}")
                if (r.success and r.wallVelocity is not None and math.isfinite(r.wallVelocity)
                        and obs.calls and obs.calls[-1]):
                    v.fail("labelling-unconverged", cls,
                           f"success=True ({r.solutionType.name}, v={r.wallVelocity}) although the pressure evaluation at the "
                           f"reported velocity ran out of its iteration budget maxIterations="
                           f"{manager.config.configEOM.maxIterations} (solver logged 'has not converged'); "
                           f"{sum(obs.calls)} of {len(obs.calls)} pressure evaluations hit the cap")
                first = key not in seen
                check_solution(v, manager, cf, rel, r, settings, cls, first_time=first)
                summ = e2e.results_summary(r, profiles=False)
            # 6. history independence
            v.checked("history")
            ref = _reference(spec_of[point], cfg_of[conf], settings, coll, coll_dir)
            if ref.get("timeout"):
                v.label("reference_timeout")
            elif "setup_error" in ref:
                v.label("reference_setup_error")
            elif "solve_error" in ref:
                if r is not None:
                    v.fail("history", cls, f"fresh run raised ({ref['solve_error'][:100]}) but this history returned a result")
            elif r is None:
                v.fail("history", cls, f"this history raised ({summ['error']}) but the fresh run returned a result")
            else:
                rs = ref["solve"]
                diffs = [k for k in HISTORY_KEYS if not _same(rs.get(k), summ.get(k))]
                if diffs:
                    k0 = diffs[0]
                    v.fail("history", cls,
                           f"result differs from a fresh manager after ops {case['ops'][:i]}: "
                           f"{k0}: fresh={rs.get(k0)} here={summ.get(k0)} (all differing: {diffs})",
                           fresh=rs, here=summ)
                if key == (0, 0, 0):
                    ref_ok = rs["success"] and (rs["wallVelocity"] is not None or rs["solutionType"] == "RUNAWAY")
            if key == (0, 0, 0):
                solves_main += 1
                if solves_main >= 2 and i > 1:
                    separated = True
            seen[key] = True
        if any(match_known(x, _FINDINGS) is None for x in v.violations):
            break  # stop a history at its first *unlisted* violation; search continues behind known ones
    v.nontrivial = bool(separated and ref_ok and not v.discard)


def check_case(case) -> Verdict:
    v = Verdict()
    run_history(case, v)
    return v
