"""C04 - plasma profile inside the wall conserves energy-momentum pointwise.

Observed call: EOM.findPlasmaProfile(c1, c2, velocityMid, fields, dPhidz, Deltas, Tplus, Tminus) with
(c1, c2, Tplus, Tminus, velocityMid) from Hydrodynamics.findHydroBoundaries(v_w), tanh shapes from
EOM.wallProfile on the grid re-mapped with EOM._updateGrid, Delta-moments zero (as wallPressure builds
them) or small smooth polynomials.

Oracle: own residual with the ANALYTIC enthalpy w = -T dV/dT of the zoo potential and an independently
derived out-of-equilibrium stress (T^{mu nu}_out = sum dof [D20 u u + D02 ubar ubar + D11 (u ubar + ubar u)]
+ transverse part, which does not contribute to the 30 and 33 components):
    R_i(T) = 1/2 phi'^2 - V(phi_i, T) - w/2 + 1/2 sqrt(4 s1^2 + w^2) - s2 ,   s1 = c1 - T30_out, s2 = c2 - T33_out
    v(T)   = 2 s1 / (w + sqrt(w^2 + 4 s1^2))                                   (T30 conservation, |v| < 1)

Sub-oracles (all only where EOM.successTemperatureProfile is True)
  t30                  returned v_i equals v(T_i) (relative 1e-6) and |v_i| < 1
  t33-conservation     a root of R_i exists but the returned T_i is neither within the backward-error window
                       K (1e-10 + errTol/10 T) of a root nor has a residual below the forward image of that window
  t33-noroot-success   R_i > 0 for every T (no root): the minimum's position was returned and counted as success
                       with a T33 deficit above the forward image of the window and above the accuracy of the
                       supplied boundary constants (10 hydroRelTol w; in the tails also 10x their measured
                       inconsistency)
  t33-noroot-minimum   at such a point the returned T_i is the minimiser of R_i, as findPlasmaProfilePoint documents
                       ("If no solution, the minimum of LHS"): R_i(T_i) - min R_i below the forward image of the
                       bounded Brent search's tolerance window (the known class above does not hide a wrong T there)
  asym-t33 / asym-t30 / asym-branch
                       first/last grid point versus the matching values (T-, -v-), (T+, -v+)
  vmid-convention      velocityMid of findHydroBoundaries is the wall-frame mid-point -(v+ + v-)/2
  gradient-consistency the gradient EOM.wallProfile hands over is the z-derivative of the field profile it returns
                       (central difference of the same routine; relative 1e-6 of the peak gradient)
"""
from __future__ import annotations

import math

import numpy as np
from hypothesis import strategies as st

from vlib import zoo_potentials as zp
from vlib.core import Verdict

PROPERTY_ID = "C04"
ENGINE = "hypothesis @given (one manager set-up amortised over 3 wall velocities x 3 shapes per case)"
RULE = (
    "Potential from Z2x2 / Cubic1 / Cubic1T (T-dependent cubic and quartic couplings), 0-2 out-of-equilibrium "
    "particles; v_w one per branch (deflagration, hybrid, detonation v_w > vJ) realised from the manager's "
    "c_s and vJ; per velocity 3 tanh shapes (widths [1,10]/Tn, ratio <= 3, |offset| <= 2), Delta-moments "
    "none or small smooth polynomials (|D00| <= 1e-3 T^2, others <= 1e-3 T^4); M in {20,30,40}; errTol in "
    "{1e-3,1e-5,1e-8}.  Non-trivial = success flag true, |T+ - T-|/Tn > 1e-4, at least M/4 points with "
    "|z| < L.  Distinct by canonical JSON of the case."
)
BUDGET = {
    "quick": {"cases": 320, "shrink": False, "time_cap_s": 600},
    "thorough": {"cases": 3000, "shrink": False, "time_cap_s": 3000},
}
K_WINDOW = 10.0
K_ETA = 10.0
ETA_CAP = 1e-3
T30_RTOL = 1e-6
ASYM_TOL = 5e-4
EPS = 2.0 ** -52
TOLERANCES = {
    "t33_backward_window": "K (1e-10 + errTol/10 * T), K = 10  (root_scalar xtol=1e-10, rtol=errTol/10)",
    "t33_forward_image": "max |R(T +- window) - R(T)|  (residual indistinguishable at the solver's resolution; "
                         "quadratic at a double root)",
    "t33_boundary_constant_accuracy": "no-root points: deficit <= 10 * hydroRelTol * w (c1, c2 are only accurate to "
                                      "the hydrodynamics tolerance; two-level forward bound, sensitivity dc2/dT+ ~ w/T); "
                                      "tail points (|z/width_i + offset_i| >= 3) additionally <= 10 * eta_abs, the "
                                      "measured inconsistency of (c1, c2) with (T+-, v+-) in the exact equation of state",
    "hydro_inconsistency_cap": "walls whose matching values (v+-, T+-) of findMatching miss T30 by > 1e-3 (relative) "
                               "or T33 by > 1e-3 w across the wall in the exact equation of state are skipped and "
                               "labelled (C02's domain); asymptotics asserted only below 1e-4",
    "t30_rel": T30_RTOL,
    "asymptotic_rel_to_w": f"{ASYM_TOL}  (measured envelope of the hydrodynamic constants' own inconsistency "
                           "max 9e-5 on detonations near vJ, x5; a wrong branch or sign is O(1e-1..1))",
    "rounding_floor": "64 eps (|V| + w + |c2|)",
}
ASSUMPTIONS = [
    "Conservation is demanded by backward error in T (DESIGN 2.4.1); at a double root of the residual "
    "(hybrids: v- = c_s) the forward image of the window replaces the sign change.",
    "Where the T33 equation has no root, a deficit up to 10 x hydroRelTol x w (accuracy of the supplied "
    "boundary constants) is accepted everywhere, and up to 10x their measured inconsistency with the exact "
    "equation of state in the tails (no T can do better).",
    "Walls for which Hydrodynamics raises, returns no solution, lands on a temperature where a closed-form "
    "phase does not exist, or returns constants inconsistent beyond 1e-3 are labelled and skipped.",
    "Asymptotics are asserted through the oracle's own residual at the end-point fields (so any tail "
    "length is sound) and only for shapes without Delta-moments.",
    "Delta-moments are small smooth polynomials vanishing at infinity, not self-consistent Boltzmann solutions.",
]
EXHAUSTIVE_SUBDOMAINS = []

SETTINGS_KW = dict(bIncludeOffEquilibrium=False, meanFreePathScale=50.0, wallThicknessGuess=5.0)


# ---------------------------------------------------------------------------
# strategies
# ---------------------------------------------------------------------------
@st.composite
def st_shape(draw, nf, has_particles):
    cls = draw(st.sampled_from(["thin", "mid", "mid", "thick"]))
    lo, hi = {"thin": (1.0, 2.0), "mid": (2.0, 6.0), "thick": (6.0, 10.0)}[cls]
    w0 = draw(st.floats(lo, hi))
    if nf == 1:
        widths, offs = [round(w0, 3)], [0.0]
    else:
        ratio = 3.0 ** draw(st.floats(-1.0, 1.0))
        w1 = min(max(w0 * ratio, 1.0), 10.0)
        widths = [round(w0, 3), round(w1, 3)]
        offs = [0.0, round(draw(st.floats(-2.0, 2.0)), 3)]
    deltas = None
    if has_particles and draw(st.sampled_from([True, False, True])):
        deltas = {}
        for key in ("D00", "D02", "D20", "D11"):
            deltas[key] = [[round(draw(st.floats(-1.0, 1.0)), 3) for _ in range(3)] for _ in range(has_particles)]
    return {"w": widths, "off": offs, "deltas": deltas}


@st.composite
def st_particles(draw, nf):
    n = draw(st.sampled_from([1, 0, 2, 1, 0, 2]))
    out = []
    for k in range(n):
        out.append({"name": f"p{k}", "y": round(draw(st.floats(0.3, 1.0)), 3),
                    "stat": draw(st.sampled_from(["Fermion", "Boson"])),
                    "dof": draw(st.sampled_from([1, 6, 12])), "field": draw(st.integers(0, nf - 1)),
                    "m0sq": 0.0})
    return out


@st.composite
def st_case(draw):
    fam = draw(st.sampled_from(["Z2x2", "Z2x2", "Cubic1", "Cubic1T"]))
    if fam == "Z2x2":
        spec = draw(zp.st_z2x2())
        nf = 2
    elif fam == "Cubic1":
        spec = draw(zp.st_cubic1(delta_range=(0.1, 0.9)))
        nf = 1
    else:
        spec = draw(zp.st_cubic1t(delta_range=(0.1, 0.9)))
        nf = 1
    spec = dict(spec)
    if draw(st.integers(0, 3)) == 0:
        # the user types the nucleation temperature as an integer (PhaseInfo(temperature=100)); detonations hand it on
        # unchanged as T+ (round-4 seed: profile array allocated with the dtype of T+)
        spec["Tn_int"] = True
    spec["particles"] = draw(st_particles(nf))
    npart = len(spec["particles"])
    walls = []
    for branch in ("deflag", "hybrid", "deton"):
        walls.append({"branch": branch, "u": round(draw(st.floats(0.02, 0.98)), 4),
                      "shapes": [draw(st_shape(nf, npart)) for _ in range(3)]})
    cfg = {"spatialGridSize": draw(st.sampled_from([20, 30, 40])),
           "errTol": draw(st.sampled_from([1e-3, 1e-5, 1e-8]))}
    return {"spec": spec, "cfg": cfg, "walls": walls}


def strategy(tier):
    return st_case()


# ---------------------------------------------------------------------------
# oracle pieces
# ---------------------------------------------------------------------------
def out_of_eq_stress(deltas_at, dofs, vmid):
    """T30_out, T33_out at every grid point.  deltas_at: dict D00,D02,D20,D11 -> (npart, n) values.
    u = gamma (1, 0, 0, vmid), ubar = gamma (vmid, 0, 0, 1); the part of T_out transverse to (u, ubar)
    has no 30 or 33 component, so only D20, D02, D11 enter."""
    n = deltas_at["D20"].shape[1] if deltas_at["D20"].size else 0
    g = 1.0 / math.sqrt(1.0 - vmid * vmid)
    u0, u3 = g, g * vmid
    b0, b3 = u3, u0
    dof = np.asarray(dofs, dtype=float)[:, None]
    d20, d02, d11 = deltas_at["D20"], deltas_at["D02"], deltas_at["D11"]
    t33 = np.sum(dof * (d20 * u3 * u3 + d02 * b3 * b3 + 2 * d11 * u3 * b3), axis=0)
    t30 = np.sum(dof * (d20 * u3 * u0 + d02 * b3 * b0 + d11 * (u3 * b0 + b3 * u0)), axis=0)
    return t30, t33


class Residual:
    """R_i(T) and v_i(T) for all grid points at once (closed-form V and dV/dT)."""

    def __init__(self, cf, phi, dphi, s1, s2):
        self.cf, self.phi = cf, phi
        self.kin = 0.5 * np.sum(dphi ** 2, axis=1)
        self.s1, self.s2 = s1, s2

    def w(self, T, idx=slice(None)):
        return -T * self.cf.dVdT(self.phi[idx], T)

    def R(self, T, idx=slice(None)):
        w = self.w(T, idx)
        s1 = self.s1[idx]
        return self.kin[idx] - self.cf.V(self.phi[idx], T) - 0.5 * w + 0.5 * np.sqrt(4 * s1 * s1 + w * w) - self.s2[idx]

    def v(self, T, idx=slice(None)):
        w = self.w(T, idx)
        s1 = self.s1[idx]
        return 2 * s1 / (w + np.sqrt(w * w + 4 * s1 * s1))

    def scale(self, T, idx=slice(None)):
        return np.abs(self.cf.V(self.phi[idx], T)) + np.abs(self.w(T, idx)) + np.abs(self.s2[idx])

    def minimum(self, i, Tlo, Thi):
        """Global minimum of R_i on [Tlo, Thi]: coarse scan + bounded refinement (own code path)."""
        from scipy.optimize import minimize_scalar

        ts = np.linspace(Tlo, Thi, 241)
        sl = slice(i, i + 1)
        rs = np.array([float(self.R(t, sl)[0]) for t in ts])
        k = int(np.argmin(rs))
        a, b = ts[max(k - 1, 0)], ts[min(k + 1, len(ts) - 1)]
        res = minimize_scalar(lambda t: float(self.R(t, sl)[0]), bounds=(a, b), method="bounded",
                              options={"xatol": 1e-13 * Thi})
        if res.fun < rs[k]:
            return float(res.x), float(res.fun)
        return float(ts[k]), float(rs[k])


def delta_values(coefs, chi, scale):
    """(npart, n) values of amp (a0 + a1 chi + a2 (2 chi^2 - 1)) (1 - chi^2)"""
    c = np.asarray(coefs, dtype=float)
    if c.size == 0:
        return np.zeros((0, len(chi)))
    return scale * (c[:, 0:1] + c[:, 1:2] * chi[None, :] + c[:, 2:3] * (2 * chi[None, :] ** 2 - 1)) * (1 - chi[None, :] ** 2)


def realise_vw(branch, u, cs, vJ, vmin):
    if branch == "deflag":
        lo = max(1.5 * vmin, 0.02)
        return lo + u * (0.985 * cs - lo)
    if branch == "hybrid":
        return 1.003 * cs + u * (0.997 * vJ - 1.003 * cs)
    return vJ + (1 - vJ) * (0.005 + 0.97 * u)


def shape_label(widths_tn):
    m = float(np.min(widths_tn))
    return "thin" if m < 2.0 else ("mid" if m < 6.0 else "thick")


# ---------------------------------------------------------------------------
# the check
# ---------------------------------------------------------------------------
def check_case(case) -> Verdict:
    import WallGo
    from WallGo.containers import BoltzmannDeltas

    v = Verdict()
    spec, cfg = case["spec"], case["cfg"]
    fam = spec["family"]
    M, errTol = int(cfg["spatialGridSize"]), float(cfg["errTol"])
    v.label(f"family:{fam}", f"M:{M}", f"errTol:{errTol:g}", f"particles:{len(spec.get('particles') or [])}")
    try:
        manager, model, cf, rel = zp.setup_manager(spec, cfg)
    except WallGo.WallGoError as exc:
        v.discarded(f"set-up refused the model: {type(exc).__name__}")
        return v
    eom = manager.setupWallSolver(WallGo.WallSolverSettings(**SETTINGS_KW)).eom
    if getattr(eom, "findPlasmaProfile", None) is None:
        v.label("skipped: findPlasmaProfile absent")
        return v
    hy, thermo = manager.hydrodynamics, manager.thermodynamics
    Tn = float(hy.Tnucl)
    cs = math.sqrt(float(thermo.csqLowT(Tn)))
    vJ = float(hy.vJ)
    nf = cf.nf
    hydro_rtol = float(getattr(hy, "rtol", zp.DEFAULT_CFG["hydroRelTol"]))
    dofs = [float(p.totalDOFs) for p in eom.particles]
    npart = len(dofs)
    info_walls = []

    for wall in case["walls"]:
        vw = float(realise_vw(wall["branch"], wall["u"], cs, vJ, float(hy.vMin)))
        rec = {}
        orig = hy.findMatching

        def recorder(vv, _orig=orig, _rec=rec):
            out = _orig(vv)
            _rec["out"] = out
            return out

        hy.findMatching = recorder
        try:
            c1, c2, Tp, Tm, vmid = hy.findHydroBoundaries(vw)
        except (WallGo.WallGoError, AssertionError, ValueError) as exc:
            v.label(f"hydro:{wall['branch']}:{type(exc).__name__}")
            continue
        finally:
            del hy.findMatching
        if "out" not in rec or vmid is None or rec["out"][0] is None or not (Tp and Tm):
            v.label(f"hydro:{wall['branch']}:no-solution")
            continue
        vp, vm = float(rec["out"][0]), float(rec["out"][1])
        # what EOM.wallPressure hands to findPlasmaProfile: the values of findHydroBoundaries AS RETURNED (for an
        # integer-typed Tn a detonation's T+ is a Python int); the oracle itself works with floats
        raw_args = (c1, c2, vmid, Tp, Tm)
        c1, c2, Tp, Tm, vmid = float(c1), float(c2), float(Tp), float(Tm), float(vmid)
        if not all(map(math.isfinite, (c1, c2, Tp, Tm, vmid, vp, vm))):
            v.label(f"hydro:{wall['branch']}:non-finite")
            continue
        branch = "deton" if vw > vJ else ("hybrid" if vm < vw * (1 - 1e-9) else "deflag")
        if not (cf.exists("low", Tm) and cf.exists("high", Tp)):
            v.label(f"hydro:{branch}:T-outside-phase-existence")
            continue
        # (1) do the matching values (v+, T+), (v-, T-) of findMatching conserve the two fluxes across the
        #     wall in the exact equation of state?  If not, that is hydrodynamics (C02), not the profile.
        xl, xh = cf.phase("low", Tm), cf.phase("high", Tp)
        wl, wh = float(-Tm * cf.dVdT(xl, Tm)), float(-Tp * cf.dVdT(xh, Tp))
        pl, ph = float(-cf.V(xl, Tm)), float(-cf.V(xh, Tp))
        f30m, f33m = wl * vm / (1 - vm * vm), pl + wl * vm * vm / (1 - vm * vm)
        f30p, f33p = wh * vp / (1 - vp * vp), ph + wh * vp * vp / (1 - vp * vp)
        eta_rel = max(abs(f30p - f30m) / abs(f30p), abs(f33p - f33m) / wh)
        v.label(f"branch:{branch}", f"hydro-eta:1e{int(math.floor(math.log10(max(eta_rel, 1e-16))))}")
        if eta_rel > ETA_CAP:
            v.label(f"hydro:{branch}:inconsistent>1e-3")
            continue
        # (2) inconsistency of the supplied constants (c1, c2) with both matching states (used only for the
        #     tail-point acceptance below; a gross one is reported by the asymptotic sub-oracles)
        e_m = abs(f30m + c1) + abs(f33m - c2)
        e_p = abs(f30p + c1) + abs(f33p - c2)
        eta_abs = min(max(e_m, e_p), ETA_CAP * wl)
        # (3) frame of the out-of-equilibrium moments: velocityMid must be the wall-frame mid-point -(v+ + v-)/2
        #     (docstring of findPlasmaProfile; sign convention named in the property's anchors).  The oracle's
        #     stress uses this reference value, not the one handed over.
        vmid_ref = -0.5 * (vp + vm)
        v.checked("vmid-convention")
        if abs(vmid - vmid_ref) > 1e-9:
            v.fail("vmid-convention", f"branch={branch}",
                   f"findHydroBoundaries({vw:.4f}) returned velocityMid={vmid!r}; wall-frame mid-point of the matching "
                   f"velocities is -(v+ + v-)/2 = {vmid_ref!r}", vw=vw)
        # field values between which wallPressure interpolates
        TmE = max(min(Tm, thermo.freeEnergyLow.interpolationRangeMax()), thermo.freeEnergyLow.interpolationRangeMin())
        TpE = max(min(Tp, thermo.freeEnergyHigh.interpolationRangeMax()), thermo.freeEnergyHigh.interpolationRangeMin())
        vevL = thermo.freeEnergyLow(TmE).fieldsAtMinimum
        vevH = thermo.freeEnergyHigh(TpE).fieldsAtMinimum

        for shape in wall["shapes"]:
            widths = np.array(shape["w"], dtype=float) / Tn
            offs = np.array(shape["off"], dtype=float)
            wp = WallGo.WallParams(widths=widths.copy(), offsets=offs.copy())
            eom._updateGrid(wp, vmid)
            z = np.asarray(eom.grid.xiValues, dtype=float)
            chi = np.asarray(eom.grid.chiValues, dtype=float)
            n = len(z)
            fields, dfields = eom.wallProfile(z, vevL, vevH, wp)
            # "the scalar-field gradient energy": the gradient wallProfile hands to the profile solver must be the
            # z-derivative of the field profile it returns (metamorphic: central difference of the same routine
            # evaluated at z -+ h; truncation (h/L)^2/3 ~ 1e-10 and rounding eps*|phi|/h ~ 1e-10 of the peak gradient)
            v.checked("gradient-consistency")
            hstep = 1e-5 * float(np.min(widths))
            fplus = np.asarray(eom.wallProfile(z + hstep, vevL, vevH, wp)[0], dtype=float).reshape(n, nf)
            fminus = np.asarray(eom.wallProfile(z - hstep, vevL, vevH, wp)[0], dtype=float).reshape(n, nf)
            dnum = (fplus - fminus) / (2 * hstep)
            dgot = np.asarray(dfields, dtype=float).reshape(n, nf)
            gscale = np.maximum(np.max(np.abs(dnum), axis=0), 1e-300)
            gerr = np.max(np.abs(dgot - dnum) / gscale[None, :], axis=0)
            v.info["gradient_consistency_err"] = float(np.max(gerr))
            if float(np.max(gerr)) > 1e-6:
                kf = int(np.argmax(gerr))
                v.fail("gradient-consistency", f"offsets={'zero' if not np.any(offs) else 'nonzero'} nf={nf}",
                       f"EOM.wallProfile: returned d(phi_{kf})/dz differs from the z-derivative of the returned field "
                       f"profile by {gerr[kf]:.3e} of its peak value (widths*Tn={shape['w']}, offsets={shape['off']})",
                       vw=vw)
            dkind = "none"
            vals = {k: np.zeros((npart, n)) for k in ("D00", "D02", "D20", "D11")}
            if shape.get("deltas") and npart:
                dkind = "poly"
                for k in vals:
                    sc = 1e-3 * (Tn ** 2 if k == "D00" else Tn ** 4) / 3.0
                    vals[k] = delta_values(shape["deltas"][k][:npart], chi, sc)
            polys = {k: WallGo.Polynomial(vals[k].copy(), eom.grid, direction=("Array", "z"),
                                          basis=("Array", "Cardinal")) for k in vals}
            D = BoltzmannDeltas(Delta00=polys["D00"], Delta02=polys["D02"], Delta20=polys["D20"], Delta11=polys["D11"])
            Tprof, vprof = eom.findPlasmaProfile(raw_args[0], raw_args[1], raw_args[2], fields, dfields, D,
                                                 raw_args[3], raw_args[4])[:2]
            Tprof, vprof = np.asarray(Tprof, dtype=float), np.asarray(vprof, dtype=float)
            success = bool(eom.successTemperatureProfile)
            slab = shape_label(widths * Tn)
            v.label(f"shape:{slab}", f"deltas:{dkind}", "success:true" if success else "success:false")
            if not success:
                continue
            phi = np.asarray(fields, dtype=float).reshape(n, nf)
            dphi = np.asarray(dfields, dtype=float).reshape(n, nf)
            t30o, t33o = out_of_eq_stress(vals, dofs, vmid_ref) if npart else (np.zeros(n), np.zeros(n))
            res = Residual(cf, phi, dphi, c1 - t30o, c2 - t33o)
            cls = f"branch={branch} deltas={dkind}"
            inside = int(np.sum(np.abs(z - 0.0) < np.max(widths)))
            if abs(Tp - Tm) / Tn > 1e-4 and inside >= M / 4:
                v.nontrivial = True

            # ---- T30 -------------------------------------------------------
            v.checked("t30")
            if not (np.all(np.isfinite(Tprof)) and np.all(Tprof > 0) and np.all(np.isfinite(vprof))):
                v.fail("t30", cls, f"non-finite or non-positive profile with success=True: T={Tprof.tolist()[:5]}...")
                continue
            vmine = res.v(Tprof)
            bad = (np.abs(vprof) >= 1) | (np.abs(vprof - vmine) > T30_RTOL * np.abs(vmine) + 1e-13)
            if np.any(bad):
                k = int(np.argmax(np.abs(vprof - vmine)))
                v.fail("t30", cls,
                       f"returned v={vprof[k]!r} at grid point {k} (T={Tprof[k]!r}) does not reproduce T30=c1: the "
                       f"subluminal solution of w gamma^2 v + T30_out = c1 is v={vmine[k]!r} (vw={vw:.4f})",
                       vw=vw, index=k)
                continue

            # ---- T33 -------------------------------------------------------
            v.checked("t33-conservation")
            win = K_WINDOW * (1e-10 + errTol / 10 * Tprof)
            r0 = res.R(Tprof)
            rp = res.R(Tprof + win)
            rm = res.R(np.maximum(Tprof - win, 1e-12))
            floor = 64 * EPS * res.scale(Tprof)
            ok_root = (r0 * rp <= 0) | (r0 * rm <= 0) | (np.abs(r0) <= floor)
            ok_fwd = np.abs(r0) <= np.maximum(np.abs(rp - r0), np.abs(rm - r0))
            todo = np.where(~(ok_root | ok_fwd))[0]
            wloc = res.w(Tprof)
            n_eta = 0
            worst_noroot = 0.0
            first_noroot = None
            for i in todo:
                Tmin, Rmin = res.minimum(int(i), 0.02 * min(Tp, Tm), 2.5 * max(Tp, Tm))
                if Rmin > 0:
                    # documented fallback ("If no solution, the minimum of LHS"): the returned T must be the
                    # minimiser of the residual to the accuracy of scipy's bounded Brent search (xatol 1e-5
                    # absolute + sqrt(eps) relative; x10), judged by the forward image of that window around the
                    # oracle's own minimiser.  Only where the minimum is interior to WallGo's search interval.
                    Thi_w = 2 * max(Tp, Tm)
                    if 0.03 * min(Tp, Tm) < Tmin < 0.98 * Thi_w and Tprof[i] < 0.999 * Thi_w:
                        v.checked("t33-noroot-minimum")
                        sl_i = slice(int(i), int(i) + 1)
                        dTm = 10 * (1e-5 + 1.5e-8 * Tmin)
                        img = max(float(res.R(Tmin + dTm, sl_i)[0]) - Rmin,
                                  float(res.R(max(Tmin - dTm, 1e-12), sl_i)[0]) - Rmin, 0.0)
                        excess = float(r0[i]) - Rmin
                        if excess > img + 64 * EPS * float(res.scale(Tprof)[i]) + 1e-9 * Rmin:
                            v.fail("t33-noroot-minimum", cls,
                                   f"grid point {int(i)}: the T33 equation has no root (residual minimum {Rmin:.3e} at "
                                   f"T={Tmin:.8g}); returned T={Tprof[i]!r} is not that minimum: residual there "
                                   f"{r0[i]:.3e}, excess {excess:.2e} against the image {img:.1e} of the minimiser's "
                                   f"tolerance window; vw={vw:.4f} widths*Tn={shape['w']}", vw=vw, index=int(i))
                            break
                    tail = bool(np.all(np.abs(z[i] / widths + offs) >= 3.0))
                    if r0[i] <= K_ETA * max(eta_abs if tail else 0.0, hydro_rtol * wloc[i]):
                        n_eta += 1
                        continue
                    if r0[i] / wloc[i] > worst_noroot:
                        worst_noroot, first_noroot = float(r0[i] / wloc[i]), int(i)
                else:
                    v.fail("t33-conservation", cls,
                           f"grid point {int(i)}: returned T={Tprof[i]!r} has T33 residual {r0[i]:.3e} "
                           f"({r0[i] / wloc[i]:.2e} w); no root of the residual within the backward window "
                           f"+-{win[i]:.2e} although roots exist (residual minimum {Rmin:.3e} at T={Tmin:.6g}); "
                           f"vw={vw:.4f} widths*Tn={shape['w']} offsets={shape['off']}",
                           vw=vw, index=int(i))
                    break
            v.label("accept:all-by-root" if not np.any(~ok_root) else
                    ("accept:some-by-forward-image" if len(todo) == 0 else
                     ("accept:some-by-eta" if n_eta and first_noroot is None else "accept:not-all")))
            if first_noroot is not None:
                i = first_noroot
                nbad = int(sum(1 for j in todo if r0[j] > 0))
                v.checked("t33-noroot-success")
                v.fail("t33-noroot-success", cls,
                       f"successTemperatureProfile=True but at grid point {i} (z/L={z[i] * Tn / np.max(shape['w']):.2f}) "
                       f"the T33 equation has no root: the returned T={Tprof[i]!r} is the residual's minimum, "
                       f"T33 is missed by {r0[i]:.3e} = {worst_noroot:.2e} w (window image "
                       f"{max(abs(rp[i] - r0[i]), abs(rm[i] - r0[i])):.1e}, boundary-constant inconsistency {eta_abs:.1e}); "
                       f"{nbad} such points; vw={vw:.4f} ({branch}) widths*Tn={shape['w']} offsets={shape['off']} "
                       f"errTol={errTol:g}", vw=vw, index=i, deficit_over_w=worst_noroot)

            # ---- asymptotics ------------------------------------------------
            if dkind == "none" and eta_rel > ASYM_TOL / 5:
                v.label("asym:skipped-hydro-eta>1e-4")
            elif dkind == "none":
                for end, Tref, vref, wref in ((0, Tm, -vm, wl), (n - 1, Tp, -vp, wh)):
                    name = "behind" if end == 0 else "front"
                    tail_len = float(np.min(np.abs(z[end] / widths + offs)))
                    v.label(f"tail:{name}:{'>=5' if tail_len >= 5 else '<5'}")
                    if tail_len < 5:
                        continue
                    sl = slice(end, end + 1)
                    v.checked("asym-t33")
                    seg = np.linspace(Tprof[end], Tref, 9)
                    rseg = np.array([abs(float(res.R(t, sl)[0])) for t in seg])
                    if rseg.max() > ASYM_TOL * wref + abs(r0[end]):
                        sub = "asym-branch" if rseg[1:-1].max() > 4 * max(rseg[0], rseg[-1]) else "asym-t33"
                        v.fail(sub, f"branch={branch} end={name}",
                               f"profile {name} the wall: T={Tprof[end]!r} v={vprof[end]!r} versus matching values "
                               f"T={Tref!r} v={vref!r}: T33 residual along the segment joining them reaches "
                               f"{rseg.max() / wref:.2e} w (at ends {rseg[0] / wref:.1e}, {rseg[-1] / wref:.1e}); vw={vw:.4f}",
                               vw=vw)
                    v.checked("asym-t30")
                    vm_ref = float(res.v(Tref, sl)[0])
                    if abs(vm_ref - vref) > ASYM_TOL * max(abs(vref), 1e-3) or vprof[end] * vref <= 0:
                        v.fail("asym-t30", f"branch={branch} end={name}",
                               f"{name} the wall the velocity that carries T30=c1 at T={Tref!r} is {vm_ref!r} "
                               f"(profile: {vprof[end]!r}), the matching value is {vref!r} (wall-frame convention "
                               f"v<0); c1={c1!r}, vw={vw:.4f}", vw=vw)
            info_walls.append([branch, round(vw, 4), slab, dkind, float(np.max(np.abs(r0) / wloc)),
                               float(eta_rel), int(np.sum(~ok_root)), n_eta])
    v.info["walls"] = info_walls[:12]
    return v
