"""C18 - interpolated functions honour their evaluation contract for every call history.

Engine: Hypothesis RuleBasedStateMachine over a subclass of WallGo.InterpolatableFunction; every
rule appends a JSON step to the history and applies it through ``Runner.apply`` - the same function
``check_case`` uses to replay a recorded history without Hypothesis.

Reference model: (mode pair, adaptive flag, bounds on the pending adaptive counter); the table itself
is *observed* after every step (``_interpolationPoints/_interpolationValues``, getattr-guarded).

Sub-oracles (``sub`` of a violation)
  table-invariants         abscissae strictly increasing, finite values, getters = table ends,
                           numPoints = length, tabulated values = f(abscissae)
  table-grid               newTable keeps exactly the finite rows of linspace(a,b,n); extend keeps every
                           old row, adds only finite rows on the requested sides and reaches newMin/newMax
  table-spacing            no abscissa closer than rounding noise to another unless such a block was requested
  table-accuracy           spline of the table agrees with f at all interval midpoints (h^4 bound)
  table-build-exception    newTable / extend / setExtrapolationType / adaptive update raised
  eval-shape, eval-direct, eval-inside, eval-accuracy, eval-error-mode
  out-of-range-value       an outside entry is not what the mode on that side prescribes
  out-of-range-exception   evaluate/derivative raised something else than ValueError-in-ERROR-mode
  deriv-shape, deriv-direct, deriv-inside, deriv-error-mode, inside-exception
  adaptive-trigger         update fired before / did not fire at the threshold; coverage after it
  roundtrip                write + read into a fresh object reproduces table and values

Confirmed defects of the unchanged tree are steered around BY CONSTRUCTION while the corresponding
``AVOID`` switch is True (the number of steered draws is reported through ``avoided:<slug>`` labels);
their minimal histories live in replays/C18/known_<slug>.json and are replayed by every run.  After a
repair set the switch to False (or VERIF_C18_NOAVOID=slug1,slug2 / =all) and the class is searched again.

  switch               defect                                         replays/C18/
  r1_out_of_range      D1 IndexError for scalar-valued functions      known_r1_out_of_range_{eval,deriv}.json
  r1_nan_drop          D2 one NaN drops a scalar-valued table         known_r1_nan_drop.json
  deriv_mixed          D3 derivative passes the full x                known_deriv_{mixed,2d_outside}.json
  deriv_near_edge      D4 stencil points inside the table unset       known_deriv_near_edge.json
  extend_grid          D5 np.arange blocks not robust to rounding     known_extend_{overrun_*,grid_*}.json
  adaptive_degenerate  D6 update from a single pending point          known_adaptive_degenerate.json
  midcall_update       D7 update in the middle of an evaluate call    known_midcall_update_constant.json

The steering predicates mirror the arithmetic of the unchanged tree (np.arange lengths, the pending
list); they are used to choose inputs and to name the class of a failure, never to decide a verdict.
"""
from __future__ import annotations

import math
import os
import tempfile

import numpy as np
from hypothesis import strategies as st

from vlib.core import Verdict

PROPERTY_ID = "C18"
ENGINE = ("hypothesis RuleBasedStateMachine + shared step-applier (replay without hypothesis); "
          "scipy CubicSpline on the observed table as differential oracle")
RULE = (
    "A case is a history {init, steps}: init = return dimension R in 1..4, components drawn from "
    "{sin x, x^2, exp(-x/3), 1/(1+x^2)}, optional NaN-below-threshold in one component, adaptive flag, "
    "update threshold 5..20, initial point count; steps drawn from newTable / evaluate / derivative / "
    "extend / setExtrapolationType (16 pairs) / adaptive on-off / scheduleForInterpolation / burst of "
    "out-of-table evaluations sized to the update threshold / write+read round trip, with inputs of "
    "shape scalar, list, 1-D, 2-D, of float, integer (Python int, list of ints, int64/int32 arrays) or mixed "
    "int/float type, and region class inside, edge, below, above, both-out, mixed, "
    "near-edge placed relative to the table observed at generation time (one evaluation in four repeats the "
    "previous call). Non-trivial = the history "
    "contains an evaluation or derivative with at least one out-of-range entry after at least one "
    "table-changing step; distinct by canonical JSON of the whole history."
)
BUDGET = {
    "quick": {"cases": 3200, "steps": 12, "shrink": True, "time_cap_s": 300, "shrink_cap_s": 60},
    "thorough": {"cases": 30000, "steps": 30, "shrink": True, "time_cap_s": 2400},
}

# ---------------------------------------------------------------------------
# Confirmed defects: generator steers around them while the switch is True
# ---------------------------------------------------------------------------
# all seven defects below were repaired in /repo ("fix:" commits 2c654d2, 7a53674, dacefc5, f39f966, a495aa4,
# a23059d); the switches are off so that every class is searched again
AVOID = {
    # D1  R=1: any out-of-range entry reaching a non-ERROR side with a pair other than NONE/NONE,
    #     ERROR/ERROR raises IndexError (res[mask, :] on a 1-D array) - evaluate and derivative
    "r1_out_of_range": False,
    # D2  R=1: one NaN value drops the whole table (np.all without axis) -> CubicSpline ValueError
    "r1_nan_drop": False,
    # D3  derivative: mixed in/out input (any R) or 2-D input with out-of-range entries passes the
    #     full x to helpers.derivative and fails to broadcast
    "deriv_mixed": False,
    # D4  derivative: an outside entry closer than the stencil half width to the table edge (pair other
    #     than NONE/NONE) reads uninitialised memory for the stencil points that fall inside the table
    "deriv_near_edge": False,
    # D5  extend (manual or adaptive): the np.arange blocks are not robust to rounding. (a) lower side:
    #     np.arange(newMin, rangeMin, spacing) overruns and appends a point at rangeMin (+-1ulp);
    #     (b) either side: a requested extension of the order of ulp(edge)*points repeats abscissae.
    #     Outcome: ValueError from CubicSpline or a near-duplicate abscissa that ruins the spline.
    "extend_grid": False,
    # D6  adaptive update without a table when all pending evaluations are the same x:
    #     linspace(x, x, n) -> CubicSpline ValueError
    "adaptive_degenerate": False,
    # D7  pair NONE/CONSTANT: the lower (NONE) batch of a call fires an adaptive update that also extends the
    #     upper end; the upper entries of the same call then get the boundary value of the NEW table although
    #     they were classified against the old one (value is neither old boundary, new spline nor f)
    "midcall_update": False,
}
_na = os.environ.get("VERIF_C18_NOAVOID", "")
if _na:
    for _k in list(AVOID):
        if _na == "all" or _k in _na.split(","):
            AVOID[_k] = False

EPS = 2.0 ** -52
TOLERANCES = {
    "spline_vs_harness_rel": 1e-12,      # inside: WallGo spline vs harness CubicSpline on the observed table
    "direct_rel": 8 * EPS,               # NONE mode: equals f (few ulp: ufunc loops may differ by shape)
    "table_values_rel": 1e-12,           # tabulated values vs f at abscissae
    "spline_bound_K": 10 * 5.0 / 384.0,  # |S-f| <= K h_max^4 max|f''''|  (+ rounding floor)
    "spline_floor_rel": 1e-11,           # rounding floor of the bound (relative to 1+max|values|)
    "spline_floor_ratio3": 4.0,          # ... or 4 eps (h_max/h_min)^3: a not-a-knot end piece is the cubic through
                                         #     a cluster of knots continued over the long interval (Lebesgue
                                         #     constant ~ ratio^3; measured up to 9e4 eps at ratio 1.2e3)
    "accuracy_mesh_ratio_cap": 1e3,      # beyond this mesh ratio agreement with f / the round trip is not asserted
    "min_gap_rel": 1e-9,                 # abscissae closer than this (rel. 1+|x|) are near-duplicates unless requested
    "requested_gap_rel": 1e-7,           # a requested block spacing below this excuses near-duplicates
    "fd_factor": 10.0,                   # outside derivative: factor on (rounding/dx^n + truncation dx^4)
    "fd_eval_eps": 1e-15,                # relative accuracy assumed for one evaluation of g
    "near_edge_halfwidth_dx": 2.5,       # an outside entry closer than this many dx to the edge is 'near'
    "roundtrip_rel": 1e-13,              # %.15g round trip, relative to (max|v| + max|x| max|slope|) * (h_max/h_min)^3
    "range_reach_rel": 1e-9,             # extension reaches newMax up to arange rounding
}
TOLERANCES["avoid_switches"] = {k: bool(v) for k, v in AVOID.items()}  # recorded in evidence
ASSUMPTIONS = [
    "_functionImplementation returns x.shape (R=1) or x.shape+(R,) (R>1), NaN in one component below a "
    "threshold - the documented way to mark invalid input.",
    "The table is observed through _interpolationPoints/_interpolationValues (named in the anchors); if "
    "they disappear the table sub-oracles are skipped, not failed.",
    "The spline oracle is scipy's CubicSpline (not-a-knot) built by the harness on the observed table; "
    "agreement with f is asserted separately with the classical h^4 bound (tables with >= 4 points).",
    "An adaptive update that fires in the middle of an evaluate call makes both the table before and after "
    "the call acceptable references for that call; in the middle of a derivative call the finite-difference "
    "entries are not asserted (shape and inside entries still are).",
    "Adaptive trigger: counted are the distinct finite out-of-table evaluations per call since the last "
    "documented reset (extend, enableAdaptiveInterpolation, an update). Where the count is not fixed by "
    "the documentation (derivative stencils, newTable, NaN in a scalar batch) only the bounds L <= count "
    "<= U are used: no update while U < threshold, an update once L >= threshold.",
    "Table of fewer than 2 finite rows is a violated precondition and is not generated.",
    "Inputs at a subnormal distance from a table edge (nextafter(0.0)) are not generated: an adaptive extension "
    "to such a point creates a gap whose reciprocal overflows inside scipy's CubicSpline.",
    "Without a table, pending evaluations that are all the same point do not have to trigger an update "
    "(no table can be built from one abscissa) - but they must not raise either.",
]
EXHAUSTIVE_SUBDOMAINS = []

MODES = ["ERROR", "NONE", "CONSTANT", "FUNCTION"]
COMPONENTS = ["sin", "sq", "exp", "lor"]
XLIM = 12.0          # all abscissae and inputs stay in [-XLIM, XLIM]
MAX_TABLE = 260      # extends are not generated beyond this table size (cost guard)


# ---------------------------------------------------------------------------
# function family with exact derivatives and derivative bounds
# ---------------------------------------------------------------------------
def comp_eval(name, x, k=0):
    """k-th derivative (k=0..3) of component `name` at x (array)."""
    x = np.asarray(x, dtype=float)
    if name == "sin":
        return [np.sin, np.cos, lambda t: -np.sin(t), lambda t: -np.cos(t)][k % 4](x)
    if name == "sq":
        return [x * x, 2.0 * x, np.full(x.shape, 2.0), np.zeros(x.shape)][k] if k < 4 else np.zeros(x.shape)
    if name == "exp":
        return (-1.0 / 3.0) ** k * np.exp(-x / 3.0)
    if name == "lor":
        q = 1.0 + x * x
        if k == 0:
            return 1.0 / q
        if k == 1:
            return -2.0 * x / q ** 2
        if k == 2:
            return (6.0 * x * x - 2.0) / q ** 3
        if k == 3:
            return 24.0 * x * (1.0 - x * x) / q ** 4
    raise ValueError((name, k))


def comp_bound(name, k, lo, hi):
    """Upper bound of |f^(k)| on [lo, hi] (k >= 3)."""
    if name == "sin":
        return 1.0
    if name == "sq":
        return 0.0
    if name == "exp":
        return math.exp(-lo / 3.0) / 3.0 ** k
    if name == "lor":
        return float(math.factorial(k))  # |d^k/dx^k 1/(1+x^2)| <= k!
    raise ValueError(name)


def f_exact(init, x, k=0):
    """Exact f^(k) with the NaN convention of the generated function: shape x.shape (+ (R,))."""
    x = np.asarray(x, dtype=float)
    comps = init["comps"]
    cols = [comp_eval(c, x, k) for c in comps]
    nb = init.get("nan_below")
    if len(comps) == 1:
        res = np.array(cols[0], dtype=float)
        if nb is not None:
            res = np.where(x < nb, np.nan, res)
        return res
    res = np.stack(cols, axis=-1)
    if nb is not None:
        c = init.get("nan_comp", 0) % len(comps)
        res[..., c] = np.where(x < nb, np.nan, res[..., c])
    return res


def make_function(init):
    """Fresh WallGo.InterpolatableFunction subclass instance for `init`."""
    from WallGo import InterpolatableFunction

    R = len(init["comps"])

    class GenFunction(InterpolatableFunction):
        def __init__(self):
            super().__init__(
                bUseAdaptiveInterpolation=bool(init["adaptive"]),
                initialInterpolationPointCount=int(init["npoints0"]),
                returnValueCount=R,
            )
            # "This can safely be changed at runtime and adjusted for different functions"
            self._evaluationsUntilAdaptiveUpdate = int(init["threshold"])

        def _functionImplementation(self, x):
            xa = np.asanyarray(x, dtype=float)
            if xa.size == 0 and init.get("empty_like_freeenergy"):
                # what WallGo.FreeEnergy._functionImplementation does for an empty temperature array (it minimises at
                # "no temperature" and returns one row): nothing in the documentation obliges an implementation to
                # return an empty array when there is nothing to evaluate
                return f_exact(init, np.zeros(1))
            return f_exact(init, xa)

    return GenFunction()


def mode_enum(name):
    from WallGo import EExtrapolationType

    return getattr(EExtrapolationType, name)


def build_x(step):
    """Reconstruct the input object from the step: scalar float, list, 1-D or 2-D array."""
    kind = step["shape"]
    dtype = step.get("dtype", "float")
    if dtype in ("int", "int32"):
        # integer-valued input: Python int / list of ints / integer numpy array (whole dtype integer)
        xs = [int(t) for t in step["x"]]
        npdt = np.int32 if dtype == "int32" else np.int64
    elif dtype == "mixed":
        # Python list mixing ints and floats (JSON keeps 3 and 3.0 apart)
        xs = [int(t) if isinstance(t, int) and not isinstance(t, bool) else float(t) for t in step["x"]]
        npdt = float
    else:
        xs = [float(t) for t in step["x"]]
        npdt = float
    if kind == "scalar":
        return xs[0]
    if kind == "list":
        return list(xs)
    if kind == "1d":
        return np.array(xs, dtype=npdt)
    return np.array(xs, dtype=npdt).reshape(tuple(step["dims"]))


def fd_dx(n, eps, scale):
    return float(scale) * float(eps) ** (1.0 / (n + 4))


def stencil_points(xa, n, dx):
    """Positions helpers.derivative evaluates (order 4, away from bounds)."""
    xa = np.ravel(np.asarray(xa, dtype=float))
    d = (xa + dx) - xa
    ks = [-2.0, -1.0, 1.0, 2.0] if n == 1 else [-2.0, -1.0, 0.0, 1.0, 2.0]
    return np.concatenate([xa + k * d for k in ks]) if xa.size else xa


# ---------------------------------------------------------------------------
# observed table
# ---------------------------------------------------------------------------
class Table:
    """Snapshot of the observed table with the harness's own spline."""

    def __init__(self, pts_obj, pts, vals):
        from scipy.interpolate import CubicSpline

        self.obj = pts_obj          # keeps the observed array alive (identity comparison)
        self.pts = np.array(pts, dtype=float)
        self.vals = np.array(vals, dtype=float)
        self.n = len(self.pts)
        self.rmin = float(self.pts[0])
        self.rmax = float(self.pts[-1])
        self.spline = CubicSpline(self.pts, self.vals, axis=0, extrapolate=True)
        gaps = np.diff(self.pts)
        self.hmax = float(gaps.max())
        self.hmin = float(gaps.min())
        self.scale = 1.0 + float(np.max(np.abs(self.vals)))

    def S(self, x, k=0):
        return self.spline(np.asarray(x, dtype=float), k)

    def end_piece(self, edge, y, k=0):
        """k-th derivative of the first (edge = rmin) or last polynomial piece, continued over all y."""
        j = 0 if edge == self.rmin else -1
        c = self.spline.c[:, j]                      # (4, ...) coefficients, highest power first
        x0 = self.spline.x[0] if j == 0 else self.spline.x[-2]
        t = np.asarray(y, dtype=float) - x0
        t = t.reshape(t.shape + (1,) * (c.ndim - 1))
        out = 0.0
        for m in range(4):
            pw = 3 - m
            if pw < k:
                continue
            fac = math.factorial(pw) / math.factorial(pw - k)
            out = out + fac * c[m] * t ** (pw - k)
        return out + np.zeros(t.shape[:np.ndim(y)] + c.shape[1:])


def lower_overrun(rmin, new_min, p_min):
    """Would np.arange(newMin, rangeMin, |rangeMin-newMin|/pointsMin) produce pointsMin+1 points?

    Used only to *classify* failures and to steer the generator (never as an oracle)."""
    if not (new_min < rmin and p_min > 0):
        return False
    spacing = np.abs(rmin - new_min) / p_min
    if not (spacing > 0):
        return True
    return len(np.arange(new_min, rmin, spacing)) != p_min


TINY_REL = 1e-10


def side_class(edge, new, p, sgn):
    """Class of one requested extension block: none / tiny / overrun (lower only) / exact."""
    dist = sgn * (new - edge)
    if not (dist > 0 and p > 0):
        return "none"
    if dist / p < TINY_REL * (1.0 + abs(edge)):
        return "tiny"
    if sgn < 0 and lower_overrun(edge, new, p):
        return "overrun"
    return "exact"


def sim_extend_range(rmin, rmax, new_min, new_max, p_min, p_max):
    """Range after extendInterpolationTable in the arithmetic of the unchanged tree (steering/classifying only)."""
    lo, hi = rmin, rmax
    if new_min < rmin and p_min > 0:
        lo = new_min
    if new_max > rmax and p_max > 0:
        sp = np.abs(new_max - rmax) / p_max
        if sp > 0:
            blk = np.arange(rmax + sp, new_max + sp, sp)
            if len(blk):
                hi = float(blk[-1])
    return lo, hi


def simulate_updates(count, pend, batches, rng, T, N0, valid_fn):
    """Classes (lower, upper) of every adaptive update that scheduling `batches` would fire, mirroring the
    unchanged tree's bookkeeping. Used to steer the generator, to classify exceptions and to recognise
    updates whose requested extension was itself narrower than rounding; never to decide a value."""
    fires = []
    rmin, rmax = rng if rng is not None else (None, None)
    pend = list(pend)
    apc = int(0.2 * N0)
    for b in batches:
        valid = valid_fn(b)
        if not valid:
            continue
        count += len(valid)
        pend = pend + valid
        if count >= T:
            pmin, pmax = min(pend), max(pend)
            if rmin is None:
                fires.append(("degenerate" if pmin == pmax else "create", "create"))
                rmin, rmax = pmin, pmax
            else:
                fires.append((side_class(rmin, pmin, apc, -1.0), side_class(rmax, pmax, apc, 1.0)))
                rmin, rmax = sim_extend_range(rmin, rmax, pmin, pmax, apc, apc)
            count, pend = 0, []
    return fires


def _exc_through(exc, funcname):
    tb = exc.__traceback__
    while tb is not None:
        if tb.tb_frame.f_code.co_name == funcname:
            return True
        tb = tb.tb_next
    return False


# ---------------------------------------------------------------------------
# the shared step-applier
# ---------------------------------------------------------------------------
class Runner:
    def __init__(self, init, verdict: Verdict):
        self.init = init
        self.v = verdict
        self.R = len(init["comps"])
        self.Rc = "1" if self.R == 1 else "n"
        self.nan_below = init.get("nan_below")
        self.f = make_function(init)
        self.lo = "NONE"
        self.hi = "NONE"
        self.adaptive = bool(init["adaptive"])
        self.T = int(init["threshold"])
        self.N0 = int(init["npoints0"])
        # bounds on the pending adaptive counter; `pend` = the certain pending points (None if unknown)
        self.L = 0
        self.U = 0
        self.pend = []
        self.dead = False
        self.observable = True
        self.tab = None
        self.table_changes = 0
        self.nontrivial = False
        self.ops = []
        self.labels = set()
        self._checked = set()
        self.nsteps = 0
        self.info = {}
        self._observe()

    # -- bookkeeping ---------------------------------------------------------
    def lab(self, *labels):
        self.labels.update(lb for lb in labels if lb is not None)

    def chk(self, sub):
        if sub not in self._checked:
            self._checked.add(sub)
            self.v.checked(sub)

    def fail(self, sub, cls, msg, **detail):
        self.v.fail(sub, cls, msg, step=self.nsteps, **detail)
        self.dead = True

    def track(self, key, value):
        value = float(value)
        if math.isfinite(value) and value > self.info.get(key, 0.0):
            self.info[key] = value

    def has_table(self):
        return bool(self.f.hasInterpolation())

    def _observe(self):
        """Refresh the snapshot; returns True if the table object changed."""
        if not self.has_table():
            return False
        pts = getattr(self.f, "_interpolationPoints", None)
        vals = getattr(self.f, "_interpolationValues", None)
        if pts is None or vals is None:
            self.observable = False
            return False
        if self.tab is not None and self.tab.obj is pts:
            return False
        p = np.asarray(pts, dtype=float)
        w = np.asarray(vals, dtype=float)
        if p.ndim != 1 or len(p) < 2 or len(w) != len(p) or not np.all(np.diff(p) > 0) \
                or not np.all(np.isfinite(w)) or not np.all(np.isfinite(p)):
            # a snapshot cannot be built: report through the invariant sub-oracle
            self.tab = None
            self._bad_table = (p, w)
            return True
        self._bad_table = None
        self.tab = Table(pts, p, w)
        return True

    # -- pending counter model ----------------------------------------------
    def _valid_unique(self, xs):
        xs = np.ravel(np.asarray(xs, dtype=float))
        if xs.size == 0:
            return xs, False
        fx = f_exact(self.init, xs)
        ok = np.isfinite(fx) if self.R == 1 else np.all(np.isfinite(fx), axis=-1)
        return np.unique(xs[ok]), bool(not np.all(ok))

    def _sched(self, xs, certain=True, factor=1):
        """One scheduled batch. Returns nothing; updates L, U and the fire expectations of this step."""
        valid, had_nan = self._valid_unique(xs)
        n = len(valid) * factor
        if factor > 1:
            # derivative stencils: a stencil point may be finite although the entry itself is not
            n = int(np.size(xs)) * factor
        if n == 0:
            return
        ambiguous = (not certain) or (self.R == 1 and had_nan)
        self.U += n
        if self._may:
            self._u_after_may += n
        if ambiguous:
            self.pend = None
        else:
            self.L += n
            if self.pend is not None:
                self.pend.extend(valid.tolist())
        if self.L >= self.T and not self._had_before and not self._must and self.pend is not None \
                and len(set(self.pend)) == 1:
            # every pending evaluation is the same point and there is no table yet: a table cannot be
            # built from one abscissa, so an update is allowed but not demanded
            self._may = True
        elif self.L >= self.T:
            self._must = True
            if self.pend is not None:
                self._fire_sets.append(list(self.pend))
            self.L = 0
            self.U = 0
            self.pend = []
            self._may = False
            self._u_after_may = 0
        elif self.U >= self.T and not self._may:
            self._may = True
            # an undocumented (split) batch may be partly scheduled after the update fired
            self._u_after_may = n if not certain else 0

    def _begin_step(self):
        self._must = False
        self._may = self.U >= self.T
        self._u_after_may = 0
        self._fire_sets = []
        self._tab_before = self.tab
        self._had_before = self.has_table()
        pk = getattr(self.f, "_directlyEvaluatedAt", None)
        pc = getattr(self.f, "_directEvaluateCount", None)
        try:
            self._peek = [float(t) for t in np.ravel(np.asarray(pk, dtype=float))] if pk is not None else None
            self._peek_count = int(pc) if pc is not None else None
        except Exception:  # noqa: BLE001
            self._peek = self._peek_count = None
        self._sim_batches = []
        self._sim_candidates = []
        self._spacing_excused = False

    def _reset_counters(self):
        self.L = 0
        self.U = 0
        self.pend = []

    def _uncertain(self):
        self.L = 0
        self.pend = None

    # -- invariants ------------------------------------------------------------
    def _post_step(self, op, may_fire_op=False):
        """Observe the table, resolve adaptive expectations, check invariants."""
        changed = self._observe()
        fired = bool(may_fire_op and (changed or (self.has_table() and not self._had_before)))
        if may_fire_op and self.observable and not self.dead:
            self.chk("adaptive-trigger")
            if self._must and not fired:
                self.fail("adaptive-trigger", "missed",
                          f"{self.T} distinct finite out-of-table evaluations were scheduled since the last "
                          "reset but no adaptive update took place", op=op)
            elif fired and not (self._must or self._may):
                self.fail("adaptive-trigger", "early",
                          f"table was rebuilt by an evaluation although at most {self.U} < {self.T} "
                          "evaluations are pending since the last documented reset", op=op)
            elif fired and self._may and not self._must:
                self.L = 0
                self.U = self._u_after_may
                self.pend = None
            if fired:
                self.lab("fired:adaptive-update")
        if fired:
            self._spacing_excused = self._tiny_extension_requested()
        if fired and not self.dead and self.tab is not None:
            self._check_coverage()
        if changed:
            self.table_changes += 1
        if not self.dead and self.observable and self.has_table():
            self._check_invariants("adaptive" if fired else op, changed)
        return fired

    def _tiny_extension_requested(self):
        """Did the caller itself ask (through a pending or a current evaluation point a hair outside the old
        table) for an extension block narrower than requested_gap_rel?  Unknown => True (nothing asserted)."""
        old = self._tab_before if self._had_before else None
        if old is None:
            return False
        if self._peek is None:
            return True
        pts = np.array(list(self._peek) + [float(t) for b in self._sim_candidates for t in np.ravel(b)], dtype=float)
        if pts.size == 0:
            return False
        apc = max(1, int(0.2 * self.N0))
        for edge, d in ((old.rmin, old.rmin - pts), (old.rmax, pts - old.rmax)):
            lim = TOLERANCES["requested_gap_rel"] * (1.0 + abs(edge)) * apc
            if np.any((d > 0) & (d < lim)):
                return True
        return False

    def _check_coverage(self):
        for pset in self._fire_sets:
            if not pset:
                continue
            pmin, pmax = min(pset), max(pset)
            tol = TOLERANCES["range_reach_rel"] * (1.0 + abs(pmax) + abs(pmin))
            old = self._tab_before
            apc = int(0.2 * self.N0) if old is not None else int(self.N0 / 2)
            if old is not None and apc == 0:
                continue
            bad = []
            if self.tab.rmin > pmin + tol and (old is None or pmin < old.rmin):
                bad.append(f"rangeMin {self.tab.rmin!r} > smallest pending point {pmin!r}")
            if self.tab.rmax < pmax - tol and (old is None or pmax > old.rmax):
                bad.append(f"rangeMax {self.tab.rmax!r} < largest pending point {pmax!r}")
            if bad:
                self.fail("adaptive-trigger", "coverage", "; ".join(bad))
                return

    def _check_invariants(self, op, changed):
        f = self.f
        self.chk("table-invariants")
        bad = getattr(self, "_bad_table", None)
        cls = f"after={op} R={self.Rc}"
        if bad is not None:
            p, w = bad
            what = []
            if p.ndim != 1 or len(p) < 2:
                what.append(f"abscissae shape {p.shape}")
            elif not np.all(np.isfinite(p)):
                what.append("non-finite abscissa")
            elif not np.all(np.diff(p) > 0):
                i = int(np.argmin(np.diff(p)))
                what.append(f"abscissae not strictly increasing at {i}: {p[i]!r}, {p[i + 1]!r}")
            if len(w) != len(p):
                what.append(f"{len(w)} value rows for {len(p)} abscissae")
            elif not np.all(np.isfinite(w)):
                what.append("non-finite tabulated value")
            self.fail("table-invariants", cls, "; ".join(what) or "table cannot be read")
            return
        t = self.tab
        want_shape = (t.n,) if self.R == 1 else (t.n, self.R)
        if t.vals.shape != want_shape:
            self.fail("table-invariants", cls, f"values shape {t.vals.shape}, expected {want_shape}")
            return
        rmin, rmax, npts = f.interpolationRangeMin(), f.interpolationRangeMax(), f.numPoints()
        if rmin != t.pts[0] or rmax != t.pts[-1] or npts != t.n:
            self.fail("table-invariants", cls,
                      f"getters ({rmin!r}, {rmax!r}, {npts}) differ from table ends "
                      f"({t.pts[0]!r}, {t.pts[-1]!r}, {t.n})")
            return
        if not changed:
            return
        fx = f_exact(self.init, t.pts)
        err = np.abs(t.vals - fx)
        tol = TOLERANCES["table_values_rel"] * (1.0 + np.abs(fx))
        if not np.all(err <= tol):
            i = int(np.argmax(np.where(np.isfinite(err), err, np.inf).reshape(t.n, -1).max(axis=1)))
            self.fail("table-invariants", cls,
                      f"tabulated value at x={t.pts[i]!r} is {t.vals[i].tolist()!r}, f gives {fx[i].tolist()!r}")
            return
        # interpolation accuracy of the table as a whole (public evaluateInterpolation; no side effects)
        # near-duplicate abscissae (not requested by the caller) ruin the spline although they are "increasing"
        self.chk("table-spacing")
        gaps = np.diff(t.pts)
        lim = TOLERANCES["min_gap_rel"] * (1.0 + np.abs(t.pts[:-1]))
        prev = self._tab_before
        if prev is not None:
            is_new = ~np.isin(t.pts, prev.pts)
            gaps = np.where(is_new[:-1] | is_new[1:], gaps, np.inf)  # only gaps created by this step
        if np.any(gaps < lim) and not self._spacing_excused:
            i = int(np.argmin(gaps / lim))
            self.fail("table-spacing", f"after={op} gap=near-duplicate",
                      f"abscissae {t.pts[i]!r} and {t.pts[i + 1]!r} are {gaps[i]:.3e} apart although no block "
                      f"that narrow was requested (n={t.n}, h_max={t.hmax:.3g})")
            return
        bound = self._spline_bound(t) if t.n >= 4 else None
        if bound is not None:
            self.chk("table-accuracy")
            mid = 0.5 * (t.pts[:-1] + t.pts[1:])
            got = np.asarray(f.evaluateInterpolation(mid), dtype=float)
            ref = f_exact(self.init, mid)
            err = np.abs(got - ref)
            ratio = np.max(err / bound) if err.size else 0.0
            self.track("table_accuracy_err_over_bound", ratio)
            if not np.all(err <= bound):
                w = np.unravel_index(int(np.argmax(err / bound)), err.shape)
                bw = float(np.broadcast_to(bound, err.shape)[w])
                self.fail("table-accuracy", f"after={op} R={self.Rc}",
                          f"spline differs from f by {float(err[w]):.3e} at x={float(mid[w[0]])!r} (bound {bw:.3e}, "
                          f"component {self.init['comps'][w[-1]] if self.R > 1 else self.init['comps'][0]}; "
                          f"n={t.n}, h_max={t.hmax:.3g}, h_min={t.hmin:.3g})")

    def _spline_bound(self, t):
        """K h_max^4 max|f''''| + rounding floor, per component (shape () or (R,))."""
        ratio = t.hmax / t.hmin
        if ratio > TOLERANCES["accuracy_mesh_ratio_cap"]:
            self.lab("accuracy-skipped:mesh-ratio")
            return None
        m4 = np.array([comp_bound(c, 4, t.rmin, t.rmax) for c in self.init["comps"]])
        floor = max(TOLERANCES["spline_floor_rel"], TOLERANCES["spline_floor_ratio3"] * EPS * ratio ** 3)
        b = TOLERANCES["spline_bound_K"] * t.hmax ** 4 * m4 + floor * t.scale
        return float(b[0]) if self.R == 1 else b

    # -- expectations ------------------------------------------------------------
    def _masks(self, tab, xa, interp):
        """(below, above) boolean masks w.r.t. table `tab` (None => everything is evaluated directly)."""
        if tab is None or not interp:
            z = np.zeros(xa.shape, dtype=bool)
            return z, z, True
        return xa < tab.rmin, xa > tab.rmax, False

    def _region(self, below, above, direct):
        if direct:
            return "direct"
        nlo, nhi = int(below.sum()), int(above.sum())
        nin = below.size - nlo - nhi
        if nlo + nhi == 0:
            return "inside"
        if nin:
            return "mixed"
        return "bothout" if (nlo and nhi) else ("below" if nlo else "above")

    def _expect_eval(self, tab, xa, interp):
        """Expected values and tolerances for evaluate; kind: 0 direct, 1 inside, 2 below, 3 above."""
        out_shape = xa.shape + ((self.R,) if self.R > 1 else ())
        direct_val = f_exact(self.init, xa)
        below, above, direct = self._masks(tab, xa, interp)
        if direct:
            tol = np.array(TOLERANCES["direct_rel"] * (1.0 + np.abs(direct_val)), dtype=float)
            return np.array(direct_val, dtype=float), tol, np.zeros(xa.shape, dtype=int)
        exp = np.array(tab.S(xa), dtype=float).reshape(out_shape)
        tol = np.full(out_shape, TOLERANCES["spline_vs_harness_rel"] * tab.scale)
        tol = np.array(tol + TOLERANCES["spline_vs_harness_rel"] * np.abs(exp), dtype=float)
        kind = np.ones(xa.shape, dtype=int)
        for mask, mode, edge, k in ((below, self.lo, tab.rmin, 2), (above, self.hi, tab.rmax, 3)):
            if not mask.any():
                continue
            kind[mask] = k
            if mode == "NONE":
                exp[mask] = direct_val[mask]
                tol[mask] = TOLERANCES["direct_rel"] * (1.0 + np.abs(direct_val[mask]))
            elif mode == "CONSTANT":
                exp[mask] = tab.S(edge)
            elif mode == "FUNCTION":
                pass  # spline extrapolation, already there
            # ERROR: never compared
        return exp, tol, kind

    def _g(self, tab, mode, edge, y, k):
        """k-th derivative of what `mode` prescribes outside, at points y (array) -> y.shape (+R)."""
        y = np.asarray(y, dtype=float)
        if mode == "NONE":
            return f_exact(self.init, y, k)
        if mode == "CONSTANT":
            c = np.asarray(tab.S(edge), dtype=float)
            if k == 0:
                return np.broadcast_to(c, y.shape + c.shape).copy()
            return np.zeros(y.shape + c.shape)
        # FUNCTION: the end piece of the spline continued as a polynomial (= CubicSpline's extrapolation)
        return np.asarray(tab.end_piece(edge, y, k), dtype=float)

    def _fd_tol(self, gvals, m_hi, n, dx):
        cn = 1.5 if n == 1 else 64.0 / 12.0
        tn = 1.0 / 30.0 if n == 1 else 1.0 / 90.0
        F = np.max(np.abs(gvals), axis=0)
        return TOLERANCES["fd_factor"] * (TOLERANCES["fd_eval_eps"] * (1.0 + F) * cn / dx ** n
                                          + dx ** 4 * m_hi * tn)

    def _m_bound(self, k, lo, hi):
        m = np.array([comp_bound(c, k, lo, hi) for c in self.init["comps"]])
        return float(m[0]) if self.R == 1 else m

    def _expect_deriv(self, tab, xa, interp, n, dxs):
        """Expected derivative, tolerance and a skip mask (entries whose oracle is ill-conditioned)."""
        out_shape = xa.shape + ((self.R,) if self.R > 1 else ())
        below, above, direct = self._masks(tab, xa, interp)
        exp = np.empty(out_shape)
        tol = np.empty(out_shape)
        skip = np.zeros(xa.shape, dtype=bool)
        near = np.zeros(xa.shape, dtype=bool)
        dxm = max(dxs)
        nb = self.nan_below
        for idx in np.ndindex(xa.shape):
            xi = float(xa[idx])
            if direct or below[idx] or above[idx]:
                if direct:
                    mode, edge = "NONE", None
                else:
                    mode, edge = (self.lo, tab.rmin) if below[idx] else (self.hi, tab.rmax)
                if mode == "ERROR":
                    skip[idx] = True
                    exp[idx] = 0.0
                    tol[idx] = np.inf
                    continue
                if mode == "NONE" and nb is not None and xi - 4.5 * dxm < nb:
                    skip[idx] = True  # stencil reaches the NaN region: no finite reference
                    exp[idx] = 0.0
                    tol[idx] = np.inf
                    continue
                e = np.asarray(self._g(tab, mode, edge, np.array(xi), n), dtype=float)
                t_best = None
                for dx in dxs:
                    ys = xi + dx * np.array([-2.0, -1.0, 0.0, 1.0, 2.0])
                    gv = self._g(tab, mode, edge, ys, 0)
                    mh = self._m_bound(n + 4, xi - 4.5 * dx, xi + 4.5 * dx) if mode == "NONE" else 0.0
                    t = self._fd_tol(gv, mh, n, dx)
                    if edge is not None and abs(xi - edge) < TOLERANCES["near_edge_halfwidth_dx"] * dx:
                        near[idx] = True
                        # stencil points that fall inside the table see the spline, not g: the finite
                        # difference changes by at most sum|c_k| max|S-g| / dx^n over those points
                        inside_pts = ys[(ys >= tab.rmin) & (ys <= tab.rmax)]
                        csum = 1.5 if n == 1 else 64.0 / 12.0
                        if inside_pts.size:
                            dev = np.max(np.abs(np.asarray(tab.S(inside_pts), dtype=float)
                                                - np.asarray(self._g(tab, mode, edge, inside_pts, 0), dtype=float)),
                                         axis=0)
                            t = t + 1.2 * csum * dev / dx ** n
                        t = t + TOLERANCES["fd_factor"] * TOLERANCES["fd_eval_eps"] * tab.scale * csum / dx ** n
                    t_best = t if t_best is None else np.maximum(t_best, t)
                exp[idx] = e
                tol[idx] = t_best + 1e-12 * (1.0 + np.abs(e))
            else:
                e = np.asarray(tab.S(np.array(xi), n), dtype=float)
                exp[idx] = e
                tol[idx] = 1e-10 * (1.0 + np.abs(e))
        return exp, tol, skip, near

    @staticmethod
    def _close(got, exp, tol):
        with np.errstate(invalid="ignore"):
            both_nan = np.isnan(got) & np.isnan(exp)
            return both_nan | (np.abs(got - exp) <= tol)

    def _expects_error(self, below, above, direct):
        if direct:
            return False
        return bool((below.any() and self.lo == "ERROR") or (above.any() and self.hi == "ERROR"))

    def _eval_batches(self, xa, below, above, direct):
        """Batches WallGo documents as scheduled for an evaluate call, in order."""
        if direct:
            return [np.ravel(xa)]
        if self.lo == "ERROR" and self.hi == "ERROR":
            return []
        if self.lo == "NONE" and self.hi == "NONE":
            return [np.ravel(xa[below | above])] if (below | above).any() else []
        out = []
        if below.any():
            if self.lo == "ERROR":
                return out
            if self.lo == "NONE":
                out.append(np.ravel(xa[below]))
        if above.any() and self.hi == "NONE":
            out.append(np.ravel(xa[above]))
        return out

    def _tree_valid(self, b):
        """Valid points of one batch as the unchanged tree counts them (R=1: all-or-nothing)."""
        valid, had_nan = self._valid_unique(b)
        return [] if (self.R == 1 and had_nan) else valid.tolist()

    def _sim_fires(self, batches):
        """Predicted classes of the adaptive updates of this step (None if the counters cannot be observed).

        Both validity conventions are simulated (all-or-nothing for scalar batches as in the unchanged tree,
        and point by point as the property states); the union of the predicted updates is returned."""
        if self._peek is None or self._peek_count is None:
            return None
        old = self._tab_before if self._had_before else None
        rng = (old.rmin, old.rmax) if old is not None else None
        out = simulate_updates(self._peek_count, self._peek, batches, rng, self.T, self.N0, self._tree_valid)
        if self.R == 1 and self.nan_below is not None:
            out = out + simulate_updates(self._peek_count, self._peek, batches, rng, self.T, self.N0,
                                         lambda b: self._valid_unique(b)[0].tolist())
        return out

    def _deriv_sim_batches(self, tab, xa, n, dx, below, above, direct):
        """Stencil batches a derivative call schedules in the unchanged tree (f is called twice)."""
        if direct or (self.lo == "NONE" and self.hi == "NONE"):
            pts = stencil_points(xa, n, dx)
        else:
            sel = (below & (self.lo == "NONE")) | (above & (self.hi == "NONE"))
            pts = stencil_points(xa[sel], n, dx) if sel.any() else np.array([])
            if tab is not None and pts.size:
                keep = np.zeros(pts.shape, dtype=bool)
                if self.lo == "NONE":
                    keep |= pts <= tab.rmin
                if self.hi == "NONE":
                    keep |= pts >= tab.rmax
                pts = pts[keep]
        return [pts, pts] if pts.size else []

    def _adaptive_exc_cls(self, exc, batches, variants=None):
        """Class string of an exception raised inside an adaptive update."""
        fires = []
        for bt in ([batches] + list(variants or [])):
            fires = self._sim_fires(bt) or []
            if any(f[0] in ("overrun", "tiny", "degenerate") or f[1] == "tiny" for f in fires):
                break
        bad = [f for f in fires if f[0] in ("overrun", "tiny", "degenerate") or f[1] == "tiny"]
        lower, upper = (bad or fires or [("unknown", "unknown")])[0 if bad else -1]
        pend = list(self._peek or [])
        for b in batches:
            pend.extend(self._tree_valid(b))
        nan = int(self.nan_below is not None and bool(pend) and min(pend) < self.nan_below)
        return f"op=adaptive R={self.Rc} nan={nan} lower={lower} upper={upper} exc={type(exc).__name__}"

    # -- evaluate -------------------------------------------------------------------
    def op_evaluate(self, s):
        x = build_x(s)
        xa = np.asarray(x, dtype=float)
        self.last_eval = (s["shape"], s.get("dims"), list(s["x"]), s.get("dtype", "float"))
        interp = bool(s.get("interp", True))
        tab0 = self.tab if self.has_table() else None
        below, above, direct = self._masks(tab0, xa, interp)
        region = self._region(below, above, direct)
        shape = {"scalar": "0d", "list": "list", "1d": "1d", "2d": "2d"}[s["shape"]]
        pair = f"{self.lo}/{self.hi}"
        dt = s.get("dtype", "float")
        dtc = "" if dt == "float" else f" dtype={'int' if dt in ('int', 'int32') else dt}"
        self.lab(f"shape:{shape}", f"eval-region:{region}", f"dtype:{dt}")
        if dt != "float":
            self.lab(f"eval-{dt}:{shape}-{region}", f"eval-nonfloat-pair:{pair}" if region != "inside" else None)
        want_err = self._expects_error(below, above, direct)
        batches = self._eval_batches(xa, below, above, direct) if self.adaptive else []
        has_out = region in ("mixed", "below", "above", "bothout")
        if has_out:
            self.lab(f"eval-pair:{pair}")
            if self.table_changes > 0:
                self.nontrivial = True
        res = exc = None
        try:
            res = self.f(x, interp) if s.get("call", "call") == "call" else self.f.evaluate(x, interp)
        except Exception as e:  # noqa: BLE001
            exc = e
        for b in batches:
            # if the call ends in the documented ValueError, whether the batches evaluated before it were
            # already handed to the adaptive update is not fixed by the documentation
            self._sched(b, certain=not (want_err and exc is not None))
        self._sim_batches = batches
        self._sim_candidates = [np.ravel(xa)]
        if exc is not None:
            if isinstance(exc, ValueError) and want_err and not _exc_through(exc, "_adaptiveInterpolationUpdate"):
                self.chk("eval-error-mode")
                self.lab("outcome:ValueError-in-ERROR-mode")
                self._post_step("evaluate", may_fire_op=True)
                return
            if _exc_through(exc, "_adaptiveInterpolationUpdate"):
                self.fail("table-build-exception", self._adaptive_exc_cls(exc, batches),
                          f"adaptive update raised {type(exc).__name__}: {exc}")
                return
            sub = "out-of-range-exception" if has_out else "inside-exception"
            self.fail(sub, f"call=evaluate R={self.Rc} pair={pair} exc={type(exc).__name__}{dtc}",
                      f"evaluate raised {type(exc).__name__}: {exc}", x=s["x"], input=f"{shape}-{region}")
            return
        if want_err:
            self.chk("eval-error-mode")
            self.fail("eval-error-mode", f"call=evaluate R={self.Rc} pair={pair}",
                      "no ValueError although an entry lies on a side in ERROR mode", x=s["x"],
                      input=f"{shape}-{region}")
            return
        fired = self._post_step("evaluate", may_fire_op=True)
        if self.dead:
            return
        got = np.asarray(res, dtype=float)
        self.chk("eval-shape")
        want_shape = xa.shape + ((self.R,) if self.R > 1 else ())
        if got.shape != want_shape:
            self.fail("eval-shape", f"R={self.Rc} input={shape}{dtc}",
                      f"result shape {got.shape}, expected {want_shape}")
            return
        exp, tol, kind = self._expect_eval(tab0, xa, interp)
        ok = self._close(got, exp, tol)
        if fired and self.tab is not None and tab0 is not None:
            exp2, tol2, _ = self._expect_eval(self.tab, xa, interp)
            ok = ok | self._close(got, exp2, tol2)
        for k, sub in ((0, "eval-direct"), (1, "eval-inside"), (2, "out-of-range-value"), (3, "out-of-range-value")):
            m = kind == k
            if not m.any():
                continue
            self.chk(sub)
            okk = ok[m]
            if np.all(okk):
                continue
            j = int(np.argmin(okk.reshape(okk.shape[0], -1).all(axis=1)))
            xj = float(xa[m][j])
            if k >= 2:
                side, mode = ("lower", self.lo) if k == 2 else ("upper", self.hi)
                cls = (f"call=evaluate R={self.Rc} side={side} mode={mode} "
                       f"update={'midcall' if fired else 'none'}{dtc}")
            else:
                cls = f"call=evaluate R={self.Rc}{dtc}"
            self.fail(sub, cls,
                      f"at x={xj!r}: got {np.asarray(got[m][j]).tolist()!r}, expected "
                      f"{np.asarray(exp[m][j]).tolist()!r}", pair=pair, input=f"{shape}-{region}")
            return
        # agreement with f inside the table
        m = kind == 1
        bound = self._spline_bound(tab0) if (m.any() and tab0 is not None and tab0.n >= 4 and not fired) else None
        if bound is not None:
            self.chk("eval-accuracy")
            err = np.abs(got[m] - f_exact(self.init, xa[m]))
            self.track("eval_accuracy_err_over_bound", np.max(err / bound))
            if not np.all(err <= bound):
                w = np.unravel_index(int(np.argmax(err / bound)), err.shape)
                bw = float(np.broadcast_to(bound, err.shape)[w])
                self.fail("eval-accuracy", f"R={self.Rc}",
                          f"interpolated value differs from f by {float(err[w]):.3e} (bound {bw:.3e}, component "
                          f"{self.init['comps'][w[-1]] if self.R > 1 else self.init['comps'][0]}; n={tab0.n}, "
                          f"h_max={tab0.hmax:.3g}, h_min={tab0.hmin:.3g})")

    # -- derivative -------------------------------------------------------------------
    def op_derivative(self, s):
        x = build_x(s)
        xa = np.asarray(x, dtype=float)
        n = int(s["order"])
        interp = bool(s.get("interp", True))
        eps, scale = float(s.get("eps", 1e-16)), float(s.get("scale", 1.0))
        tab0 = self.tab if self.has_table() else None
        below, above, direct = self._masks(tab0, xa, interp)
        region = self._region(below, above, direct)
        shape = {"scalar": "0d", "list": "list", "1d": "1d", "2d": "2d"}[s["shape"]]
        pair = f"{self.lo}/{self.hi}"
        dx_args = fd_dx(n, eps, scale)
        # without a table the step comes from epsilon/scale (older trees ignored them there): both accepted
        dxs = sorted({fd_dx(n, 1e-16, 1.0), dx_args}) if direct else [dx_args]
        dt = s.get("dtype", "float")
        dtc = "" if dt == "float" else f" dtype={'int' if dt in ('int', 'int32') else dt}"
        self.lab(f"shape:{shape}", f"deriv-region:{region}", f"deriv-order:{n}", f"dtype:{dt}")
        if dt != "float":
            self.lab(f"deriv-{dt}:{shape}-{region}")
        want_err = self._expects_error(below, above, direct)
        has_out = region in ("mixed", "below", "above", "bothout")
        if has_out:
            self.lab(f"deriv-pair:{pair}")
            if self.table_changes > 0:
                self.nontrivial = True
        exp, tol, skip, near = self._expect_deriv(tab0, xa, interp, n, dxs)
        narrow = bool(tab0 is not None and not direct and (tab0.rmax - tab0.rmin) < 5.0 * max(dxs))
        if narrow and has_out:
            # the stencil of an outside entry reaches across the whole table to the other side: which
            # prescription applies to which stencil point is not fixed by the property -> not asserted
            skip = skip | below | above
            self.lab("deriv-skip:table-narrower-than-stencil")
        dist = "near" if near.any() else "far"
        if has_out:
            self.lab(f"deriv-dist:{dist}")
        kwargs = {}
        if "eps" in s or "scale" in s:
            kwargs = {"epsilon": eps, "scale": scale}
        res = exc = None
        try:
            res = self.f.derivative(x, n, interp, **kwargs)
        except Exception as e:  # noqa: BLE001
            exc = e
        # stencil evaluations may be scheduled: the count is not documented -> bounds only
        sched = []
        if self.adaptive:
            if direct:
                sched = [np.ravel(xa)]
            else:
                none_side = (below & (self.lo == "NONE")) | (above & (self.hi == "NONE"))
                if none_side.any():
                    sched = [np.ravel(xa)]
        for b in sched:
            self._sched(b, certain=False, factor=10)
        if sched:
            self._sim_batches = self._deriv_sim_batches(tab0, xa, n, dxs[0], below, above, direct)
            self._sim_candidates = [np.ravel(xa)] + [stencil_points(xa, n, dx) for dx in set(dxs + [dx_args])]
        if exc is not None:
            if isinstance(exc, ValueError) and (want_err or (narrow and has_out and "ERROR" in (self.lo, self.hi))) \
                    and not _exc_through(exc, "_adaptiveInterpolationUpdate"):
                self.chk("deriv-error-mode")
                self.lab("outcome:ValueError-in-ERROR-mode")
                self._post_step("derivative", may_fire_op=True)
                return
            if _exc_through(exc, "_adaptiveInterpolationUpdate"):
                self.fail("table-build-exception",
                          self._adaptive_exc_cls(
                              exc, self._deriv_sim_batches(tab0, xa, n, dxs[0], below, above, direct),
                              [self._deriv_sim_batches(tab0, xa, n, dx, below, above, direct) for dx in dxs[1:]]),
                          f"adaptive update raised {type(exc).__name__}: {exc}")
                return
            sub = "out-of-range-exception" if has_out else "inside-exception"
            icls = "mixed" if region == "mixed" else ("2d-out" if (shape == "2d" and has_out) else
                                                      ("out" if has_out else region))
            self.fail(sub, f"call=derivative R={self.Rc} pair={pair} input={icls} exc={type(exc).__name__}{dtc}",
                      f"derivative(order={n}) raised {type(exc).__name__}: {exc}", x=s["x"],
                      input=f"{shape}-{region}")
            return
        if want_err:
            self.chk("deriv-error-mode")
            self.fail("deriv-error-mode", f"call=derivative R={self.Rc} pair={pair}",
                      "no ValueError although an entry lies on a side in ERROR mode", x=s["x"],
                      input=f"{shape}-{region}")
            return
        fired = self._post_step("derivative", may_fire_op=True)
        if self.dead:
            return
        got = np.asarray(res, dtype=float)
        self.chk("deriv-shape")
        want_shape = xa.shape + ((self.R,) if self.R > 1 else ())
        if got.shape != want_shape:
            self.fail("deriv-shape", f"R={self.Rc} input={shape}{dtc}",
                      f"result shape {got.shape}, expected {want_shape}")
            return
        ok = self._close(got, exp, tol)
        if fired:
            # the table changed between the two stencil evaluations of this very call: the reference for
            # the finite-difference entries is ambiguous (old table, new table or a blend) -> not asserted
            skip = skip | (below | above) | direct
            self.lab("deriv-skip:update-mid-call")
        okx = ok.reshape(xa.shape + (-1,)).all(axis=-1) | skip
        if skip.any():
            self.lab("deriv-skip:stencil-reaches-nan")
        with np.errstate(invalid="ignore", divide="ignore"):
            r = np.abs(got - exp) / tol
        r = r.reshape(xa.shape + (-1,)).max(axis=-1) if r.size else r
        out = (below | above) if not direct else np.ones(xa.shape, dtype=bool)
        if (out & ~skip).any():
            self.track("deriv_out_err_over_tol", np.nanmax(np.where(out & ~skip, r, 0.0)))
        inside = ~out
        for m, sub in ((inside, "deriv-inside"), (out, "out-of-range-value" if not direct else "deriv-direct")):
            if not m.any():
                continue
            self.chk(sub)
            bad = m & ~okx
            if not bad.any():
                continue
            idx = tuple(int(t[0]) for t in np.nonzero(bad)) if xa.ndim else ()
            xj = float(xa[idx])
            if sub == "out-of-range-value":
                side, mode = ("lower", self.lo) if below[idx] else ("upper", self.hi)
                nr = "near" if near[idx] else "far"
                cls = f"call=derivative R={self.Rc} pair={pair} side={side} mode={mode} dist={nr}{dtc}"
            else:
                cls = f"call=derivative R={self.Rc} order={n}{dtc}"
            self.fail(sub, cls,
                      f"order {n} at x={xj!r}: got {np.asarray(got[idx]).tolist()!r}, expected "
                      f"{np.asarray(exp[idx]).tolist()!r} (tolerance {np.asarray(tol[idx]).tolist()!r})",
                      pair=pair, dx=dxs, input=f"{shape}-{region}")
            return

    # -- table-changing steps -----------------------------------------------------------
    def _grid_has_nan(self, xs):
        xs = np.asarray(xs, dtype=float)
        return int(self.nan_below is not None and xs.size > 0 and bool(np.any(xs < self.nan_below)))

    def _check_linspace_table(self, op, a, b, n):
        """Table must consist of exactly the finite rows of linspace(a, b, n)."""
        if not (self.observable and self.tab is not None):
            return
        self.chk("table-grid")
        grid = np.linspace(a, b, n)
        fx = f_exact(self.init, grid)
        ok = np.isfinite(fx) if self.R == 1 else np.all(np.isfinite(fx), axis=-1)
        want = grid[ok]
        t = self.tab
        if t.n != len(want) or not np.allclose(t.pts, want, rtol=1e-14, atol=1e-14):
            self.fail("table-grid", f"op={op} R={self.Rc} nan={int(not np.all(ok))}",
                      f"table has {t.n} abscissae in [{t.rmin!r}, {t.rmax!r}]; expected the {len(want)} "
                      f"finite rows of linspace({a!r}, {b!r}, {n}) ({int((~ok).sum())} rows are NaN)")

    def op_new_table(self, s):
        a, b, n = float(s["a"]), float(s["b"]), int(s["n"])
        nan = self._grid_has_nan(np.linspace(a, b, n))
        self.lab(f"table-nan-rows:{nan}")
        self._spacing_excused = abs(b - a) / max(1, n - 1) < TOLERANCES["requested_gap_rel"] * (1 + abs(a))
        try:
            self.f.newInterpolationTable(a, b, n)
        except Exception as e:  # noqa: BLE001
            self.fail("table-build-exception", f"op=newTable R={self.Rc} nan={nan} exc={type(e).__name__}",
                      f"newInterpolationTable({a!r}, {b!r}, {n}) raised {type(e).__name__}: {e}")
            return
        self._uncertain()  # whether a new table clears pending evaluations is not documented
        self._post_step("newTable")
        if not self.dead:
            self._check_linspace_table("newTable", a, b, n)

    def op_from_values(self, s):
        """newInterpolationTableFromValues(x, fx) with values the caller computed (this is how FreeEnergy.tracePhase
        installs its tables), after which the caller re-uses its own buffers.  The function keeps what it was given."""
        a, b, n = float(s["a"]), float(s["b"]), int(s["n"])
        x = np.linspace(a, b, n)
        fx = f_exact(self.init, x)
        nan = self._grid_has_nan(x)
        self.lab(f"table-nan-rows:{nan}", f"fromValues:{s['as']}", f"fromValues-scribble:{bool(s['scribble'])}")
        self._spacing_excused = abs(b - a) / max(1, n - 1) < TOLERANCES["requested_gap_rel"] * (1 + abs(a))
        xin, fin = (x.copy(), fx.copy()) if s["as"] == "array" else (x.tolist(), fx.tolist())
        try:
            self.f.newInterpolationTableFromValues(xin, fin)
        except Exception as e:  # noqa: BLE001
            self.fail("table-build-exception", f"op=fromValues R={self.Rc} nan={nan} as={s['as']} exc={type(e).__name__}",
                      f"newInterpolationTableFromValues(linspace({a!r}, {b!r}, {n}), f(x)) raised {type(e).__name__}: {e}")
            return
        if s["scribble"] and s["as"] == "array":
            xin[:] = 1.0e30          # the caller's buffers are the caller's: re-used for something else
            fin[...] = -7.0e30
        self._uncertain()  # whether a new table clears pending evaluations is not documented
        self._post_step("fromValues")
        if not self.dead:
            self._check_linspace_table("fromValues", a, b, n)

    def op_extend(self, s):
        new_min, new_max = float(s["newMin"]), float(s["newMax"])
        p_min, p_max = int(s["pMin"]), int(s["pMax"])
        old = self.tab if self.has_table() else None
        if old is None:
            grid = np.linspace(new_min, new_max, p_min + p_max)
            lower, upper = "create", "create"
        else:
            lower_on = new_min < old.rmin and p_min > 0
            grid = (new_min + np.arange(p_min) * (old.rmin - new_min) / p_min) if lower_on else np.array([])
            lower = side_class(old.rmin, new_min, p_min, -1.0)
            upper = side_class(old.rmax, new_max, p_max, 1.0)
        nan = self._grid_has_nan(grid)
        self.lab(f"extend-lower:{lower}", f"extend-upper:{upper}", f"table-nan-rows:{nan}")
        rq = TOLERANCES["requested_gap_rel"]
        if old is not None:
            self._spacing_excused = bool(
                (new_min < old.rmin and p_min > 0 and (old.rmin - new_min) / p_min < rq * (1 + abs(old.rmin)))
                or (new_max > old.rmax and p_max > 0 and (new_max - old.rmax) / p_max < rq * (1 + abs(old.rmax))))
        else:
            self._spacing_excused = abs(new_max - new_min) / max(1, p_min + p_max - 1) < rq * (1 + abs(new_min))
        try:
            self.f.extendInterpolationTable(new_min, new_max, p_min, p_max)
        except Exception as e:  # noqa: BLE001
            self.fail("table-build-exception",
                      f"op=extend R={self.Rc} nan={nan} lower={lower} upper={upper} exc={type(e).__name__}",
                      f"extendInterpolationTable({new_min!r}, {new_max!r}, {p_min}, {p_max}) raised "
                      f"{type(e).__name__}: {e}")
            return
        if old is None:
            self._uncertain()
        else:
            self._reset_counters()  # "NB: This will reset internally accumulated data of adaptive interpolation."
        self._post_step("extend")
        if self.dead or not self.observable or self.tab is None:
            return
        if old is None:
            self._check_linspace_table("extend", new_min, new_max, p_min + p_max)
            return
        self.chk("table-grid")
        t = self.tab
        cls = f"op=extend R={self.Rc} nan={nan} lower={lower} upper={upper}"
        lo_new = t.pts[t.pts < old.rmin]
        hi_new = t.pts[t.pts > old.rmax]
        keep = (t.pts >= old.rmin) & (t.pts <= old.rmax)
        if keep.sum() != old.n or not np.array_equal(t.pts[keep], old.pts) \
                or not np.array_equal(t.vals[keep], old.vals):
            self.fail("table-grid", cls, "rows of the previous table were lost or altered by the extension")
            return
        msgs = []
        if lower == "tiny":
            pass  # a block narrower than rounding: only the invariants and the accuracy are asserted
        elif lower == "none":
            if len(lo_new):
                msgs.append(f"{len(lo_new)} rows appended below although newMin >= rangeMin or pointsMin = 0")
        else:
            okg = grid >= self.nan_below if self.nan_below is not None else np.ones(len(grid), dtype=bool)
            slack = int(self.nan_below is not None and np.any(np.abs(grid - self.nan_below) < 1e-9))
            nwant = int(okg.sum())
            if not (nwant - slack <= len(lo_new) <= nwant + slack + (1 if lower == "overrun" else 0)):
                msgs.append(f"{len(lo_new)} rows appended below, expected {nwant} finite rows of the "
                            f"{p_min}-point block starting at newMin")
            if nwant and len(lo_new) and okg[0] and lo_new[0] != new_min:
                msgs.append(f"lowest abscissa {lo_new[0]!r} is not newMin {new_min!r}")
            if len(lo_new) and lo_new[0] < new_min:
                msgs.append(f"abscissa {lo_new[0]!r} below newMin {new_min!r}")
        if upper == "tiny":
            pass
        elif upper == "none":
            if len(hi_new):
                msgs.append(f"{len(hi_new)} rows appended above although newMax <= rangeMax or pointsMax = 0")
        else:
            sp = (new_max - old.rmax) / p_max
            tolr = TOLERANCES["range_reach_rel"] * (1.0 + abs(new_max))
            if not (p_max <= len(hi_new) <= p_max + 1):
                msgs.append(f"{len(hi_new)} rows appended above, expected {p_max} (or {p_max + 1} by rounding)")
            elif hi_new[-1] < new_max - tolr or hi_new[-1] > new_max + sp + tolr:
                msgs.append(f"largest abscissa {hi_new[-1]!r} does not reach / overshoots newMax {new_max!r}")
        if msgs:
            self.fail("table-grid", cls, "; ".join(msgs))

    def op_set_modes(self, s):
        lo, hi = s["lo"], s["hi"]
        old = self.tab if self.has_table() else None
        self._spacing_excused = True  # the abscissae are not chosen by this step
        try:
            self.f.setExtrapolationType(mode_enum(lo), mode_enum(hi))
        except Exception as e:  # noqa: BLE001
            self.fail("table-build-exception", f"op=setModes R={self.Rc} nan=0 exc={type(e).__name__}",
                      f"setExtrapolationType({lo}, {hi}) raised {type(e).__name__}: {e}")
            return
        self.lo, self.hi = lo, hi
        self.lab(f"pair-set:{lo}/{hi}")
        self._post_step("setModes")
        if not self.dead and old is not None and self.tab is not None:
            if self.tab.n != old.n or not np.array_equal(self.tab.pts, old.pts) \
                    or not np.array_equal(self.tab.vals, old.vals):
                self.fail("table-grid", f"op=setModes R={self.Rc}", "changing the modes altered the table")

    def op_adaptive(self, s):
        on = bool(s["on"])
        if on:
            self.f.enableAdaptiveInterpolation()
            self._reset_counters()  # "Will clear internal work arrays."
        else:
            self.f.disableAdaptiveInterpolation()
        self.adaptive = on
        self._post_step("adaptive")

    def op_schedule(self, s):
        x = build_x(s)
        xa = np.asarray(x, dtype=float)
        if s.get("dtype", "float") != "float":
            self.lab(f"schedule-dtype:{s['dtype']}")
        fx = f_exact(self.init, xa)
        exc = None
        try:
            self.f.scheduleForInterpolation(x, fx)
        except Exception as e:  # noqa: BLE001
            exc = e
        # scheduleForInterpolation is public and accumulates regardless of the adaptive flag
        self._sched(np.ravel(xa), certain=self.adaptive)
        self._sim_batches = [np.ravel(xa)]
        self._sim_candidates = [np.ravel(xa)]
        if exc is not None:
            if _exc_through(exc, "_adaptiveInterpolationUpdate"):
                self.fail("table-build-exception", self._adaptive_exc_cls(exc, [np.ravel(xa)]),
                          f"adaptive update raised {type(exc).__name__}: {exc}")
            else:
                self.fail("inside-exception", f"call=schedule R={self.Rc} exc={type(exc).__name__}",
                          f"scheduleForInterpolation raised {type(exc).__name__}: {exc}")
            return
        self._post_step("schedule", may_fire_op=True)

    # -- write + read ----------------------------------------------------------------
    def op_roundtrip(self, s):
        if not self.has_table() or self.tab is None:
            self.lab("roundtrip:no-table")
            return
        old = self.tab
        if old.hmin < 1e-12 * (1.0 + max(abs(old.rmin), abs(old.rmax))):
            # abscissae closer than the 15 digits of the file format (only reachable through a requested
            # block narrower than rounding): the file cannot represent the table
            self.lab("roundtrip:skipped-near-duplicate")
            return
        fd, path = tempfile.mkstemp(prefix="c18_", suffix=".txt")
        os.close(fd)
        try:
            g = make_function(self.init)
            try:
                self.f.writeInterpolationTable(path)
                g.setExtrapolationType(mode_enum(self.lo), mode_enum(self.hi))
                if not self.adaptive:
                    g.disableAdaptiveInterpolation()
                elif not self.init["adaptive"]:
                    g.enableAdaptiveInterpolation()
                g.readInterpolationTable(path)
            except Exception as e:  # noqa: BLE001
                self.fail("roundtrip", f"R={self.Rc} exc={type(e).__name__}",
                          f"write/read raised {type(e).__name__}: {e}")
                return
        finally:
            try:
                os.unlink(path)
            except OSError:
                pass
        self.chk("roundtrip")
        cls = f"R={self.Rc} table"
        if not g.hasInterpolation():
            self.fail("roundtrip", cls, "the object that read the file has no interpolation table")
            return
        p2 = np.asarray(getattr(g, "_interpolationPoints", old.pts), dtype=float)
        w2 = np.asarray(getattr(g, "_interpolationValues", old.vals), dtype=float)
        if g.numPoints() != old.n or p2.shape != old.pts.shape or w2.shape != old.vals.shape:
            self.fail("roundtrip", cls, f"{g.numPoints()} points read back, {old.n} written")
            return
        rel = TOLERANCES["roundtrip_rel"]
        if not np.allclose(p2, old.pts, rtol=1e-14, atol=1e-300) or \
                not np.allclose(w2, old.vals, rtol=1e-14, atol=1e-300):
            self.fail("roundtrip", cls, "abscissae/values read back differ from those written by more than "
                                        "%.15g rounding")
            return
        # the same function: compare evaluations strictly inside both ranges
        a = max(old.rmin, float(g.interpolationRangeMin()))
        b = min(old.rmax, float(g.interpolationRangeMax()))
        us = [0.03, 0.11, 0.29, 0.5, 0.62, 0.87, 0.97] + [float(u) for u in s.get("u", [])]
        xs = a + (b - a) * np.array(us)
        xs = xs[(xs > a) & (xs < b)]
        y1 = np.asarray(self.f.evaluateInterpolation(xs), dtype=float)
        try:
            y2 = np.asarray(g(xs), dtype=float)
        except Exception as e:  # noqa: BLE001
            self.fail("roundtrip", f"R={self.Rc} exc={type(e).__name__}",
                      f"evaluating the re-read function raised {type(e).__name__}: {e}")
            return
        slope = np.max(np.abs(old.S(old.pts, 1)))
        sc = float(np.max(np.abs(old.vals)) + max(abs(old.rmin), abs(old.rmax)) * slope) + 1e-300
        err = float(np.max(np.abs(y1 - y2))) if y1.size else 0.0
        ratio = old.hmax / old.hmin
        if ratio > TOLERANCES["accuracy_mesh_ratio_cap"]:
            self.lab("roundtrip:values-skipped-mesh-ratio")
            return
        sc *= max(1.0, ratio) ** 3  # knots and values move by 1e-15; amplification as for spline_floor_ratio3
        self.track("roundtrip_err_over_tol", err / (rel * sc))
        if y1.shape != y2.shape or err > rel * sc:
            self.fail("roundtrip", f"R={self.Rc} values",
                      f"re-read function differs by {err:.3e} (scale {sc:.3g}) from the original inside the table")
            return
        if s.get("adopt"):
            self.f = g
            self.tab = None
            self._reset_counters()
            self.lab("roundtrip:adopted")
            self._spacing_excused = True
            self._post_step("read")
        else:
            self.lab("roundtrip:compared")

    # -- dispatch ---------------------------------------------------------------------
    OPS = {
        "newTable": op_new_table, "fromValues": op_from_values, "extend": op_extend, "setModes": op_set_modes,
        "evaluate": op_evaluate, "derivative": op_derivative, "adaptive": op_adaptive,
        "schedule": op_schedule, "roundtrip": op_roundtrip,
    }

    def apply(self, step):
        if self.dead:
            return
        self.nsteps += 1
        op = step["op"]
        tag = step.get("tag", op)
        self.ops.append(tag)
        self.lab(f"op:{tag}")
        if step.get("avoided"):
            for a in step["avoided"]:
                self.v.label(f"avoided:{a}")
        self._begin_step()
        Runner.OPS[op](self, step)

    def finish(self):
        v = self.v
        v.nontrivial = bool(self.nontrivial)
        self.lab(f"R={self.R}", f"nan-threshold:{int(self.nan_below is not None)}",
                 f"adaptive-init:{int(bool(self.init['adaptive']))}",
                 f"steps:{min(self.nsteps // 5 * 5, 30)}+",
                 f"table-changes:{min(self.table_changes, 6)}")
        for a, b in zip(self.ops, self.ops[1:]):
            self.lab(f"2g:{a}>{b}")
        for a, b, c in zip(self.ops, self.ops[1:], self.ops[2:]):
            if "evaluate" in (a, b, c) or "derivative" in (a, b, c):
                self.lab(f"3g:{a}>{b}>{c}")
        if not self.observable:
            self.lab("skipped:table-not-observable")
        for a in self.init.get("avoided", []):
            v.label(f"avoided:{a}")
        v.label(*sorted(self.labels))
        v.info.update(self.info)


def check_case(case) -> Verdict:
    v = Verdict()
    if case.get("kind") != "history":
        raise ValueError(f"unknown case kind {case.get('kind')!r}")
    r = Runner(case["init"], v)
    for step in case["steps"]:
        r.apply(step)
        if r.dead:
            break
    r.finish()
    return v


# ---------------------------------------------------------------------------
# generation (all randomness through `draw`; values are placed relative to the table observed now)
# ---------------------------------------------------------------------------
SHAPES = ["scalar", "list", "1d", "2d"]
EVAL_REGIONS = ["inside", "edge", "below", "above", "bothout", "mixed", "mixed"]
UNIFORM_PAIRS = (("NONE", "NONE"), ("ERROR", "ERROR"))


@st.composite
def st_init(draw):
    R = draw(st.integers(1, 4))
    comps = draw(st.permutations(COMPONENTS))[:R]
    nan_below = draw(st.one_of(st.none(), st.floats(-4.0, 4.0).map(lambda t: round(t, 3))))
    init = {
        "comps": list(comps),
        "nan_below": nan_below,
        "nan_comp": draw(st.integers(0, 3)) % R,
        "adaptive": draw(st.booleans()),
        "threshold": draw(st.integers(5, 20)),
        "npoints0": draw(st.sampled_from([4, 5, 8, 10, 20, 40])),
    }
    if R > 1 and draw(st.integers(0, 3)) == 0:
        init["empty_like_freeenergy"] = True
    if R == 1 and nan_below is not None and AVOID["r1_nan_drop"]:
        init["nan_below"] = None
        init["avoided"] = ["D2-r1-nan-drop"]
    return init


def _shape_dims(draw, shape):
    if shape == "scalar":
        return 1, None
    if shape in ("list", "1d"):
        return draw(st.integers(1, 6)), None
    dims = [draw(st.integers(1, 3)), draw(st.integers(1, 4))]
    return dims[0] * dims[1], dims


def _inside_point(draw, r):
    t = r.tab
    how = draw(st.sampled_from(["u", "u", "u", "knot", "edge"]))
    if how == "knot":
        return float(t.pts[draw(st.integers(0, t.n - 1))])
    if how == "edge":
        return float(draw(st.sampled_from([t.rmin, t.rmax])))
    u = draw(st.floats(0.0, 1.0))
    return float(min(max(t.rmin + u * (t.rmax - t.rmin), t.rmin), t.rmax))


def _outside_point(draw, r, side, near_dx=None):
    t = r.tab
    edge = t.rmin if side == "below" else t.rmax
    sgn = -1.0 if side == "below" else 1.0
    how = draw(st.sampled_from(["far", "far", "far", "ulp"] + (["near", "near"] if near_dx else [])))
    if how == "ulp" and AVOID["extend_grid"] and r.adaptive and (r.lo if side == "below" else r.hi) == "NONE":
        how = "far"  # a pending point one ulp outside makes the next adaptive extension degenerate (D5)
    if how == "ulp":
        if edge == 0.0:
            return sgn * 1e-22  # nextafter(0) is subnormal: 1/dx overflows inside scipy, not a sane abscissa
        return float(np.nextafter(edge, sgn * np.inf))
    if how == "near":
        d = near_dx * draw(st.floats(0.01, 2.0))
    else:
        d = 10.0 ** draw(st.floats(-1.5, 0.5))
    x = edge + sgn * d
    if not (x < t.rmin or x > t.rmax):  # d vanished by rounding
        x = float(np.nextafter(edge, sgn * np.inf)) if edge != 0.0 else sgn * 1e-22
    return float(x)


def _points(draw, r, region, count, near_dx=None):
    """`count` floats of the requested region class (no table: anywhere in [-6, 6])."""
    if not r.has_table() or r.tab is None:
        return [round(draw(st.floats(-6.0, 6.0)), 6) for _ in range(count)]
    t = r.tab
    xs = []
    for i in range(count):
        if region == "inside":
            kind = "in"
        elif region == "edge":
            kind = "edge"
        elif region in ("below", "above"):
            kind = region
        elif region == "bothout":
            kind = ["below", "above"][i % 2] if count > 1 else draw(st.sampled_from(["below", "above"]))
        else:  # mixed
            kind = "in" if i == 0 else ("out" if i == 1 else draw(st.sampled_from(["in", "out"])))
            if count == 1:
                kind = draw(st.sampled_from(["in", "out"]))
            if kind == "out":
                kind = draw(st.sampled_from(["below", "above"]))
        if kind == "in":
            xs.append(_inside_point(draw, r))
        elif kind == "edge":
            xs.append(float(draw(st.sampled_from([t.rmin, t.rmax, float(t.pts[draw(st.integers(0, t.n - 1))])]))))
        else:
            xs.append(_outside_point(draw, r, kind, near_dx))
    if region in ("mixed", "bothout") and count > 1:
        xs = list(draw(st.permutations(xs)))
    return xs


def _points_int(draw, r, region, count):
    """`count` Python ints of the requested region class (falls back to the nearest class that has integers)."""
    if not r.has_table() or r.tab is None:
        return [draw(st.integers(-6, 6)) for _ in range(count)]
    t = r.tab
    lo_in, hi_in = math.ceil(t.rmin), math.floor(t.rmax)       # integers inside (if lo_in <= hi_in)
    b0 = math.ceil(t.rmin) - 1                                   # largest integer below the table
    a0 = math.floor(t.rmax) + 1                                  # smallest integer above the table
    xs = []
    for i in range(count):
        if region in ("inside", "edge"):
            kind = "in"
        elif region in ("below", "above"):
            kind = region
        elif region == "bothout":
            kind = ["below", "above"][i % 2] if count > 1 else draw(st.sampled_from(["below", "above"]))
        else:
            kind = "in" if i == 0 else ("out" if i == 1 else draw(st.sampled_from(["in", "out"])))
            if count == 1:
                kind = draw(st.sampled_from(["in", "out"]))
            if kind == "out":
                kind = draw(st.sampled_from(["below", "above"]))
        if kind == "in" and lo_in > hi_in:
            kind = draw(st.sampled_from(["below", "above"]))      # no integer inside this table
        if kind == "in":
            if region == "edge" or draw(st.sampled_from([False, False, True])):
                xs.append(draw(st.sampled_from([lo_in, hi_in])))  # the edge itself when it is an integer
            else:
                xs.append(draw(st.integers(lo_in, hi_in)))
        elif kind == "below":
            xs.append(b0 - draw(st.sampled_from([0, 0, 1, 2, 5])))
        else:
            xs.append(a0 + draw(st.sampled_from([0, 0, 1, 2, 5])))
    if region in ("mixed", "bothout") and count > 1:
        xs = list(draw(st.permutations(xs)))
    return [int(v) for v in xs]


def _typed_points(draw, r, region, count, shape, near_dx=None):
    """Points plus the input dtype class: float | int | int32 (numpy arrays only) | mixed (lists only)."""
    dtype = draw(st.sampled_from(["float", "float", "float", "int", "int", "int32", "mixed"]))
    if dtype == "int32" and shape not in ("1d", "2d"):
        dtype = "int"
    if dtype == "mixed" and shape != "list":
        dtype = "int"
    if dtype == "float":
        return _points(draw, r, region, count, near_dx), dtype
    ints = _points_int(draw, r, region, count)
    if dtype != "mixed" or count < 2:
        return ints, ("int" if dtype == "mixed" else dtype)
    flo = _points(draw, r, region, count, near_dx)
    take = [draw(st.booleans()) for _ in range(count)]
    take[0], take[1] = True, False                                # at least one int and one float
    return [ints[i] if take[i] else flo[i] for i in range(count)], "mixed"


def _pair_is_uniform(r):
    return (r.lo, r.hi) in UNIFORM_PAIRS


def _would_hit_d1(r, xa, interp):
    """R=1: IndexError class (first side with out-of-range entries is not in ERROR mode, pair not uniform)."""
    if r.R != 1 or not r.has_table() or r.tab is None or not interp or _pair_is_uniform(r):
        return False
    below, above = xa < r.tab.rmin, xa > r.tab.rmax
    if below.any():
        return r.lo != "ERROR"
    return bool(above.any() and r.hi != "ERROR")


def _peek_count(r):
    c = getattr(r.f, "_directEvaluateCount", None)
    p = getattr(r.f, "_directlyEvaluatedAt", None)
    if c is None or p is None:
        return None, None
    return int(c), [float(t) for t in np.ravel(np.asarray(p, dtype=float))]


def _predict_bad_update(r, batches):
    """Would scheduling `batches` (in order) fire an adaptive update of a confirmed failing class?

    Mirrors the arithmetic of the unchanged tree; used ONLY to steer generation. Returns slug or None."""
    count, pend = _peek_count(r)
    if count is None:
        return None
    rng = (r.tab.rmin, r.tab.rmax) if (r.has_table() and r.tab is not None) else None
    for lo_c, up_c in simulate_updates(count, pend, batches, rng, r.T, r.N0, r._tree_valid):
        if lo_c == "degenerate":
            return "D6-adaptive-degenerate"
        if lo_c in ("overrun", "tiny") or up_c == "tiny":
            return "D5-extend-grid"
    return None


def _switch(slug):
    return {"D5-extend-grid": AVOID["extend_grid"],
            "D6-adaptive-degenerate": AVOID["adaptive_degenerate"]}.get(slug, False)


def draw_evaluate(draw, r, region=None, burst=False):
    shape = "1d" if burst else draw(st.sampled_from(SHAPES))
    count, dims = _shape_dims(draw, shape)
    interp = draw(st.sampled_from([True] * 7 + [False]))
    if region is None:
        region = draw(st.sampled_from(EVAL_REGIONS))
    if burst:
        # sized to the remaining distance to the adaptive threshold (just below, at, just above)
        rem = max(1, r.T - r.U)
        count = min(20, max(1, rem + draw(st.sampled_from([-1, 0, 0, 1]))))
        sides = [sd for sd, m in (("below", r.lo), ("above", r.hi)) if m == "NONE"] or ["below", "above"]
        region = draw(st.sampled_from(sides + (["bothout"] if len(sides) == 2 else [])))
        interp = True
    if burst:
        xs, dtype = _points(draw, r, region, count), "float"
    else:
        xs, dtype = _typed_points(draw, r, region, count, shape)
    last = getattr(r, "last_eval", None)
    if last is not None and not burst and draw(st.sampled_from([False, False, False, True])):
        shape, dims, xs, dtype = last[0], last[1], list(last[2]), last[3]  # the same call again
    avoided = []
    bad = None
    for attempt in range(3):
        xa = np.array(xs, dtype=float)
        tab = r.tab if r.has_table() else None
        below, above, direct = r._masks(tab, xa, interp)
        bad = None
        if AVOID["r1_out_of_range"] and _would_hit_d1(r, xa, interp):
            bad = "D1-r1-out-of-range"
        elif r.adaptive:
            slug = _predict_bad_update(r, r._eval_batches(xa, below, above, direct))
            if slug and _switch(slug):
                bad = slug
            elif AVOID["midcall_update"] and not direct and r.lo == "NONE" and r.hi == "CONSTANT" \
                    and below.any() and above.any():
                cnt, pend = _peek_count(r)
                if cnt is not None:
                    lowv = r._tree_valid(np.ravel(xa[below]))
                    if cnt + len(lowv) >= r.T and max(pend + lowv + [tab.rmax]) > tab.rmax:
                        bad = "D7-midcall-update"
        if bad is None:
            break
        avoided.append(bad)
        if bad == "D6-adaptive-degenerate":
            xs = [x + 0.125 * (i + 1) for i, x in enumerate(xs)] if len(xs) > 1 else [xs[0] + 0.125]
            if len(xs) == 1:
                shape, dims = ("1d", None)
                xs = [xs[0], xs[0] + 0.25]
        elif tab is not None:
            xs, dtype = _points(draw, r, "inside", len(xs)), "float"
            interp = True if attempt else interp
        else:
            xs = [x + 0.0625 for x in xs]
    if bad is not None:
        return {"op": "adaptive", "on": True, "avoided": avoided}  # last resort: clears the pending points
    step = {"op": "evaluate", "shape": shape, "x": xs, "interp": interp,
            "call": draw(st.sampled_from(["call", "evaluate"]))}
    if dtype != "float":
        step["dtype"] = dtype
    if dims:
        step["dims"] = dims
    if burst:
        step["tag"] = "burst"
    if avoided:
        step["avoided"] = avoided
    return step


def draw_derivative(draw, r):
    shape = draw(st.sampled_from(SHAPES))
    count, dims = _shape_dims(draw, shape)
    n = draw(st.sampled_from([1, 2]))
    interp = draw(st.sampled_from([True] * 9 + [False]))
    step = {"op": "derivative", "shape": shape, "order": n, "interp": interp}
    eps, scale = 1e-16, 1.0
    if draw(st.sampled_from([False, False, True])):
        eps = draw(st.sampled_from([1e-16, 1e-14, 1e-12]))
        scale = draw(st.sampled_from([1.0, 0.5, 0.1]))
        step["eps"], step["scale"] = eps, scale
    dx = fd_dx(n, eps, scale)
    region = draw(st.sampled_from(["inside", "edge", "below", "above", "bothout", "mixed", "near"]))
    near_dx = None
    if region == "near":
        region, near_dx = draw(st.sampled_from(["below", "above", "bothout"])), dx
    xs, dtype = _typed_points(draw, r, region, count, shape, near_dx)
    avoided = []
    tab = r.tab if r.has_table() else None
    bad = None
    for attempt in range(3):
        xa = np.array(xs, dtype=float)
        below, above, direct = r._masks(tab, xa, interp)
        out = below | above
        bad = None
        if out.any() and not direct:
            none_side = (below & (r.lo == "NONE")) | (above & (r.hi == "NONE"))
            might_fire = False
            if r.adaptive and none_side.any():
                c, _p = _peek_count(r)
                might_fire = c is None or c + 10 * xa.size >= r.T
            if AVOID["r1_out_of_range"] and _would_hit_d1(r, xa, interp):
                bad = "D1-r1-out-of-range"
            elif AVOID["deriv_mixed"] and ((~out).any() or (
                    shape == "2d" and (r.R == 1 or dims[0] >= 2))):
                bad = "D3-deriv-mixed"
            elif AVOID["deriv_near_edge"] and not (r.lo == "NONE" and r.hi == "NONE") and (
                    bool(np.any(np.minimum(np.abs(xa - tab.rmin), np.abs(xa - tab.rmax))[out] < 4.0 * dx))
                    or might_fire):
                bad = "D4-deriv-near-edge"
            elif might_fire:
                slug = _predict_bad_update(r, r._deriv_sim_batches(tab, xa, n, dx, below, above, direct))
                if slug and _switch(slug):
                    bad = slug
        elif direct and r.adaptive:
            for dxc in sorted({fd_dx(n, 1e-16, 1.0), dx}):
                slug = _predict_bad_update(r, r._deriv_sim_batches(tab, xa, n, dxc, below, above, direct))
                if slug and _switch(slug):
                    bad = slug
        if bad is None:
            break
        avoided.append(bad)
        if tab is not None:
            xs, dtype = _points(draw, r, "inside", len(xs)), "float"
            if direct:
                interp = step["interp"] = True
        else:
            xs = [x + 0.0625 for x in xs]
    if bad is not None:
        return {"op": "adaptive", "on": True, "avoided": avoided}
    step["x"] = xs
    if dtype != "float":
        step["dtype"] = dtype
    if dims:
        step["dims"] = dims
    if avoided:
        step["avoided"] = avoided
    return step


def draw_new_table(draw, r):
    a = round(draw(st.floats(-6.0, 5.0)), 3)
    b = round(a + 10.0 ** draw(st.floats(-1.3, 0.9)), 3)
    if draw(st.sampled_from([False, False, True])):
        # integer table ends: integer-valued inputs then also hit the edges and the inside
        a = float(draw(st.integers(-6, 5)))
        b = a + float(draw(st.integers(1, 8)))
    n = draw(st.sampled_from([2, 3, 4, 5, 6, 8, 11, 16, 25, 40]))
    nb = r.nan_below
    if nb is not None:
        # keep at least 4 (or n) finite rows: violated precondition otherwise
        grid = np.linspace(a, b, n)
        if int((grid >= nb).sum()) < min(n, 4):
            a = nb if b > nb + 0.05 else a
            if not b > nb + 0.05:
                a, b = nb, round(nb + 0.5, 3)
    return {"op": "newTable", "a": float(a), "b": float(b), "n": int(n)}


def draw_extend(draw, r):
    counts = [0, 1, 2, 3, 5, 8, 13]
    p_min, p_max = draw(st.sampled_from(counts)), draw(st.sampled_from(counts))
    avoided = []
    if not r.has_table() or r.tab is None:
        a = round(draw(st.floats(-6.0, 5.0)), 3)
        b = round(a + 10.0 ** draw(st.floats(-1.0, 0.8)), 3)
        if r.nan_below is not None and a < r.nan_below:
            a = r.nan_below
            b = max(b, round(a + 0.5, 3))
        if p_min + p_max < 4:
            p_min, p_max = 2, 3
        return {"op": "extend", "newMin": float(a), "newMax": float(b), "pMin": p_min, "pMax": p_max}
    t = r.tab
    span = t.rmax - t.rmin

    def end(edge, sgn):
        how = draw(st.sampled_from(["out", "out", "out", "in", "same"]))
        if how == "same":
            return edge
        if how == "in":
            return edge - sgn * span * draw(st.floats(0.0, 0.5))
        return edge + sgn * 10.0 ** draw(st.floats(-2.0, 0.6))

    new_min = max(-XLIM, float(end(t.rmin, -1.0)))
    new_max = min(XLIM, float(end(t.rmax, 1.0)))
    if draw(st.booleans()):
        new_min, new_max = round(new_min, 3), round(new_max, 3)
    if AVOID["extend_grid"]:
        k = 0
        if side_class(t.rmin, new_min, p_min, -1.0) == "tiny":
            new_min, k = t.rmin, 1
        if side_class(t.rmax, new_max, p_max, 1.0) == "tiny":
            new_max, k = t.rmax, 1
        while side_class(t.rmin, new_min, p_min, -1.0) == "overrun" and k < 9:
            p_min += 1
            k += 1
        if k:
            avoided.append("D5-extend-grid")
    step = {"op": "extend", "newMin": float(new_min), "newMax": float(new_max),
            "pMin": int(p_min), "pMax": int(p_max)}
    if avoided:
        step["avoided"] = avoided
    return step


def draw_set_modes(draw, r):
    return {"op": "setModes", "lo": draw(st.sampled_from(MODES)), "hi": draw(st.sampled_from(MODES))}


def draw_schedule(draw, r):
    shape = draw(st.sampled_from(SHAPES))
    count, dims = _shape_dims(draw, shape)
    region = draw(st.sampled_from(["below", "above", "bothout", "mixed", "inside"]))
    xs, dtype = _typed_points(draw, r, region, count, shape)
    avoided = []
    slug = _predict_bad_update(r, [np.array(xs, dtype=float)])
    if slug and _switch(slug):
        avoided.append(slug)
        if slug == "D6-adaptive-degenerate":
            xs = [x + 0.125 * (i + 1) for i, x in enumerate(xs)]
            if len(xs) == 1:
                shape, dims, xs = "1d", None, [xs[0], xs[0] + 0.25]
        else:
            xs, dtype = _points(draw, r, "inside", len(xs)), "float"
        slug = _predict_bad_update(r, [np.array(xs, dtype=float)])
        if slug and _switch(slug):
            return {"op": "adaptive", "on": True, "avoided": avoided}
    step = {"op": "schedule", "shape": shape, "x": xs}
    if dtype != "float":
        step["dtype"] = dtype
    if dims:
        step["dims"] = dims
    if avoided:
        step["avoided"] = avoided
    return step


def draw_roundtrip(draw, r):
    return {"op": "roundtrip", "adopt": draw(st.booleans()),
            "u": [round(draw(st.floats(0.0, 1.0)), 6) for _ in range(3)]}


# ---------------------------------------------------------------------------
# the machine
# ---------------------------------------------------------------------------
def machine(tier, acc):
    from hypothesis.stateful import RuleBasedStateMachine, initialize, precondition, rule

    class C18Machine(RuleBasedStateMachine):
        def __init__(self):
            super().__init__()
            self.runner = None
            self.init = None
            self.steps = []
            self.verdict = Verdict()
            self.skip = False

        @initialize(init=st_init(), data=st.data())
        def start(self, init, data):
            if acc.time_up():
                self.skip = True
                return
            self.init = init
            self.runner = Runner(init, self.verdict)
            # most histories start from a configured object: modes chosen, table built (either order)
            pre = data.draw(st.sampled_from(["modes+table", "modes+table", "table+modes", "table", "modes", "none"]))
            for what in pre.split("+"):
                if what == "modes":
                    self._do(draw_set_modes, data.draw, self.runner)
                elif what == "table":
                    self._do(draw_new_table, data.draw, self.runner)

        def _live(self):
            return self.runner is not None and not self.skip and not self.runner.dead

        def _when(self, cond):
            """Structural precondition; a finished history keeps every rule runnable as a no-op."""
            return (not self._live()) or bool(cond(self.runner))

        def _do(self, fn, *args, **kw):
            if not self._live():
                return
            step = fn(*args, **kw)
            self.steps.append(step)
            self.runner.apply(step)

        @rule(data=st.data())
        def new_table(self, data):
            self._do(draw_new_table, data.draw, self.runner)

        @precondition(lambda self: self._when(lambda r: not r.has_table()))
        @rule(data=st.data())
        def first_table(self, data):
            self._do(draw_new_table, data.draw, self.runner)

        @rule(data=st.data())
        def from_values(self, data):
            step = dict(draw_new_table(data.draw, self.runner), op="fromValues")
            step["as"] = data.draw(st.sampled_from(["array", "array", "list"]), label="as")
            step["scribble"] = data.draw(st.booleans(), label="scribble")
            self._do(lambda: step)

        @rule(data=st.data())
        def evaluate(self, data):
            self._do(draw_evaluate, data.draw, self.runner)

        @precondition(lambda self: self._when(lambda r: r.has_table()))
        @rule(data=st.data())
        def evaluate_outside(self, data):
            region = data.draw(st.sampled_from(["below", "above", "bothout", "mixed"]))
            self._do(draw_evaluate, data.draw, self.runner, region=region)

        @rule(data=st.data())
        def derivative(self, data):
            self._do(draw_derivative, data.draw, self.runner)

        @precondition(lambda self: self._when(lambda r: r.tab is None or r.tab.n < MAX_TABLE))
        @rule(data=st.data())
        def extend(self, data):
            self._do(draw_extend, data.draw, self.runner)

        @rule(data=st.data())
        def set_modes(self, data):
            self._do(draw_set_modes, data.draw, self.runner)

        @rule(on=st.booleans())
        def adaptive(self, on):
            self._do(lambda: {"op": "adaptive", "on": bool(on)})

        @precondition(lambda self: self._when(lambda r: r.adaptive))
        @rule(data=st.data())
        def schedule(self, data):
            self._do(draw_schedule, data.draw, self.runner)

        @precondition(lambda self: self._when(
            lambda r: r.adaptive and r.has_table() and r.tab is not None and "NONE" in (r.lo, r.hi)))
        @rule(data=st.data())
        def burst(self, data):
            self._do(draw_evaluate, data.draw, self.runner, burst=True)

        @precondition(lambda self: self._when(lambda r: r.has_table()))
        @rule(data=st.data())
        def roundtrip(self, data):
            self._do(draw_roundtrip, data.draw, self.runner)

        def teardown(self):
            if self.skip:
                acc.skipped_time += 1
                return
            if self.init is None or self.runner is None:
                return
            self.runner.finish()
            case = {"kind": "history", "init": self.init, "steps": self.steps}
            acc.record(case, self.verdict)

    return C18Machine
