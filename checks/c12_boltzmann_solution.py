"""C12 - Boltzmann solution reflects the physics, not the discretisation choices.

Case kinds
  solve   one inhomogeneous background, 1-2 particles, harness-defined collision kernel; every
          configuration (4 spectral basis combinations, finite differences, finite differences obtained
          the way EOM.getBoltzmannFiniteDifference does) is assembled and solved
  hom     homogeneous background in every configuration
  conv    finite-difference vs spectral source / Liouville*g on M = 8,16,32,64, per amplitude class
  dfeq    the pair (_feq, _dfeq) of equilibrium-distribution helpers

Sub-oracles
  residual          ||A x - S|| <= K_RES*n*eps*(||A|| ||x|| + ||S||)  for x = solveBoltzmannEquations()
  basis-deltaf      delta f converted to grid values by the harness's own basis matrices is the same
                    in all four (basisM, basisN) combinations (kappa-scaled rounding bound)
  basis-deltas      hence so are the four Delta-moments of getDeltas
  reference         delta f (grid values) equals the solution of the harness's own collocation
                    assembly in function space: Liouville operator p_w d/dxi - (gamma_w/2)(dm^2/dxi) d/dp_z
                    (the combination that annihilates every function of the wall-frame energy and of
                    p_par), source = -Liouville[f_eq(E_pl/T)], collision = T^2 * kernel
  fd-route          the finite-difference solver built as in EOM.getBoltzmannFiniteDifference (deep copy,
                    collision array changed to Cardinal) equals the one built directly
  background-copy   setBackground/solve/getDeltas leave the caller's background bit-identical and
                    share no memory with it
  hom-source / hom-deltaf   homogeneous background: source and solution vanish up to rounding
                    (scaled by the same configuration with 1 % inhomogeneity)
  fd-source         e_S(M) = ||S_FD - S_spec||/||S_spec||:  e(4M) <= max(e(M)/4, 1e-8), e(64) <= 5e-2
  fd-liouville      same for Liouville*g, g a smooth sampled test function
  dfeq-identity     _dfeq = d/dx _feq  (closed form  -f(1 + s f))
"""
from __future__ import annotations

import copy
import math
import os
import pathlib
import shutil
import tempfile

import numpy as np
from hypothesis import strategies as st
from numpy.polynomial import chebyshev as _cheb

from vlib import collfiles as cf
from vlib.core import Verdict

PROPERTY_ID = "C12"
ENGINE = "hypothesis @given (plain-data cases); harness collocation reference on numpy.polynomial + LAPACK condition estimates"

# Confirmed defects that the generator steers around BY CONSTRUCTION (set to False after a repair):
#   fd_dvdchi  boltzmann.py finite-difference branch differentiates the temperature profile to get
#              dv/dchi.  The finite-difference source is therefore wrong whenever d(v_plasma)/dchi !=
#              dT/dchi (replays/C12/known_fd_dvdchi_*.json).  With the switch on, finite-difference
#              source comparisons only use backgrounds on which the defective line is accidentally
#              right: constant T and v ("f"), or v_plasma - T constant ("tied" classes).
AVOID = {"fd_dvdchi": False}  # defect repaired in /repo (fix: commit e8611e9); class searched again
if os.environ.get("VERIF_NO_AVOID"):  # testing aid: VERIF_NO_AVOID=1 ./run C12 quick (e.g. on a patched tree)
    AVOID = {k: False for k in AVOID}

RULE = (
    "solve: Grid/Grid3Scales, M in [4,24], N in {3,5,7,9} (system size capped), 1-2 particles of either "
    "statistics with m^2 = y^2 phi^2/2 + m0^2, v_mid in (-0.95,-0.05), profiles tanh(a(chi-x0))*(1+c1 chi+c2 chi^2) "
    "for T, v, phi with amplitude classes T/v/f and combinations, kernel Gamma*1 + eta*Gamma*random with "
    "Gamma in 10^[-2,1]; all four basis combinations and both derivative modes.  hom: same with zero "
    "amplitudes.  conv: M = 8..64, N in {3,5}, one amplitude class per case.  Non-trivial = inhomogeneous "
    "background with non-zero source and kappa <= 1e8 (solve and conv cases; hom and dfeq cases never count); "
    "distinct by canonical JSON."
)
BUDGET = {
    "quick": {"cases": 1280, "shrink": True, "time_cap_s": 900},
    "thorough": {"cases": 15000, "shrink": False, "time_cap_s": 3000},
}
EPS = 2.0 ** -52
K_RES = 10.0
K_BASIS = 20.0
K_REF = 20.0
K_HOM = 100.0
KAPPA_DISCARD = 1e10
KAPPA_NONTRIVIAL = 1e8
TOLERANCES = {
    "residual": "||A x - S||_2 <= K_RES*n*eps*(||A||_F ||x||_2 + ||S||_2)", "K_RES": K_RES,
    "basis-deltaf": "||f_cfg - f_ref||_inf <= K_BASIS*eps*(kappa_cfg + kappa_ref)*||f||_inf, kappa = LAPACK 1-norm estimate",
    "K_BASIS": K_BASIS,
    "reference": "||f - f_harness||_inf <= K_REF*eps*(kappa + kappa_harness)*(1 + c_diff)*||f||_inf, c_diff = computed "
                 "conditioning of the spectral differentiation of T, v, m^2 relative to source and force term",
    "K_REF": K_REF,
    "hom": "||S_hom||_1 <= K_HOM*eps*M^2*||S_1%||_1/0.01 ; ||x_hom||_1 <= ||A^-1||_1 * that bound (+ rounding)",
    "K_HOM": K_HOM,
    "kappa_discard": KAPPA_DISCARD,
    "fd-convergence": "e(4M) <= max(e(M)/4, 1e-8) for M = 8, 16 and e(64) <= 5e-2 (DESIGN 3/C12)",
    "dfeq-identity": "relative 1e-9 for x in [0.05, 60]",
    "measured": "unchanged tree, ~2000 solve cases over 8 seeds: residual/bound <= 3.4e-3, basis error/bound <= 2.6e-2, "
                "reference error/bound <= 8e-3, hom source/bound <= 5.4e-3; conv (repaired tree, all classes, ~400 cases): "
                "e(32)/e(8) <= 0.11, e(64)/e(16) <= 0.07, e(64) <= 6.3e-3",
}
ASSUMPTIONS = [
    "Grid coordinates and Jacobians (xi, pz, pp, dxi/dchi, dpz/drz) are taken from the grid object (C17 checks them).",
    "The collision kernel is defined on grid values by the harness and converted with vlib.collfiles "
    "(numpy.polynomial); the random part comes from numpy PCG64 seeded from the case.",
    "Reference physics: the Boltzmann equation L[f_eq + delta f] = -C[delta f] with "
    "L = p_w d/dxi - (gamma_w/2)(dm^2/dxi) d/dp_z, whose coefficient is fixed by conservation of the "
    "wall-frame energy along trajectories; f_eq = 1/(exp(E_pl/T) -+ 1) in the local plasma frame.",
    "Spectral derivative of a sampled profile = derivative of its polynomial interpolant (both sides).",
]
EXHAUSTIVE_SUBDOMAINS = []

SPECTRAL_CONFIGS = [("Cardinal", "Cardinal"), ("Cardinal", "Chebyshev"), ("Chebyshev", "Cardinal"),
                    ("Chebyshev", "Chebyshev")]
CLASSES = ["T", "v", "f", "Tv", "Tf", "vf", "Tvf"]
CONV_MS = [8, 16, 32, 64]
SNORM = 1.6  # bound of |tanh|*(1+|c1|+|c2|)


# ---------------------------------------------------------------------------
# strategy
# ---------------------------------------------------------------------------
@st.composite
def st_profile(draw):
    return {"a": draw(st.floats(0.5, 3.0)), "x0": draw(st.floats(-0.4, 0.4)),
            "c1": draw(st.floats(-0.3, 0.3)), "c2": draw(st.floats(-0.3, 0.3)),
            "amp": draw(st.sampled_from([0.01, 0.03, 0.1, 0.3]))}


@st.composite
def st_grid(draw, M, N):
    T0 = 10.0 ** draw(st.integers(-2, 3)) * draw(st.sampled_from([1.0, 1.0, 2.5]))
    ell = 10.0 ** draw(st.floats(-0.5, 1.5))
    g = {"kind": draw(st.sampled_from(["Grid", "Grid", "Grid3Scales"])), "M": M, "N": N, "T0": T0, "ell": ell}
    if g["kind"] == "Grid3Scales":
        g.update(ratio=draw(st.floats(0.3, 0.7)), smoothing=draw(st.floats(0.05, 0.3)),
                 uin=draw(st.floats(-1.0, 1.0)), uout=draw(st.floats(-1.0, 1.0)))
    return g


@st.composite
def st_particles(draw, P):
    return [{"stat": draw(st.sampled_from(["Fermion", "Boson"])), "y": draw(st.floats(0.1, 1.5)),
             "m0sq": draw(st.sampled_from([0.0, 0.01, 1.0]))} for _ in range(P)]


@st.composite
def st_background(draw, cls):
    return {"cls": cls, "vmid": -draw(st.floats(0.05, 0.95)), "phi0": 10.0 ** draw(st.floats(-1.0, 1.0)),
            "T": draw(st_profile()), "v": draw(st_profile()), "f": draw(st_profile())}


@st.composite
def st_kernel(draw, P):
    return {"gamma": [10.0 ** draw(st.floats(-2.0, 1.0)) for _ in range(P)],
            "mix": draw(st.sampled_from([0.0, 0.0, 0.1, 0.3])), "eta": draw(st.sampled_from([0.0, 0.05, 0.2])),
            "seed": draw(st.integers(0, 2 ** 20))}


def _size_cap(tier):
    return 1200 if tier == "quick" else 3000


@st.composite
def st_solve(draw, tier, hom=False):
    P = draw(st.sampled_from([1, 1, 2]))
    N = draw(st.sampled_from([3, 3, 5, 5, 7, 9]))
    mmax = max(4, min(24, _size_cap(tier) // (P * (N - 1) ** 2) + 1))
    M = draw(st.integers(4, mmax))
    cls = "hom" if hom else draw(st.sampled_from(CLASSES))
    return {"kind": "hom" if hom else "solve", "grid": draw(st_grid(M, N)), "particles": draw(st_particles(P)),
            "bg": draw(st_background(cls)), "kernel": draw(st_kernel(P)),
            # "files_other": files stored in the basis the solver does NOT use, so that the loader's
            # basis change is part of what the cross-basis oracle sees
            "install": draw(st.sampled_from(["files", "direct", "files_other"])),
            "mult": draw(st.sampled_from([1.0, 1.0, 0.5, 3.0]))}


@st.composite
def st_conv(draw, tier):
    P = draw(st.sampled_from([1, 1, 2]))
    N = draw(st.sampled_from([3, 3, 5]))
    cls = draw(st.sampled_from(CLASSES))
    case = {"kind": "conv", "grid": draw(st_grid(8, N)), "particles": draw(st_particles(P)),
            "bg": draw(st_background(cls)), "g": {"a": draw(st.floats(0.5, 2.0)), "x0": draw(st.floats(-0.3, 0.3)),
                                                   "q": [draw(st.floats(-1.0, 1.0)) for _ in range(3)]}}
    if AVOID.get("fd_dvdchi") and ("T" in cls or "v" in cls):
        # steer around the confirmed defect: tie the plasma-frame velocity to the temperature profile
        # (v_pl - T = const, so d v_pl/dchi == dT/dchi and the defective line is accidentally right)
        case["bg"]["cls"] = "tied" + ("f" if "f" in cls else "")
        case["bg"]["tied_from"] = cls
        case["grid"]["T0"] = draw(st.sampled_from([0.5, 1.0, 2.0]))
        case["avoided"] = ["fd_dvdchi"]
    return case


@st.composite
def st_dfeq(draw):
    return {"kind": "dfeq", "x": [10.0 ** draw(st.floats(-1.3, 1.78)) for _ in range(6)],
            "big": draw(st.sampled_from([700.0, 709.0, 710.5, 800.0, 1e4]))}


def strategy(tier):
    return st.one_of(st_solve(tier), st_solve(tier), st_solve(tier), st_solve(tier, hom=True),
                     st_conv(tier), st_conv(tier), st_dfeq())


# ---------------------------------------------------------------------------
# building WallGo objects from a case
# ---------------------------------------------------------------------------
def make_grid(g, M=None):
    import WallGo

    M = g["M"] if M is None else M
    L = g["ell"] / g["T0"]
    if g["kind"] == "Grid3Scales":
        r, s = g["ratio"], g["smoothing"]
        tmin = L * (0.5 + s) / r
        return WallGo.Grid3Scales(M, g["N"], tmin * (1 + 10.0 ** g["uin"]), tmin * (1 + 10.0 ** g["uout"]), L,
                                  g["T0"], r, s)
    return WallGo.Grid(M, g["N"], L, g["T0"])


def profile(p, chi):
    return np.tanh(p["a"] * (chi - p["x0"])) * (1 + p["c1"] * chi + p["c2"] * chi ** 2) / SNORM


def _boost(v, u):
    return (v - u) / (1.0 - v * u)


def background_arrays(bg, T0, chi, scale=1.0):
    """Wall-frame profiles (T, v, phi) on chi.  ``scale`` multiplies all amplitudes (0 -> homogeneous)."""
    cls = bg["cls"]
    vmid = bg["vmid"]
    room = min(abs(vmid), 1 - abs(vmid))
    one = np.ones_like(chi)
    if cls == "pct":  # 1 % inhomogeneity in everything (reference scale for the homogeneous check)
        T = T0 * (1 + 0.01 * profile(bg["T"], chi))
        v = vmid + 0.01 * room * profile(bg["v"], chi)
        phi = bg["phi0"] * T0 * (0.6 + 0.01 * profile(bg["f"], chi))
        return T, v, phi
    aT = bg["T"]["amp"] * scale if ("T" in cls or cls.startswith("tied")) else 0.0
    av = bg["v"]["amp"] * scale if "v" in cls else 0.0
    af = bg["f"]["amp"] * scale if "f" in cls else 0.0
    T = T0 * (1 + aT * profile(bg["T"], chi))
    if cls.startswith("tied"):
        # plasma-frame velocity v_pl = (T - T0) exactly (T0 of order one), wall frame by the inverse boost
        vpl = T - T0
        if np.abs(vpl).max() >= 0.9:
            raise ValueError("harness error: tied class needs |T - T0| < 0.9 (T0 of order one)")
        v = _boost(vpl, -vmid)
    else:
        v = vmid * one + av * room * profile(bg["v"], chi)
    phi = bg["phi0"] * T0 * (0.6 * one + af * profile(bg["f"], chi))
    return T, v, phi


def make_particles(case):
    import WallGo

    out = []
    T0 = case["grid"]["T0"]
    for i, p in enumerate(case["particles"]):
        y, m0 = p["y"], p["m0sq"] * T0 ** 2
        out.append(WallGo.Particle(f"p{i}", i,
                                   (lambda y, m0: lambda f: 0.5 * y ** 2 * f.getField(0) ** 2 + m0)(y, m0),
                                   (lambda y: lambda f: y ** 2 * f.getField(0))(y), p["stat"], 12))
    return out


def make_background(case, grid, scale=1.0, bg=None):
    import WallGo

    chi = np.asarray(grid.getCompactCoordinates(endpoints=True)[0], dtype=float)
    bgd = case["bg"] if bg is None else bg
    T, v, phi = background_arrays(bgd, case["grid"]["T0"], chi, scale)
    return WallGo.BoltzmannBackground(bgd["vmid"], v.copy(), WallGo.Fields(phi[:, None].copy()), T.copy()), (T, v, phi)


def kernels(case, N):
    """Function-space kernels K[(a,b)] (alpha,beta,gamma,delta) acting on grid values."""
    k = case["kernel"]
    P = len(case["particles"])
    n = N - 1
    out = {}
    for a in range(P):
        for b in range(P):
            rng = np.random.Generator(np.random.PCG64([int(k["seed"]), a, b, N]))
            g = k["gamma"][a] if a == b else k["mix"] * math.sqrt(k["gamma"][a] * k["gamma"][b])
            K = cf.relaxation_kernel(N, g)
            if k["eta"] and g:
                K = K + k["eta"] * g * rng.standard_normal((n, n, n, n)) / n
            out[(a, b)] = K
    return out


def collision_tensor6(case, N, basis, Ks):
    P = len(case["particles"])
    n = N - 1
    C = np.zeros((P, n, n, P, n, n))
    for (a, b), K in Ks.items():
        C[a, :, :, b, :, :] = cf.tensor_from_kernel(K, N, basis)
    return C


def install_collisions(solver, case, grid, parts, basisN, Ks, tmpdir):
    from WallGo.collisionArray import CollisionArray

    N = grid.N
    if case.get("install") in ("files", "files_other") and tmpdir is not None:
        stored = basisN
        if case.get("install") == "files_other":
            stored = "Cardinal" if basisN == "Chebyshev" else "Chebyshev"
        d = os.path.join(tmpdir, f"coll_{stored}")
        if not os.path.isdir(d):
            names = [p.name for p in parts]
            tens = cf.build_tensors(names, N, stored, Ks)
            cf.write_directory(d, names, N, tens, basis=stored)
        solver.loadCollisions(pathlib.Path(d))
    else:
        ca = CollisionArray(grid, basisN, parts)
        ca.polynomialData.coefficients = collision_tensor6(case, N, basisN, Ks)
        solver.setCollisionArray(ca)


def make_solver(case, grid, parts, bgobj, basisM, basisN, deriv, Ks, tmpdir=None):
    import WallGo

    s = WallGo.BoltzmannSolver(grid, basisM, basisN, deriv, collisionMultiplier=case.get("mult", 1.0))
    s.updateParticleList(parts)
    s.setBackground(bgobj)
    install_collisions(s, case, grid, parts, basisN, Ks, tmpdir)
    return s


# ---------------------------------------------------------------------------
# harness numerics
# ---------------------------------------------------------------------------
def diff_matrix(x):
    """Lagrange differentiation matrix on the nodes x (in [-1,1]): D[p,i] = l_i'(x_p)."""
    x = np.asarray(x, dtype=float)
    deg = len(x) - 1
    V = _cheb.chebvander(x, deg)
    C = np.linalg.inv(V)  # columns: Chebyshev series of the cardinal functions
    dC = _cheb.chebder(C, axis=0)
    return _cheb.chebvander(x, deg - 1) @ dC


def kappa1(A):
    """(1-norm condition estimate, ||A||_1, LU) via LAPACK gecon."""
    from scipy.linalg import lapack, lu_factor

    anorm = float(np.abs(A).sum(axis=0).max())
    lu, piv = lu_factor(A, check_finite=False)
    rcond, info = lapack.dgecon(lu, anorm, norm="1")
    kap = float("inf") if rcond <= 0 else 1.0 / float(rcond)
    return kap, anorm, (lu, piv)


def to_values(deltaF, grid, basisM, basisN):
    """Coefficients (P, M-1, N-1, N-1) in (basisM, basisN, basisN) -> values at the grid nodes."""
    f = np.asarray(deltaF, dtype=float)
    chi, rz, rp = grid.getCompactCoordinates()
    if basisM == "Chebyshev":
        Bx, _ = cf.cheb_values(grid.M, chi, np.array([0.0]))
        f = np.einsum("xi,aijk->axjk", Bx, f)
    if basisN == "Chebyshev":
        Bz, Bp = cf.cheb_values(grid.N, rz, rp)
        f = np.einsum("zj,pk,aijk->aizp", Bz, Bp, f)
    return f


def delta_weights(grid, msq_int):
    """Quadrature weights W_k[a, alpha, beta, gamma] of the four Delta moments acting on grid values."""
    N = grid.N
    _, rz, rp = grid.getCompactCoordinates()
    _, pz, pp = grid.getCoordinates()
    _, dpz, dpp = grid.getCompactificationDerivatives()
    pz_, pp_ = pz[None, None, :, None], pp[None, None, None, :]
    E = np.sqrt(msq_int[:, :, None, None] + pz_ ** 2 + pp_ ** 2)
    base = (dpz[None, None, :, None] * dpp[None, None, None, :] * pp_ / (4 * np.pi ** 2 * E)
            * (np.pi / N * np.sqrt(1 - rz ** 2))[None, None, :, None]
            * (np.pi / (N - 1) * np.sqrt(1 - rp ** 2))[None, None, None, :])
    return {"Delta00": base, "Delta02": pz_ ** 2 * base, "Delta20": E ** 2 * base, "Delta11": E * pz_ * base}


def reference_system(case, grid, T, v, phi, Ks):
    """Harness collocation assembly in function space.  Returns (A, S, c_diff) on the interior nodes,
    C order (a, alpha, beta, gamma); c_diff = (rounding scale of S)/|S| + (rounding scale of the force term)/|A|."""
    P = len(case["particles"])
    M, N = grid.M, grid.N
    m, n = M - 1, N - 1
    T0 = case["grid"]["T0"]
    chiF = np.asarray(grid.getCompactCoordinates(endpoints=True)[0], dtype=float)
    rzF, _ = cf.nodes_full(N)
    _, pz, pp = grid.getCoordinates()
    dxi, dpz, _ = grid.getCompactificationDerivatives()
    Dx = diff_matrix(chiF)
    Dz = diff_matrix(rzF)
    vmid = case["bg"]["vmid"]
    vw = _boost(0.0, vmid)
    gw = 1 / math.sqrt(1 - vw ** 2)
    vpl = _boost(v, vmid)
    dT = (Dx @ T)[1:-1]
    dv = (Dx @ vpl)[1:-1]
    Ti, vi = T[1:-1], vpl[1:-1]
    gp = 1 / np.sqrt(1 - vi ** 2)
    aDx = np.abs(Dx)
    rT, rv = (aDx @ np.abs(T))[1:-1], (aDx @ np.abs(vpl))[1:-1]  # rounding scale of the derivatives
    A = np.zeros((P, m, n, n, P, m, n, n))
    S = np.zeros((P, m, n, n))
    Sabs = np.zeros((P, m, n, n))
    cm = 0.0
    DxI = Dx[1:-1, 1:-1]
    DzI = Dz[1:-1, 1:-1]
    mult = case.get("mult", 1.0)
    for a, p in enumerate(case["particles"]):
        msq = 0.5 * p["y"] ** 2 * phi ** 2 + p["m0sq"] * T0 ** 2
        dm = (Dx @ msq)[1:-1]
        E = np.sqrt(msq[1:-1, None, None] + pz[None, :, None] ** 2 + pp[None, None, :] ** 2)
        PZ = pz[None, :, None] * np.ones_like(E)
        Pw = gw * (PZ - vw * E)
        Epl = gp[:, None, None] * (E - vi[:, None, None] * PZ)
        Ppl = gp[:, None, None] * (PZ - vi[:, None, None] * E)
        x = Epl / Ti[:, None, None]
        with np.errstate(over="ignore"):
            if p["stat"] == "Boson":
                dfeq = -1.0 / (4 * np.sinh(x / 2) ** 2)
            else:
                dfeq = -1.0 / (4 * np.cosh(x / 2) ** 2)
        S[a] = (dfeq / Ti[:, None, None] / dxi[:, None, None]
                * (Pw * Ppl * gp[:, None, None] ** 2 * dv[:, None, None]
                   + Pw * Epl * dT[:, None, None] / Ti[:, None, None]
                   + 0.5 * dm[:, None, None] * gw * gp[:, None, None] * (vw - vi[:, None, None])))
        rm = (aDx @ np.abs(msq))[1:-1]
        Sabs[a] = (np.abs(dfeq) / Ti[:, None, None] / dxi[:, None, None]
                   * (np.abs(Pw * Ppl) * gp[:, None, None] ** 2 * rv[:, None, None]
                      + np.abs(Pw * Epl) * rT[:, None, None] / Ti[:, None, None]
                      + 0.5 * rm[:, None, None] * gw * gp[:, None, None] * np.abs(vw - vi[:, None, None])))
        # rounding of the force-term coefficient, measured against the whole operator further down
        cm = max(cm, float(((gw / 2) * rm[:, None] / dxi[:, None] / dpz[None, :]).max()))
        c1 = Pw / dxi[:, None, None]
        c2 = -(gw / 2) * dm[:, None, None] / dxi[:, None, None] / dpz[None, :, None] * np.ones_like(E)
        for b_ in range(n):
            for g_ in range(n):
                A[a, :, b_, g_, a, :, b_, g_] += c1[:, b_, g_][:, None] * DxI
        for al in range(m):
            for g_ in range(n):
                A[a, al, :, g_, a, al, :, g_] += c2[al, :, g_][:, None] * DzI
        for b in range(P):
            K = Ks[(a, b)]
            for al in range(m):
                A[a, al, :, :, b, al, :, :] += mult * Ti[al] ** 2 * K
    nn = P * m * n * n
    A = A.reshape(nn, nn)
    s1 = float(np.abs(S).sum())
    cS = float(np.abs(Sabs).sum() / s1) if s1 > 0 else 0.0
    cA = cm * float(np.abs(DzI).sum(axis=0).max()) / float(np.abs(A).sum(axis=0).max())
    return A, S.reshape(nn), cS + cA


# ---------------------------------------------------------------------------
# solve / hom
# ---------------------------------------------------------------------------
def _snapshot(bgobj):
    return {"v": np.array(bgobj.velocityProfile, copy=True), "T": np.array(bgobj.temperatureProfile, copy=True),
            "f": np.array(bgobj.fieldProfiles, copy=True), "vw": bgobj.velocityWall, "vm": bgobj.velocityMid}


def _bg_unchanged(bgobj, snap):
    return (np.array_equal(bgobj.velocityProfile, snap["v"]) and np.array_equal(bgobj.temperatureProfile, snap["T"])
            and np.array_equal(np.asarray(bgobj.fieldProfiles), snap["f"]) and bgobj.velocityWall == snap["vw"]
            and bgobj.velocityMid == snap["vm"])


def _cfg_name(cfg):
    return f"{cfg[2][:2]}:{cfg[0][:4]}/{cfg[1][:4]}" + (":route" if len(cfg) > 3 else "")


def _solve_config(case, grid, parts, bgobj, cfg, Ks, tmpdir, v, cls_bg):
    """Assemble + solve one configuration.  Returns dict or None after a violation/discard."""
    bM, bN, deriv = cfg[:3]
    if len(cfg) > 3:
        # the route of EOM.getBoltzmannFiniteDifference: deep copy of a spectral solver
        base = make_solver(case, grid, parts, bgobj, "Cardinal", "Chebyshev", "Spectral", Ks, tmpdir)
        # ... of a solver that HAS BEEN USED (EOM copies the solver it has just solved with): whatever the solve left
        # on the object travels with the deep copy
        base.solveBoltzmannEquations()
        base.getDeltas()
        s = copy.deepcopy(base)
        s.derivatives = "Finite Difference"
        s.basisN = "Cardinal"
        s.collisionArray.changeBasis("Cardinal")
    else:
        s = make_solver(case, grid, parts, bgobj, bM, bN, deriv, Ks, tmpdir)
    A, S, _, _ = s.buildLinearEquations()
    x = np.asarray(s.solveBoltzmannEquations())
    n = A.shape[0]
    name = _cfg_name(cfg)
    cls = f"{name} bg={cls_bg}"
    if not (np.all(np.isfinite(A)) and np.all(np.isfinite(S))):
        v.fail("assembly-finite", cls, "assembled operator or source is not finite")
        return None
    kap, anorm, _ = kappa1(A)
    if not np.isfinite(kap) or kap > KAPPA_DISCARD:
        v.discarded("singular: kappa > 1e10")
        return None
    P = len(parts)
    shape = (P, grid.M - 1, grid.N - 1, grid.N - 1)
    v.checked("residual")
    if x.shape != shape or not np.all(np.isfinite(x)):
        v.fail("residual", cls, f"solution shape {x.shape} (expected {shape}) or non-finite entries")
        return None
    r = A @ x.reshape(-1) - S
    bound = K_RES * n * EPS * (np.linalg.norm(A) * np.linalg.norm(x) + np.linalg.norm(S))
    res = float(np.linalg.norm(r))
    if res > bound:
        v.fail("residual", cls, f"||A x - S|| = {res:.3e} > {bound:.3e} (n={n}, kappa1={kap:.2e}, "
               f"relative to ||S||: {res / max(np.linalg.norm(S), 1e-300):.3e})")
        return None
    return {"solver": s, "A": A, "S": S, "x": x, "kappa": kap, "anorm": anorm, "cls": cls, "name": name,
            "res_over_bound": res / bound if bound > 0 else 0.0}


def check_solve(case, v: Verdict):
    g = case["grid"]
    grid = make_grid(g)
    parts = make_particles(case)
    P = len(parts)
    hom = case["kind"] == "hom"
    cls_bg = case["bg"]["cls"]
    bgobj, (T, vv, phi) = make_background(case, grid, 0.0 if hom else 1.0)
    snap = _snapshot(bgobj)
    Ks = kernels(case, g["N"])
    n = P * (g["M"] - 1) * (g["N"] - 1) ** 2
    v.label(f"kind:{case['kind']}", f"bg:{cls_bg}", f"grid:{g['kind']}", f"N{g['N']}", f"P{P}",
            "M<=8" if g["M"] <= 8 else ("M<=16" if g["M"] <= 16 else "M<=24"),
            f"install:{case.get('install')}", "stats:" + "".join(p["stat"][0] for p in case["particles"]),
            "n<200" if n < 200 else ("n<1000" if n < 1000 else "n>=1000"))
    tmpdir = tempfile.mkdtemp(prefix="c12_") if case.get("install") in ("files", "files_other") else None
    try:
        configs = [c + ("Spectral",) for c in SPECTRAL_CONFIGS] + [("Cardinal", "Cardinal", "Finite Difference"),
                                                                   ("Cardinal", "Cardinal", "Finite Difference", "route")]
        if hom:
            return _check_hom(case, v, grid, parts, bgobj, snap, Ks, tmpdir, configs[:5])
        sols = {}
        for cfg in configs:
            out = _solve_config(case, grid, parts, bgobj, cfg, Ks, tmpdir, v, cls_bg)
            if out is None:
                return
            sols[_cfg_name(cfg)] = out
            v.checked("background-copy")
            sb = out["solver"].background
            if not _bg_unchanged(bgobj, snap):
                v.fail("background-copy", out["cls"], "setBackground/solve modified the caller's background")
                return
            if sb is bgobj or np.shares_memory(sb.velocityProfile, bgobj.velocityProfile) \
                    or np.shares_memory(sb.temperatureProfile, bgobj.temperatureProfile) \
                    or np.shares_memory(np.asarray(sb.fieldProfiles), np.asarray(bgobj.fieldProfiles)):
                v.fail("background-copy", out["cls"], "solver background shares memory with the caller's background")
                return
        kmax = max(o["kappa"] for o in sols.values())
        v.info["kappa_max"] = kmax
        v.info["res_over_bound"] = max(o["res_over_bound"] for o in sols.values())
        v.label("kappa<1e4" if kmax < 1e4 else ("kappa<1e8" if kmax < 1e8 else "kappa>=1e8"))
        ref = sols["Sp:Card/Card"]
        Snorm = float(np.linalg.norm(ref["S"]))
        v.nontrivial = bool(Snorm > 0 and kmax <= KAPPA_NONTRIVIAL)
        # ---- basis independence of delta f as a function on the grid ----------------------------
        f_ref = to_values(ref["x"], grid, "Cardinal", "Cardinal")
        fmax = float(np.abs(f_ref).max())
        msq_int = np.array([0.5 * p["y"] ** 2 * phi[1:-1] ** 2 + p["m0sq"] * g["T0"] ** 2 for p in case["particles"]])
        W = delta_weights(grid, msq_int)
        deltas = {}
        worst_b = 0.0
        for cfg in configs[:4]:
            o = sols[_cfg_name(cfg)]
            f = to_values(o["x"], grid, cfg[0], cfg[1])
            o["f"] = f
            res = o["solver"].getDeltas(o["x"])
            if not _bg_unchanged(bgobj, snap):
                v.fail("background-copy", o["cls"], "getDeltas modified the caller's background")
                return
            deltas[o["name"]] = {k: np.asarray(getattr(res.Deltas, k).coefficients) for k in W}
            if cfg[:2] == ("Cardinal", "Cardinal"):
                continue
            v.checked("basis-deltaf")
            rel = K_BASIS * EPS * (o["kappa"] + ref["kappa"])
            err = float(np.abs(f - f_ref).max())
            worst_b = max(worst_b, err / (rel * fmax) if fmax > 0 else 0.0)
            if err > rel * fmax:
                v.fail("basis-deltaf", f"{o['name']} vs Card/Card bg={cls_bg}",
                       f"delta f on the grid differs by {err:.3e} (max|f|={fmax:.3e}, bound {rel * fmax:.3e}, "
                       f"kappa={o['kappa']:.2e}/{ref['kappa']:.2e})")
                return
            v.checked("basis-deltas")
            for k, Wk in W.items():
                scale = np.abs(Wk).sum(axis=(2, 3)) * fmax
                d = np.abs(deltas[o["name"]][k] - deltas[ref["name"]][k])
                if d.shape != scale.shape:
                    v.fail("basis-deltas", f"{o['name']} vs Card/Card bg={cls_bg}", f"{k} has shape {d.shape}")
                    return
                if np.any(d > rel * scale + 1e-300):
                    v.fail("basis-deltas", f"{o['name']} vs Card/Card bg={cls_bg}",
                           f"{k} differs by {d.max():.3e} (bound {float((rel * scale).max()):.3e})")
                    return
        v.info["basis_err_over_bound"] = worst_b
        # ---- finite-difference route of EOM.getBoltzmannFiniteDifference -------------------------
        v.checked("fd-route")
        fd, fr = sols["Fi:Card/Card"], sols["Fi:Card/Card:route"]
        rel = K_BASIS * EPS * (fd["kappa"] + fr["kappa"])
        err = float(np.abs(fd["x"] - fr["x"]).max())
        if err > rel * float(np.abs(fd["x"]).max()):
            v.fail("fd-route", f"bg={cls_bg}", f"finite-difference solution via deep copy + changeBasis differs "
                   f"from the directly built one by {err:.3e} (max {np.abs(fd['x']).max():.3e})")
            return
        # ---- harness reference in function space ---------------------------------------------------
        v.checked("reference")
        A0, S0, cdiff = reference_system(case, grid, T, vv, phi, Ks)
        k0, _, lu0 = kappa1(A0)
        if not np.isfinite(k0) or k0 > KAPPA_DISCARD:
            v.discarded("singular: harness kappa > 1e10")
            return
        from scipy.linalg import lu_solve

        f0 = lu_solve(lu0, S0, check_finite=False).reshape(f_ref.shape)
        # cdiff: computed conditioning of the spectral differentiation of the profiles (cancellation
        # in D@T, D@v, D@m^2), relative to the assembled source and force term
        rel = K_REF * EPS * (k0 + ref["kappa"]) * (1 + cdiff)
        v.info["cdiff"] = cdiff
        err = float(np.abs(f_ref - f0).max())
        f0max = max(fmax, float(np.abs(f0).max()))
        v.info["ref_err_over_bound"] = err / (rel * f0max) if f0max > 0 else 0.0
        if err > rel * f0max:
            # diagnose which piece differs (allowing a common sign convention)
            dA = float(np.abs(ref["A"] - A0).max() / max(np.abs(A0).max(), 1e-300))
            dS = float(np.abs(ref["S"] - S0).max() / max(np.abs(S0).max(), 1e-300))
            v.fail("reference", f"Sp:Card/Card bg={cls_bg} stats={''.join(p['stat'][0] for p in case['particles'])}",
                   f"delta f differs from the harness collocation solution by {err:.3e} (max|f|={f0max:.3e}, "
                   f"bound {rel * f0max:.3e}); relative difference of operator {dA:.2e}, of source {dS:.2e}")
            return
    finally:
        if tmpdir:
            shutil.rmtree(tmpdir, ignore_errors=True)


def _check_hom(case, v, grid, parts, bgobj, snap, Ks, tmpdir, configs):
    g = case["grid"]
    pct_bg = dict(case["bg"], cls="pct")
    bg_pct, _ = make_background(case, grid, 1.0, bg=pct_bg)
    v.nontrivial = False
    worst = 0.0
    for cfg in configs:
        s = make_solver(case, grid, parts, bgobj, cfg[0], cfg[1], cfg[2], Ks, tmpdir)
        sp = make_solver(case, grid, parts, bg_pct, cfg[0], cfg[1], cfg[2], Ks, tmpdir)
        A, S, _, _ = s.buildLinearEquations()
        _, Sp, _, _ = sp.buildLinearEquations()
        x = np.asarray(s.solveBoltzmannEquations()).reshape(-1)
        xp = np.asarray(sp.solveBoltzmannEquations()).reshape(-1)
        name = _cfg_name(cfg)
        cls = f"{name} hom"
        kap, anorm, _ = kappa1(A)
        if not np.isfinite(kap) or kap > KAPPA_DISCARD:
            v.discarded("singular: kappa > 1e10")
            return
        v.checked("hom-source")
        s1, sp1 = float(np.abs(S).sum()), float(np.abs(Sp).sum())
        bS = K_HOM * EPS * g["M"] ** 2 * sp1 / 0.01
        worst = max(worst, s1 / bS if bS > 0 else 0.0)
        if s1 > bS:
            v.fail("hom-source", cls, f"homogeneous background: ||S||_1 = {s1:.3e}, 1 % reference {sp1:.3e}, "
                   f"bound {bS:.3e}")
            return
        v.checked("hom-deltaf")
        x1, xp1 = float(np.abs(x).sum()), float(np.abs(xp).sum())
        bX = 10 * (kap / anorm) * bS + K_HOM * EPS * kap * x1  # 10: gecon is an estimate of ||A^-1||_1
        if x1 > bX or not np.all(np.isfinite(x)):
            v.fail("hom-deltaf", cls, f"homogeneous background: ||delta f||_1 = {x1:.3e} (1 % reference "
                   f"{xp1:.3e}), bound {bX:.3e}, kappa1 = {kap:.2e}")
            return
        v.info.setdefault("hom_ratio", {})[name] = x1 / xp1 if xp1 > 0 else None
        if not _bg_unchanged(bgobj, snap):
            v.fail("background-copy", cls, "setBackground/solve modified the caller's background")
            return
    v.info["hom_source_over_bound"] = worst


# ---------------------------------------------------------------------------
# finite-difference vs spectral convergence
# ---------------------------------------------------------------------------
def test_function(case, grid):
    """Smooth sampled g vanishing at chi = +-1, rz = +-1, rp = 1.  Quadratic in rz (so that both
    derivative modes differentiate it exactly in rz and only the spatial derivative is compared)."""
    chi, rz, rp = grid.getCompactCoordinates()
    gp = case["g"]
    P = len(case["particles"])
    w = (1 - chi ** 2) * np.cosh(gp["a"] * (chi - gp["x0"])) ** -1
    q = gp["q"]
    hz = 1 - rz ** 2
    hp = (1 - rp) * (1 + q[0] * rp + q[1] * rp ** 2)
    g = w[:, None, None] * hz[None, :, None] * hp[None, None, :]
    return np.stack([(1 + 0.5 * a * q[2]) * g for a in range(P)])


def check_conv(case, v: Verdict):
    import WallGo
    from WallGo.collisionArray import CollisionArray

    g = case["grid"]
    cls_bg = case["bg"]["cls"]
    parts = make_particles(case)
    P = len(parts)
    v.label("kind:conv", f"bg:{cls_bg}", f"grid:{g['kind']}", f"N{g['N']}", f"P{P}",
            "stats:" + "".join(p["stat"][0] for p in case["particles"]))
    for a in case.get("avoided", []):
        v.label(f"avoided:{a}", f"avoided:{a}:{case['bg'].get('tied_from')}")
    v.nontrivial = True
    eS, eL = [], []
    for M in CONV_MS:
        grid = make_grid(g, M)
        bgobj, _ = make_background(case, grid)
        out = {}
        for deriv in ("Spectral", "Finite Difference"):
            s = WallGo.BoltzmannSolver(grid, "Cardinal", "Cardinal", deriv)
            s.updateParticleList(parts)
            s.setBackground(bgobj)
            ca = CollisionArray(grid, "Cardinal", parts)
            ca.polynomialData.coefficients = np.zeros((P, g["N"] - 1, g["N"] - 1, P, g["N"] - 1, g["N"] - 1))
            s.setCollisionArray(ca)
            _, S, L, _ = s.buildLinearEquations()
            gv = test_function(case, grid)
            Lg = np.einsum("aijkbxyz,bxyz->aijk", L, gv)
            out[deriv] = (S, Lg)
        S0, L0 = out["Spectral"]
        S1, L1 = out["Finite Difference"]
        n0 = float(np.linalg.norm(S0))
        if not n0 > 0:
            raise ValueError("harness error: conv case with zero spectral source")
        eS.append(float(np.linalg.norm(S1 - S0)) / n0)
        eL.append(float(np.linalg.norm(L1 - L0)) / float(np.linalg.norm(L0)))
    v.info["e_source"] = eS
    v.info["e_liouville"] = eL
    for sub, e in (("fd-source", eS), ("fd-liouville", eL)):
        v.checked(sub)
        cls = f"bg={cls_bg}"
        if not np.all(np.isfinite(e)):
            v.fail(sub, cls, f"non-finite error sequence {e}")
            continue
        if e[2] > max(e[0] / 4, 1e-8) or e[3] > max(e[1] / 4, 1e-8):
            v.fail(sub, cls, f"finite-difference term does not converge to the spectral one: relative error "
                   f"{['%.3e' % t for t in e]} on M = {CONV_MS}")
        elif e[3] > 5e-2:
            v.fail(sub, cls, f"finite-difference term still {e[3]:.3e} away from the spectral one at M = 64: "
                   f"{['%.3e' % t for t in e]}")


# ---------------------------------------------------------------------------
# equilibrium helpers
# ---------------------------------------------------------------------------
def check_dfeq(case, v: Verdict):
    from WallGo import BoltzmannSolver

    v.label("kind:dfeq")
    v.nontrivial = False  # the property's rule: inhomogeneous background with non-zero source
    x = np.array(case["x"], dtype=float)
    for s, nm in ((1, "Boson"), (-1, "Fermion")):
        v.checked("dfeq-identity")
        f = np.asarray(BoltzmannSolver._feq(x, s), dtype=float)
        d = np.asarray(BoltzmannSolver._dfeq(x, s), dtype=float)
        want = -f * (1 + s * f)
        bad = np.abs(d - want) > 1e-9 * np.abs(want)
        if np.any(bad):
            i = int(np.argmax(bad))
            v.fail("dfeq-identity", nm, f"_dfeq({x[i]!r}) = {d[i]!r} but d/dx _feq = -f(1 {'+' if s > 0 else '-'} f) = {want[i]!r}")
        # array of statistics (as used in buildLinearEquations) and the overflow guard
        big = np.array([case["big"]])
        fb = np.asarray(BoltzmannSolver._feq(big, s), dtype=float)
        db = np.asarray(BoltzmannSolver._dfeq(big, s), dtype=float)
        if not (np.all(np.isfinite(fb)) and np.all(np.isfinite(db)) and np.all(np.abs(fb) < 1e-300)
                and np.all(np.abs(db) < 1e-300)):
            v.fail("dfeq-identity", nm + " large-x", f"_feq/_dfeq at x={case['big']}: {fb}, {db}")


def check_case(case) -> Verdict:
    v = Verdict()
    kind = case["kind"]
    if kind in ("solve", "hom"):
        check_solve(case, v)
    elif kind == "conv":
        check_conv(case, v)
    elif kind == "dfeq":
        check_dfeq(case, v)
    else:
        raise ValueError(kind)
    return v
