"""C08 - results are covariant under relabelling of field space (metamorphic, pairwise).

User fields u = P(S x + c): permutation P, signs S, translation c of the base fields x, with the
potential, particle masses, phase guesses and per-field variation scales transformed consistently
(vlib.zoo_potentials).  Runs: A = identity, B = relabelled, C = identity with tightened tolerances
(measures the sensitivity of each output to the solver tolerances).  Invariants: vJ, alpha_n, Psi_n,
vMin, LTE velocity, wall velocity, T+-, multiset of wall widths, wall-centre separations
z_i - z_j = -delta_i L_i + delta_j L_j; phase locations map by the affine map.
"""
from __future__ import annotations

import math

import numpy as np
from hypothesis import strategies as st

from vlib import e2e
from vlib import zoo_potentials as zp
from vlib.core import Verdict, canonical

PROPERTY_ID = "C08"
ENGINE = "hypothesis @given; metamorphic pair (relabelled vs original fields) on the public pipeline in fresh processes"
RULE = (
    "Case = multi-field model point (Z2x2 two fields; Cubic1 one field for reflections/translations) x "
    "relabelling u = P(S x + c): P over all orderings, S in {+-1}^n, c_i in {0} u +-[1,5000] (base units, "
    "vev ~ 200). Non-trivial = relabelling is not the identity and the untransformed run succeeds (or is a "
    "clean runaway); labels: permutation-only / reflection-only / translation-only / mixed. Distinct by canonical JSON."
)
BUDGET = {
    "quick": {"cases": 32, "shrink": False, "dedupe": True, "time_cap_s": 900, "max_discard": 0.5},
    "thorough": {"cases": 500, "shrink": False, "dedupe": True, "time_cap_s": 6 * 3600, "max_discard": 0.5},
}
K = 10.0
SETTINGS = {
    "default": {"errTol": 1e-3, "hydroRelTol": 1e-6, "hydroAbsTol": 1e-10, "phaseTracerTol": 1e-6,
                "spatialGridSize": 30, "momentumGridSize": 5},
    "tight": {"errTol": 3e-4, "hydroRelTol": 1e-8, "hydroAbsTol": 1e-12, "phaseTracerTol": 1e-8,
              "spatialGridSize": 30, "momentumGridSize": 5},
}
TOLERANCES = {
    "K": K, "wall_velocity": "2*errTol", "width_rel": 0.01, "centre_separation_abs_in_1/Tn": 0.02,
    "note": "width/centre tolerances are envelopes (x5) of the differences seen on the unchanged tree over "
            "seeds 1,2,3,5,8 (pinning a different field's offset moves the Nelder-Mead optimum slightly: "
            "max seen width 6e-3, centre separation 1.5e-2/Tn)",
}
ASSUMPTIONS = [
    "Affine relabellings only (permutation, reflection, translation); rotations are not claimed by the property.",
    "The tracing tolerance is relative to max(|phi|, T) in *user* coordinates, so a translation changes the "
    "tolerance itself; allowances use the translated field size.",
]
WALL = {"offEq": False, "mfp": 50.0, "thick": 5.0}
_CACHE: dict = {}


@st.composite
def st_case(draw):
    fam = draw(st.sampled_from(["Z2x2", "Z2x2", "Z2x2", "Cubic1"]))
    if fam == "Z2x2":
        spec = draw(zp.st_z2x2(delta_range=(0.04, 0.13)))
        nf = 2
    else:
        spec = draw(zp.st_cubic1_margin(min_alpha=2e-3))
        nf = 1
    spec = zp.with_guess(spec, draw(zp.st_guess()))
    kind = draw(st.sampled_from(["perm", "refl", "trans", "mixed", "mixed"]))
    perm = list(range(nf))
    signs = [1.0] * nf
    shift = [0.0] * nf
    if kind in ("perm", "mixed") and nf > 1:
        perm = list(draw(st.permutations(list(range(nf)))))
        if kind == "perm":
            perm = [1, 0]
    if kind in ("refl", "mixed"):
        signs = [draw(st.sampled_from([1.0, -1.0])) for _ in range(nf)]
        if kind == "refl" and all(s == 1.0 for s in signs):
            signs[draw(st.integers(0, nf - 1))] = -1.0
    if kind in ("trans", "mixed"):
        shift = [draw(st.sampled_from([0.0, 1.0, 1.0])) * draw(st.sampled_from([-1.0, 1.0]))
                 * round(10 ** draw(st.floats(0.0, 3.7)), 1) for _ in range(nf)]
        if kind == "trans" and all(c == 0 for c in shift):
            shift[0] = 37.5
    case = {"kind": "relabel", "spec": spec, "relabel": {"perm": perm, "signs": signs, "shift": shift}}
    if draw(st.sampled_from([False, True, True])):
        case["history"] = {"mode": draw(st.sampled_from(["rebound", "same-manager", "same-manager"])),
                           "reregister": draw(st.booleans())}
    return case


def strategy(tier):
    return st_case()


HISTORY_RTOL = 1e-9


def _run(spec, cfg):
    what = ["hydro", "lte", "solve"]
    key = canonical([spec, cfg, what])
    if key not in _CACHE:
        _CACHE[key] = e2e.fresh_run({"spec": spec, "cfg": cfg, "what": what, "settings": WALL,
                                     "profiles": False})
    return _CACHE[key]


def _kind(rel, nf):
    p = rel["perm"] != list(range(nf))
    r = any(s != 1.0 for s in rel["signs"])
    t = any(c != 0.0 for c in rel["shift"])
    if p + r + t == 0:
        return "identity"
    if p + r + t > 1:
        return "mixed"
    return "permutation" if p else "reflection" if r else "translation"


def check_case(case) -> Verdict:
    v = Verdict()
    base = dict(case["spec"])
    base.pop("relabel", None)
    relab = dict(base, relabel=case["relabel"])
    cf = zp.closed(base)
    nf = cf.nf
    rel = zp.Relabel(nf, case["relabel"], 1.0)
    kind = _kind(case["relabel"], nf)
    fam = base["family"]
    cls = f"{fam} {kind}"
    v.label(f"family:{fam}", f"relabel:{kind}", "guess:rough" if base.get("guess") else "guess:exact")
    cfg, cfg_t = SETTINGS["default"], SETTINGS["tight"]
    A = _run(base, cfg)
    if A.get("timeout"):
        v.discarded("timeout (inconclusive)")
        return v
    if "setup_error" in A:
        # set-up failing in one labelling and succeeding in the other is itself a covariance violation; only a
        # model that cannot be set up in either labelling is outside the domain
        B = _run(relab, cfg)
        if B.get("timeout"):
            v.discarded("timeout (inconclusive)")
            return v
        v.checked("setup")
        if "setup_error" not in B:
            v.label("guess:int" if base.get("guess_int") else "guess:float")
            v.fail("setup", cls + " original-fails",
                   f"set-up fails for the original fields ({A['setup_error'][:160]}) but succeeds after relabelling "
                   f"{case['relabel']}" + (" (phase guesses typed as integers)" if base.get("guess_int") else ""))
            return v
        v.discarded("set-up failed in both labellings")
        return v
    B = _run(relab, cfg)
    v.checked("setup")
    if B.get("timeout") or A.get("timeout"):
        v.discarded("timeout (inconclusive)")
        return v
    if "setup_error" in B:
        v.fail("setup", cls, f"set-up succeeds for the original fields but fails after relabelling "
                             f"{case['relabel']}: {B['setup_error'][:200]}")
        return v
    C = _run(base, cfg_t)
    if C.get("timeout"):
        v.discarded("timeout (inconclusive)")
        return v
    if "setup_error" in C:
        v.discarded("untransformed tight setup failed")
        return v
    hist = case.get("history")
    if hist:
        # call history: the original labelling was analysed first ON THE SAME OBJECTS (same manager; "rebound": same
        # model / potential object re-expressed in place); the answers for the relabelled model must be those of a
        # fresh analysis of the relabelled model (run B)
        H = e2e.fresh_run({"spec": relab, "cfg": cfg, "what": ["hydro", "lte"],
                           "first": {"spec": base, "mode": hist["mode"], "reregister": bool(hist.get("reregister"))}})
        v.label(f"history:{hist['mode']}")
        if H.get("timeout"):
            v.label("history:timeout")
        else:
            v.checked("history")
            hcls = f"{cls} {hist['mode']}" + (" reregistered" if hist.get("reregister") else "")
            if "setup_error" in H:
                v.fail("history", hcls + " setup", f"after an analysis of the original labelling on the same objects the "
                       f"set-up of the relabelled model fails ({H['setup_error'][:200]}); a fresh one succeeds")
            else:
                worst = e2e.history_worst(H, B)
                v.info["history_worst"] = list(worst)
                if worst[0] > HISTORY_RTOL:
                    v.fail("history", hcls, f"{worst[1]} after an analysis of the original labelling on the same objects "
                           f"differs from a fresh analysis of the relabelled model by {worst[0]:.3e} (relative; allowed "
                           f"{HISTORY_RTOL:g}): {H['hydro'].get(worst[1], H.get('lte'))!r} vs "
                           f"{B['hydro'].get(worst[1], B.get('lte'))!r}")
    ha, hb, hc = A["hydro"], B["hydro"], C["hydro"]
    Tn = ha["Tnucl"]
    tolTrace, tolHyd = cfg["phaseTracerTol"], cfg["hydroRelTol"]
    alN = max(float(ha["alN"] or 1e-3), 1e-6)
    # tracing tolerance is relative to max(|phi_user|, T): translation enlarges it
    size_user = max(Tn, max(abs(x) for x in hb["phase1"] + hb["phase2"]))
    size_base = max(Tn, max(abs(x) for x in ha["phase1"] + ha["phase2"]))
    amp = max(1.0, size_user / size_base)
    FLOOR = {"alN": K * tolTrace * amp, "psiN": K * tolTrace * amp,
             "vJ": K * (tolTrace * amp / math.sqrt(alN) + tolHyd), "vMin": K * tolHyd,
             "vwLTE": K * (tolTrace * amp / alN + tolHyd / math.sqrt(alN))}

    def cmp(stage, name, a, b, c, floor_abs):
        if a is None or b is None:
            if (a is None) != (b is None):
                v.fail(stage, cls, f"{name}: {a} originally but {b} after relabelling")
            return
        allow = K * (abs(a - c) if c is not None else 0.0) + floor_abs
        err = abs(b - a)
        v.info[f"{name}_err_over_allow"] = err / allow if allow > 0 else (0.0 if err == 0 else float("inf"))
        if err > allow:
            v.fail(stage, cls, f"{name}: {b!r} after relabelling vs {a!r}: |diff|={err:.3e} > allowance {allow:.3e}")

    # ---- phase locations map by the affine map
    v.checked("phases")
    for k in ("phase1", "phase2"):
        mapped = rel.to_user(np.array(ha[k]))
        mapped_c = rel.to_user(np.array(hc[k]))
        for i in range(nf):
            cmp("phases", f"{k}[{i}]", float(mapped[i]), hb[k][i], float(mapped_c[i]), K * 1e-5 * size_user)
    if not v.violations:
        v.checked("hydro")
        for k in ("vJ", "alN", "psiN", "vMin"):
            cmp("hydro", k, ha[k], hb[k], hc[k], FLOOR[k])
    if not v.violations:
        v.checked("lte")
        la, lb, lc = A.get("lte"), B.get("lte"), C.get("lte")
        if (la is None) != (lb is None):
            v.fail("lte", cls, f"LTE solver: {A.get('lte_error', la)} originally vs {B.get('lte_error', lb)} relabelled")
        elif la is not None:
            if la in (0.0, 1.0) or lb in (0.0, 1.0):
                if la != lb and (lc is None or lc == la):
                    v.fail("lte", cls, f"LTE sentinel differs: {la} vs {lb}")
            else:
                cmp("lte", "vwLTE", la, lb, lc, FLOOR["vwLTE"])
    sa, sb, sc = A.get("solve"), B.get("solve"), C.get("solve")
    ok_ref = bool(sa and sa["success"])
    if not v.violations:
        v.checked("wall")
        if (sa is None) != (sb is None):
            v.fail("wall", cls, f"solveWall: {A.get('solve_error')} originally vs {B.get('solve_error')} relabelled")
        elif sa is not None:
            v.label(f"outcome:{sa['solutionType']}")
            same_in_c = sc is not None and sc["solutionType"] == sa["solutionType"] and sc["success"] == sa["success"]
            if (sa["success"], sa["solutionType"]) != (sb["success"], sb["solutionType"]):
                if same_in_c:
                    v.fail("wall", cls, f"solution type differs: {sa['solutionType']}/{sa['success']} vs "
                                        f"{sb['solutionType']}/{sb['success']} ({sb['message'][:80]})")
                else:
                    v.discarded("solution type sits on a threshold (changes with the tolerance setting too)")
            elif sa["success"] and sa["wallVelocity"] is not None:
                errTol = cfg["errTol"]
                dv = abs(sa["wallVelocity"] - sb["wallVelocity"])
                v.info["wallVelocity_diff_over_errTol"] = dv / errTol
                if dv > 2 * errTol:
                    v.fail("wall", cls, f"wall velocity {sb['wallVelocity']} after relabelling vs {sa['wallVelocity']}: diff {dv:.2e} > 2 errTol")
                for k2 in ("temperaturePlus", "temperatureMinus"):
                    if abs(sa[k2] - sb[k2]) / Tn > 5.0 * dv + 1e-5:
                        v.fail("wall", cls, f"{k2} differs: {sb[k2]} vs {sa[k2]}")
                # widths: user field k is base field perm[k]
                wa = np.array(sa["wallWidths"]) * Tn
                wb_user = np.array(sb["wallWidths"]) * Tn
                oa = np.array(sa["wallOffsets"])
                ob_user = np.array(sb["wallOffsets"])
                wb = np.empty(nf)
                ob = np.empty(nf)
                wb[rel.perm] = wb_user
                ob[rel.perm] = ob_user
                wr = float(np.max(np.abs(np.sort(wb) - np.sort(wa)) / np.sort(wa)))
                v.info["width_rel_diff"] = wr
                sens_w = 0.0
                if sc is not None and sc.get("wallWidths"):
                    sens_w = float(np.max(np.abs(np.array(sc["wallWidths"]) * Tn - wa) / wa))
                if wr > TOLERANCES["width_rel"] + K * sens_w:
                    v.fail("wall", cls, f"multiset of wall widths differs: {np.sort(wb)} vs {np.sort(wa)} (x Tn)")
                if nf > 1:
                    za = -oa * wa
                    zb = -ob * wb
                    sep = float(np.max(np.abs((zb - zb[0]) - (za - za[0]))))
                    v.info["centre_separation_diff"] = sep
                    sens_z = 0.0
                    if sc is not None and sc.get("wallWidths"):
                        wc = np.array(sc["wallWidths"]) * Tn
                        zc = -np.array(sc["wallOffsets"]) * wc
                        sens_z = float(np.max(np.abs((zc - zc[0]) - (za - za[0]))))
                    if sep > TOLERANCES["centre_separation_abs_in_1/Tn"] + K * sens_z:
                        v.fail("wall", cls, f"wall-centre separations differ by {sep:.3e}/Tn: {zb - zb[0]} vs {za - za[0]}")
    v.nontrivial = bool(kind != "identity" and ok_ref and not v.discard)
    return v
