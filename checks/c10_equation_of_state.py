"""C10 - equation of state is thermodynamically consistent and smoothly extrapolated.

A Thermodynamics object is built from a zoo potential (Z2x2, Cubic1; closed-form p(T) per phase)
  direct   Thermodynamics + FreeEnergy.tracePhase on generated ranges / dT / rTol / paranoid, setExtrapolate
  manager  the public WallGoManager sequence registerModel + setupThermodynamicsHydrodynamics
           (zoo_potentials.setup_manager) with generated phaseTracerTol / temperature scale
  history  a call history on ONE Thermodynamics object: direct trace + setExtrapolate, p/dp/ddp/e/w/c_s^2
           requested inside and outside the ranges, optionally two parameters of the potential changed in
           place (parameter scan re-using the object), both phases traced AGAIN with other generated
           ranges / dT / rTol / paranoid, setExtrapolate; all sub-oracles apply to the final state (the
           property speaks about the reported values whatever happened before)
and evaluated at generated temperatures from 0.2 TMin to 5 TMax of each phase's tabulated range
(TMin/TMax = min/maxPossibleTemperature[0]) and at TMin(1 +- 10^[-9,-2]), TMax likewise.

Sub-oracles
  eos-e, eos-w      e = T dp - p, w = T dp (rounding)
  eos-csq           c_s^2 * d(e_reported)/dT = dp ; de/dT = 5-point derivative of the REPORTED e, stencil
                    placed inside one analytic piece (one spline interval, or one extrapolated region)
  deriv-dp/-ddp     reported dp (ddp) = 5-point derivative of reported p (dp), same stencil placement
  cont-p/-dp/-ddp/-csq   one-sided quadratic extrapolations to each end of each tabulated range agree
  p-minus-V         inside the range p = -V at the closed-form minimum: plain bound 10*tol*|p| (when dT is
                    tied to tol as the manager does) and sharp bound 5*(ideal-spline error)+nodal+rounding
  alpha-formula     alpha(Tn) equals its definition evaluated on the reported e, p, w, c_s^2
  p-minus-V-nodes   tabulated V at every well-conditioned node inside the range = V at the closed-form minimum
                    (second order in the position tolerance)
  alpha-closed      alpha(Tn) equals the closed form within the propagated ideal-spline error plus the
                    (observed, separately bounded) contribution of the nodal errors
  outside-table     (outcome) un-extrapolated FreeEnergy outside its table raises WallGoError

History-snap (call histories on one object): a re-trace with one end of each range moved to within rounding (3e-16 ..
1e-8 relative) beyond a temperature the first table already held, same dT/rTol/paranoid with dT <= 2e-3 Tn so that
the integrator retraces its steps (verified: every interior temperature of the new table is one of the first).  p, dp,
ddp at and next to the new end must stay as accurate (against the closed form) as the first table was: allowance =
max(10 x first table's relative accuracy at the same distance from its own end, 30 x its accuracy at that very
temperature, nodal-noise image K delta (1, 4/dT, 16/dT^2) with delta measured on the first table, measured envelope
SNAP_ENV).  Catches tables with almost coincident temperatures at an end (derivatives = rounding noise).
"""
from __future__ import annotations

import math

import numpy as np
from hypothesis import strategies as st

from checks import c11_phase_tracing as c11
from vlib import zoo_potentials as zp
from vlib.core import Verdict

PROPERTY_ID = "C10"
ENGINE = "hypothesis @given over zoo potentials; harness finite differences with Fornberg weights"
RULE = (
    "Generated: family (Z2x2, Cubic1) and couplings, nucleation temperature, construction mode (direct "
    "tracePhase with ranges inside / crossing ends of phases, dT, rTol, paranoid; or WallGoManager set-up "
    "with phaseTracerTol and temperature scale; or a re-trace history on one object with evaluations in "
    "between and optionally parameters changed in place; direct tables optionally widened with "
    "extendInterpolationTable and/or handed over by the caller through newInterpolationTableFromValues from "
    "work buffers that are re-used afterwards), 16 generated temperatures per case (below, inside, above "
    "each phase's range; TMin/TMax*(1 +- 10^[-9,-2])) plus a fixed log grid 0.2 TMin .. 5 TMax. "
    "Non-trivial = at least one evaluated temperature outside the tabulated range of its phase or within "
    "1e-2 (relative) of its end; distinct by canonical JSON of the case (model, construction, temperatures)."
)
BUDGET = {
    "quick": {"cases": 256, "shrink": False, "time_cap_s": 400},
    "thorough": {"cases": 3200, "shrink": False, "time_cap_s": 2400},
}
EPS = 2.0 ** -52
K_TOL = 10.0
REL_FD = 1e-7
REL_FD_BLIND = 1e-4
REL_CONT = 1e-7
TOLERANCES = {
    "K": K_TOL,
    "identity_rounding": "8*eps*(|T dp| + |p|)",
    "REL_FD": REL_FD,
    "REL_FD_note": "stencil inside one analytic piece (cubic piece: 5-point rule exact; power-law piece: "
                   "truncation 400*(h/T)^4*|f|/T with h/T <= 1e-3) + rounding 32*eps*sum|w_j f_j|; DESIGN allows 1e-5/1e-4",
    "REL_FD_BLIND": REL_FD_BLIND,
    "REL_CONT": REL_CONT,
    "cont_note": "jump of one-sided quadratic extrapolations <= REL_CONT*|f| + 2*|second differences| + 4*|third differences| "
                 "(offsets at which the differences do not decay are skipped and labelled)",
    "p_minus_V_plain": "10*tol*|p| when dT <= T*tol^0.25",
    "p_minus_V_sharp": "5*|ideal-spline error| (exact data on observed abscissae) + lambda_max*(nodal position tol)^2 + 64*eps*sum|terms|",
    "alpha": "sum |d alpha/dq| * bound(q) over q in {pH,dpH,pL,dpL,ddpL}; bound(q) = 5*ideal-spline error + 2*|S[e]^(n)(Tn)| + rounding",
    "p_minus_V_nodes": "lambda_max*(K*tol*G/lambda_min + floor)^2 + 64*eps*sum|terms|",
}
ASSUMPTIONS = [
    "Closed forms of vlib.zoo_potentials (p, dp, ddp per phase, continuation through merge-like ends) are the oracle.",
    "Thermodynamics methods are called with scalar temperatures (they branch on `temperature < TMin`).",
    "Tabulated range of a phase = [minPossibleTemperature[0], maxPossibleTemperature[0]] as used by setExtrapolate.",
    "Spline knots are observed through FreeEnergy._interpolationPoints (getattr guard); without them the "
    "derivative sub-oracles fall back to centred stencils with REL_FD_BLIND and the sharp p=-V bound is skipped.",
    "If a table has left its branch (C11 finding: hop at a true end of the phase) the table is discontinuous and the "
    "tabulated range of that phase is meaningless (c_s^2 at its end ~0 or negative, extrapolation NaN/overflow): that "
    "phase is skipped and labelled c11-hop-present (the defect is C11's, reported there); an exception of setExtrapolate "
    "is excused only in that situation.",
]
EXHAUSTIVE_SUBDOMAINS = []

PH = ("High", "Low")


# history-snap: measured envelope (x5, rounded up) of the relative error of p, dp, ddp next to the new end of a
# re-traced table on the unchanged tree (dT <= 2e-3 Tn, 6 seeds x quick tier): end effect of the cubic spline
SNAP_ENV = {"p": 5e-7, "dp": 2.5e-4, "ddp": 0.1}   # measured maxima 9.3e-8, 4.3e-5, 1.8e-2 (seeds 1 2 3 5 8 13 21 34)


def _r(x, n=10):
    return float(f"{x:.{n}g}")


# ---------------------------------------------------------------------------
# strategy
# ---------------------------------------------------------------------------
@st.composite
def st_temps(draw, n=16):
    out = []
    for _ in range(n):
        phase = draw(st.sampled_from(["high", "low"]))
        kind = draw(st.sampled_from(["below", "above", "inside", "end", "end"]))
        if kind == "below":
            out.append({"phase": phase, "kind": kind, "u": _r(draw(st.floats(0.0, 0.7)), 4)})
        elif kind == "above":
            out.append({"phase": phase, "kind": kind, "u": _r(draw(st.floats(0.0, 0.7)), 4)})
        elif kind == "inside":
            out.append({"phase": phase, "kind": kind, "u": _r(draw(st.floats(0.0, 1.0)), 6)})
        else:
            out.append({"phase": phase, "kind": kind, "end": draw(st.sampled_from(["min", "max"])),
                        "sign": draw(st.sampled_from([-1, 1])), "u": _r(draw(st.floats(2.0, 9.0)), 3)})
    return out


@st.composite
def st_trace_plan(draw, cf, Tn, keep_start_inside=False):
    """Ranges / dT / rTol / paranoid of one direct tracing of both phases started at Tn."""
    plan = {}
    rTol = draw(st.sampled_from([1e-4, 1e-6, 1e-8]))
    dT_rel = 10.0 ** draw(st.floats(-2.7, -1.3))
    exh, exl = zp.existence_ext(cf, "high"), zp.existence_ext(cf, "low")
    # high-T phase: lower end inside or crossing, upper end some way above Tn
    x = draw(st.floats(0.05, 0.95))
    if draw(st.booleans()) and exh["lo"] > 0:
        TminH = exh["lo"] * (1.0 - 0.3 * x)            # crossing the lower end of the phase
    else:
        TminH = exh["lo"] + x * (Tn - exh["lo"]) if exh["lo"] > 0 else Tn * (1 - 0.3 * x)
    TmaxH = Tn * (1.0 + 10.0 ** draw(st.floats(-1.5, -0.3)))
    y = draw(st.floats(0.05, 0.95))
    if draw(st.booleans()) and math.isfinite(exl["hi"]):
        TmaxL = exl["hi"] * (1.0 + 0.3 * y)            # crossing the upper end of the phase
    else:
        TmaxL = Tn + y * (exl["hi"] - Tn) if math.isfinite(exl["hi"]) else Tn * (1 + 0.3 * y)
    TminL = Tn * (1.0 - 10.0 ** draw(st.floats(-1.5, -0.4)))
    width = max(TmaxH - TminH, TmaxL - TminL)
    # at least 8 steps of table inside the existence interval of each phase, at most ~300 steps in all
    wH = TmaxH - max(TminH, exh["lo"])
    wL = min(TmaxL, exl["hi"]) - TminL
    dT_rel = min(dT_rel, min(wH, wL) / Tn / 8.0)
    dT_rel = max(dT_rel, width / Tn / 300.0)
    if keep_start_inside:
        side = min(Tn - max(TminH, exh["lo"]), TmaxH - Tn, Tn - TminL, min(TmaxL, exl["hi"]) - Tn)
        dT_rel = min(dT_rel, max(side, 0.0) / Tn / 3.5)
        dT_rel = max(dT_rel, width / Tn / 600.0)
    dT = _r(dT_rel * Tn, 6)
    rng = {"high": [_r(TminH, 12), _r(TmaxH, 12)], "low": [_r(TminL, 12), _r(TmaxL, 12)]}
    if draw(st.sampled_from([False, False, True])):
        # ranges that are whole multiples of dT away from the starting temperature, as round user input gives
        # (Tn = 100, TMin = 80, dT = 0.01): the integrator then reaches the end within rounding one step early
        for k in rng:
            for j in (0, 1):
                n = max(1, round(abs(rng[k][j] - Tn) / dT))
                rng[k][j] = Tn - n * dT if j == 0 else Tn + n * dT
        plan["aligned"] = True
    plan.update({"rTol": rTol, "dT": dT, "paranoid": draw(st.booleans()), "ranges": rng})
    return plan


@st.composite
def st_case(draw):
    fam = draw(st.sampled_from(["Z2x2", "Cubic1"]))
    spec = dict(draw(zp.st_z2x2() if fam == "Z2x2" else zp.st_cubic1(delta_range=(0.05, 0.9))))
    spec["units"] = 1.0
    if draw(st.sampled_from([False, False, False, True])):
        spec["Tn_int"] = True   # an integer nucleation temperature, as a user would type it (Tn=100)
    if draw(st.sampled_from([False, False, True])):
        spec["guess_int"] = True   # phase locations typed as integers (integer-dtype Fields), e.g. Fields([0, 200])
    mode = draw(st.sampled_from(["direct", "direct", "manager", "history"]))
    case = {"spec": spec, "mode": mode, "temps": draw(st_temps()),
            "cont": [_r(draw(st.floats(2.0, 9.0)), 3) for _ in range(4)]}
    cf = zp.closed(spec)
    Tn = zp.nucleation_temperature(spec)
    if mode == "manager":
        case["tol"] = draw(st.sampled_from([1e-5, 1e-6, 1e-6, 1e-7]))
        case["tscale_factor"] = draw(st.sampled_from([0.5, 1.0, 1.0, 2.0]))
        return case
    case.update(draw(st_trace_plan(cf, Tn, keep_start_inside=(mode == "history"))))
    if mode == "direct" and draw(st.integers(0, 2)) == 0:
        nb, na = draw(st.sampled_from([(0, 3), (4, 0), (2, 5), (0, 1), (1, 0)]))
        case["extend"] = {"which": draw(st.sampled_from(["high", "low"])), "nbelow": nb, "nabove": na}
    if mode == "direct" and draw(st.integers(0, 3)) == 0:
        case["user_table"] = draw(st.sampled_from(["arrays", "arrays", "lists"]))
    if mode == "history":
        # the SAME Thermodynamics object is traced a second time (other ranges / dT / rTol), optionally after
        # a parameter of the potential was changed in place; derivatives are requested in between
        case["second"] = draw(st_trace_plan(cf, Tn))
        if draw(st.sampled_from([True, True, False])):
            keys = ["ch", "cs"] if fam == "Z2x2" else ["g", "A"]
            case["mutate"] = {k: _r(1.0 + draw(st.floats(-0.02, 0.02)), 5) for k in keys}
        case["between"] = [_r(draw(st.floats(0.0, 1.0)), 4) for _ in range(3)]
        if "mutate" not in case and draw(st.booleans()):
            # second request = the first one with one end of each range moved to just beyond a temperature the
            # first table already holds (same dT / rTol / paranoid, so the integrator retraces its steps and
            # reaches the new end within rounding one step early)
            case["snap"] = {"end": draw(st.sampled_from(["min", "max"])), "u": _r(draw(st.floats(0.0, 1.0)), 4),
                            "rel": draw(st.sampled_from([3e-16, 3e-14, 1e-11, 1e-8]))}
            # steps capped by dT (as in the manager's traces, dT = scale * tol^(1/4)), not error-controlled
            case["dT"] = _r(min(case["dT"], Tn * 10.0 ** draw(st.floats(-3.3, -2.7))), 6)
    return case


def strategy(tier):
    return st_case()


# ---------------------------------------------------------------------------
# finite differences
# ---------------------------------------------------------------------------
def fornberg_first(x0, xs):
    """Weights of the first derivative at x0 on the nodes xs (Fornberg 1988)."""
    n = len(xs)
    c = np.zeros((n, 2))
    c1, c4 = 1.0, xs[0] - x0
    c[0, 0] = 1.0
    for i in range(1, n):
        mn = min(i, 1)
        c2, c5, c4 = 1.0, c4, xs[i] - x0
        for j in range(i):
            c3 = xs[i] - xs[j]
            c2 *= c3
            if j == i - 1:
                for k in range(mn, 0, -1):
                    c[i, k] = c1 * (k * c[i - 1, k - 1] - c5 * c[i - 1, k]) / c2
                c[i, 0] = -c1 * c5 * c[i - 1, 0] / c2
            for k in range(mn, 0, -1):
                c[j, k] = (c4 * c[j, k] - k * c[j, k - 1]) / c3
            c[j, 0] = c4 * c[j, 0] / c3
        c1 = c2
    return c[:, 1]


class Phase:
    """Accessors of one phase of a Thermodynamics object (scalar temperatures)."""

    def __init__(self, th, name):
        self.name = name
        sfx = "HighT" if name == "high" else "LowT"
        self.p = getattr(th, "p" + sfx)
        self.dp = getattr(th, "dp" + sfx)
        self.ddp = getattr(th, "ddp" + sfx)
        self.e = getattr(th, "e" + sfx)
        self.w = getattr(th, "w" + sfx)
        self.csq = getattr(th, "csq" + sfx)
        self.fe = th.freeEnergyHigh if name == "high" else th.freeEnergyLow
        self.TMin = float(getattr(th, "TMin" + sfx))
        self.TMax = float(getattr(th, "TMax" + sfx))
        tab = zp.table_of(self.fe)
        self.knots = tab[0] if tab is not None else None
        self.vals = tab[1] if tab is not None else None

    def piece(self, T):
        """(a, b, kind): the analytic piece of the reported functions that contains T."""
        if T < self.TMin:
            return 0.0, self.TMin, "below"
        if T > self.TMax:
            return self.TMax, math.inf, "above"
        if self.knots is None:
            return self.TMin, self.TMax, "blind"
        k = self.knots
        i = int(np.searchsorted(k, T, side="right")) - 1
        i = min(max(i, 0), k.size - 2)
        return max(float(k[i]), self.TMin), min(float(k[i + 1]), self.TMax), "spline"


def fd_in_piece(f, T, a, b, kind):
    """5-point first derivative of f at T with all nodes inside (a, b).
    Returns (value, step, max|f|, sum|w_j f_j|) or None if the piece is too small."""
    h0 = 1e-3 * T if kind in ("below", "above") else 2e-4 * T
    lo = a + 1e-13 * T if a > 0 else 0.2 * T
    hi = b - 1e-13 * T if math.isfinite(b) else 5.0 * T
    if kind == "below":
        lo = max(lo, 1e-3 * T)
    span = min(4 * h0, hi - lo)
    if span <= 0:
        return None
    left = min(max(T - span / 2, lo), hi - span)
    xs = left + span * np.arange(5) / 4.0
    if not (xs[0] >= lo - 1e-15 * T and xs[-1] <= hi + 1e-15 * T):
        return None
    w = fornberg_first(T, xs)
    fv = np.array([float(f(float(x))) for x in xs])
    return float(np.dot(w, fv)), span / 4.0, float(np.max(np.abs(fv))), float(np.sum(np.abs(w) * np.abs(fv)))


# ---------------------------------------------------------------------------
# construction
# ---------------------------------------------------------------------------
def build(case, v):
    """Returns (thermo, cf, V, tol, dT, Tn, err) or None (outcome labelled).  err is an exception raised by the
    extrapolation set-up AFTER both phases were traced (decided upon in check_case: after a C11 hop the
    table is discontinuous, c_s^2 at its end can be ~0 or negative and pow() overflows)."""
    import WallGo
    from WallGo import WallGoError

    spec = case["spec"]
    Tn = zp.nucleation_temperature(spec)
    if case["mode"] == "manager":
        sp = dict(spec, tscale_factor=case["tscale_factor"])
        cfg = {"phaseTracerTol": case["tol"]}
        manager = zp.new_manager(cfg)
        err = None
        try:
            manager, model, cf, rel = zp.setup_manager(sp, cfg, manager=manager)
        except WallGoError as exc:
            v.label("outcome:setup:WallGoError:" + str(exc)[:30].replace(" ", "_"))
            return None
        except (AssertionError, RuntimeError) as exc:
            v.label("outcome:setup:" + type(exc).__name__)
            return None
        except (OverflowError, ZeroDivisionError, FloatingPointError, ValueError) as exc:
            th = getattr(manager, "thermodynamics", None)
            if th is None or not (th.freeEnergyHigh.hasInterpolation() and th.freeEnergyLow.hasInterpolation()):
                raise
            err = exc
            model = manager.model
            cf = zp.closed(sp)
        th = manager.thermodynamics
        V = model.getEffectivePotential()
        dT = V.derivativeSettings.temperatureVariationScale * case["tol"] ** 0.25
        return th, cf, V, case["tol"], dT, Tn, err
    V, model, cf = zp.configured_potential(spec)
    th = WallGo.Thermodynamics(V, (int(Tn) if spec.get("Tn_int") else float(Tn)),
                               WallGo.Fields(zp.int_guess(cf.phase("low", Tn), spec)),
                               WallGo.Fields(zp.int_guess(cf.phase("high", Tn), spec)))
    th.freeEnergyHigh.disableAdaptiveInterpolation()
    th.freeEnergyLow.disableAdaptiveInterpolation()
    try:
        for which, fe in (("high", th.freeEnergyHigh), ("low", th.freeEnergyLow)):
            a, b = case["ranges"][which]
            fe.tracePhase(a, b, case["dT"], rTol=case["rTol"], paranoid=case["paranoid"])
    except (AssertionError, RuntimeError) as exc:
        v.label("outcome:trace:" + type(exc).__name__)
        return None
    if case.get("user_table"):
        # the tables are handed over by the caller (public newInterpolationTableFromValues: "takes in precomputed
        # function values"), who fills ONE pair of work buffers first with the high-T, then with the low-T phase and
        # clears it afterwards; the tables must be the values that were handed over, whatever is rebuilt later
        # (extension, extrapolation types)
        tabs = [(fe, np.array(fe._interpolationPoints, dtype=float), np.array(fe._interpolationValues, dtype=float))
                for fe in (th.freeEnergyHigh, th.freeEnergyLow)]
        nmax = max(len(x) for _, x, _ in tabs)
        bufx, buff = np.zeros(nmax), np.zeros((nmax, tabs[0][2].shape[1]))
        for fe, x, f in tabs:
            bufx[:len(x)], buff[:len(x)] = x, f
            if case["user_table"] == "lists":
                fe.newInterpolationTableFromValues(list(bufx[:len(x)]), [row for row in buff[:len(x)]])
            elif len(x) == nmax:
                fe.newInterpolationTableFromValues(bufx, buff)
            else:
                fe.newInterpolationTableFromValues(bufx[:len(x)], buff[:len(x)])
        bufx[:] = np.linspace(2.0, 1.0, nmax) * float(np.max(bufx))
        buff[:] = -1.0
        v.label(f"tables:user-supplied-{case['user_table']}")
    ext = case.get("extend")
    if ext:
        # the user widens a traced table (public extendInterpolationTable) on one side or on both, staying where the
        # phase exists; the tabulated range used by the thermodynamics (min/maxPossibleTemperature) is unchanged,
        # and inside it everything must still hold.  (Defect found in round 4 on the unmodified tree: a one-sided
        # extension called the free energy with an empty array, which returned one row, and every value was shifted
        # against its abscissa - p off by up to 40 %.)
        which = ext["which"]
        fe = th.freeEnergyHigh if which == "high" else th.freeEnergyLow
        lo, hi = fe.interpolationRangeMin(), fe.interpolationRangeMax()
        nb, na = int(ext["nbelow"]), int(ext["nabove"])
        nlo, nhi = lo - nb * case["dT"], hi + na * case["dT"]
        okb = nb == 0 or (not fe.minPossibleTemperature[1] and nlo > 0 and cf.exists(which, nlo - 3 * case["dT"]))
        oka = na == 0 or (not fe.maxPossibleTemperature[1] and cf.exists(which, nhi + 3 * case["dT"]))
        if okb and oka:
            fe.extendInterpolationTable(nlo, nhi, nb, na)
            v.label(f"table-extended:{'both' if nb and na else 'below' if nb else 'above'}")
        else:
            v.label("table-extended:skipped-near-end-of-phase")
    err = None
    try:
        th.setExtrapolate()
    except (OverflowError, ZeroDivisionError, FloatingPointError, ValueError) as exc:
        err = exc
    if case.get("user_table"):
        # the installed tables interpolate the values that were handed over (a cubic spline reproduces its nodes)
        v.checked("user-table")
        for fe, x, f in tabs:
            try:
                val = fe(x)
                got = np.column_stack([np.asarray(val.fieldsAtMinimum, dtype=float).reshape(len(x), -1),
                                       np.asarray(val.veffValue, dtype=float).reshape(len(x), 1)])
                colmax = np.max(np.abs(f), axis=0)
                dev = float(np.max(np.abs(got - f) / np.where(colmax > 0, colmax, 1.0)))
            except Exception as exc:  # noqa: BLE001  (whatever a corrupted table makes of the evaluation)
                got, dev = None, float("inf")
                v.info["user_table_error"] = f"{type(exc).__name__}: {exc}"[:200]
            # ... and the table the object keeps (what writeInterpolationTable writes, what a later rebuild uses)
            # still contains every handed-over row
            tab = zp.table_of(fe)
            if dev <= 1e-12 and tab is not None:
                idx = np.searchsorted(tab[0], x)
                idx = np.clip(idx, 0, len(tab[0]) - 1)
                kept = (np.all(np.abs(tab[0][idx] - x) <= 1e-14 * np.abs(x))
                        and np.all(np.abs(tab[1][idx] - f) <= 1e-14 * np.where(colmax > 0, colmax, 1.0)))
                if not kept:
                    dev = float("inf")
                    v.info["user_table_error"] = "stored table no longer contains the handed-over rows"
            if not dev <= 1e-12:
                v.fail("user-table", f"supplied={case['user_table']} extended={bool(ext)}",
                       f"after the caller re-used its buffers, the table of {fe.__class__.__name__} evaluated at the "
                       f"handed-over temperatures differs from the handed-over values by {dev:.3e} (relative)")
                return None
    if case["mode"] != "history" or err is not None:
        return th, cf, V, case["rTol"], case["dT"], Tn, err
    # ---- call history on ONE object: derivatives requested, then new tables installed -----------------
    try:
        for name in ("HighT", "LowT"):
            lo, hi = float(getattr(th, "TMin" + name)), float(getattr(th, "TMax" + name))
            for u in case["between"]:
                T = lo + u * (hi - lo)
                for fn in ("p", "dp", "ddp", "e", "w", "csq"):
                    float(getattr(th, fn + name)(T))
            float(getattr(th, "dp" + name)(0.5 * lo))
            float(getattr(th, "ddp" + name)(2.0 * hi))
            # every function also outside the first tables (what alpha_n / the hydrodynamics ask of a phase beyond its range)
            for T in (0.7 * lo, 1.02 * hi, 1.6 * hi):
                for fn in ("p", "dp", "ddp", "e", "w", "csq"):
                    float(getattr(th, fn + name)(T))
    except (OverflowError, ZeroDivisionError, FloatingPointError, ValueError):
        pass   # only possible after a C11 hop; judged on the final object below
    for fe in (th.freeEnergyHigh, th.freeEnergyLow):
        if not fe.minPossibleTemperature[0] < Tn < fe.maxPossibleTemperature[0]:
            # tracePhase clamps a new request to [minPossible, maxPossible] of the previous table (table end
            # -+ 2 dT); a start temperature outside that window is not a usable history (WallGo then builds a
            # (checked before the potential is changed in place: the tables then still belong to it)
            # non-monotone table and CubicSpline raises ValueError - reported as an observation, not asserted here)
            v.label("history:start-outside-previous-window")
            return th, cf, V, case["rTol"], case["dT"], Tn, err
    if case.get("mutate"):
        p2 = dict(spec["p"])
        for k, f in case["mutate"].items():
            p2[k] = p2[k] * f
        cf2 = zp.closed(dict(spec, p=p2))
        ok = cf2.Tc is not None
        for which in ("high", "low"):
            ex2 = zp.existence_ext(cf2, which) if ok else None
            ok = ok and ex2 is not None and ex2["lo"] * 1.01 < Tn < ex2["hi"] * 0.99 and cf2.exists(which, Tn)
        if ok:
            # in place: the WallGo potential object keeps evaluating through this very closed-form object
            cf.__dict__.update(cf2.__dict__)
            v.label("history:parameters-changed-in-place")
        else:
            v.label("history:mutation-dropped")
    sec = case["second"]
    snap = case.get("snap")
    snap_before = {}
    snap_end_acc = {}
    snap_nodes = {}
    if snap:
        sec = {"rTol": case["rTol"], "dT": case["dT"], "paranoid": case["paranoid"],
               "ranges": {k: list(r) for k, r in case["ranges"].items()}}
        for which, fe in (("high", th.freeEnergyHigh), ("low", th.freeEnergyLow)):
            X = np.asarray(fe._interpolationPoints, dtype=float)
            side = X[X < Tn][3:] if snap["end"] == "min" else X[X > Tn][:-3]
            if side.size == 0:
                v.label("history:snap-no-room")
                continue
            node = float(side[min(int(snap["u"] * side.size), side.size - 1)])
            sgn = 1.0 if snap["end"] == "min" else -1.0
            if snap["end"] == "min":
                sec["ranges"][which][0] = node * (1.0 - snap["rel"])
            else:
                sec["ranges"][which][1] = node * (1.0 + snap["rel"])
            # values of the first table at and next to the new end (interior points of the first table)
            name = "HighT" if which == "high" else "LowT"
            probes = [node + sgn * f * case["dT"] for f in (0.0, 0.3, 1.5, 2.0, 4.5)]
            snap_before[which] = [(T, float(getattr(th, "p" + name)(T)), float(getattr(th, "dp" + name)(T)),
                                   float(getattr(th, "ddp" + name)(T))) for T in probes]
            # like for like: relative accuracy of the first table at the same distances from ITS OWN end
            # (a cubic spline is less accurate next to its ends; same dT and rTol, slowly varying function)
            end0 = float(X[0] if snap["end"] == "min" else X[-1])
            ex_ = zp.existence_ext(cf, which)
            acc = []
            for f in (0.0, 0.3, 1.5, 2.0, 4.5):
                T_ = end0 + sgn * f * case["dT"]
                bt_ = zp.branch_thermo(cf, which, ex_, T_)
                if bt_ is None:
                    acc.append(None)
                    continue
                vals = [float(getattr(th, q + name)(T_)) for q in ("p", "dp", "ddp")]
                acc.append([abs(a_ - b_) / abs(b_) if b_ != 0 and math.isfinite(a_) else float("inf") for a_, b_ in zip(vals, bt_)])
            snap_end_acc[which] = acc
            snap_nodes[which] = X.copy()
        v.label(f"history:snap-{snap['end']}")
    try:
        for which, fe in (("high", th.freeEnergyHigh), ("low", th.freeEnergyLow)):
            a, b = sec["ranges"][which]
            fe.tracePhase(a, b, sec["dT"], rTol=sec["rTol"], paranoid=sec["paranoid"])
    except (AssertionError, RuntimeError) as exc:
        v.label("outcome:retrace:" + type(exc).__name__)
        return None
    try:
        th.setExtrapolate()
    except (OverflowError, ZeroDivisionError, FloatingPointError, ValueError) as exc:
        err = exc
    # metamorphic: the same trace, ended at (within rounding of) a temperature the first table already held, must
    # give the same equation of state there. Interpolation differs legitimately by the end condition of the spline:
    # allowance = 10 x the relative accuracy the first table had at the same distance from its own end (like for like),
    # or 30 x its accuracy at that very temperature, whichever is larger (both against the closed form)
    for which, rows in snap_before.items():
        name = "HighT" if which == "high" else "LowT"
        ex = zp.existence_ext(cf, which)
        # the relation is only claimed when the integrator did retrace its steps: every temperature of the new table
        # except its new end is a temperature of the first table (not so when the steps are error-controlled and the
        # new request is clamped to the previous table's window, or when the first table ended at a genuine phase end)
        fe2 = th.freeEnergyHigh if which == "high" else th.freeEnergyLow
        X2 = np.asarray(fe2._interpolationPoints, dtype=float)
        inner = X2[1:-1]   # (the other end is clamped to the previous table's window, also a new temperature)
        X1 = snap_nodes[which]
        j = np.clip(np.searchsorted(X1, inner), 1, X1.size - 1)
        dist = np.minimum(np.abs(X1[j] - inner), np.abs(X1[j - 1] - inner))
        if inner.size < 8 or float(np.max(dist / inner)) > 1e-9:
            v.label("history-snap:steps-not-retraced")
            continue
        v.label("history-snap:retraced")
        v.checked("history-snap")
        bt_node = zp.branch_thermo(cf, which, ex, rows[0][0])
        if bt_node is None:
            continue
        delta_nodal = max(abs(rows[0][1] - bt_node[0]), 64 * EPS * abs(bt_node[0]))
        for irow, (T, p0, dp0, ddp0) in enumerate(rows):
            bt = zp.branch_thermo(cf, which, ex, T)
            acc = snap_end_acc[which][irow]
            if bt is None or acc is None or not all(math.isfinite(q) for q in (p0, dp0, ddp0)):
                continue
            got = [float(getattr(th, q + name)(T)) for q in ("p", "dp", "ddp")]
            for iq, (q, g, b0, exact) in enumerate(zip(("p", "dp", "ddp"), got, (p0, dp0, ddp0), bt)):
                # + what nodal errors do to a spline of spacing dT; their size is measured on the first table at the
                #   node the new end was taken from (the same trace), with the rounding of V as floor
                tol_term = K_TOL * delta_nodal * (1.0, 4.0 / sec["dT"], 16.0 / sec["dT"] ** 2)[iq]
                allow = max(10.0 * acc[iq] * abs(exact), 30.0 * abs(b0 - exact), tol_term, SNAP_ENV[q] * abs(exact))
                key = f"snap_relerr_{q}"
                v.info[key] = max(v.info.get(key, 0.0), abs(g - exact) / abs(exact))
                if not abs(g - exact) <= allow:
                    v.fail("history-snap", f"{spec['family']} phase={which} end={snap['end']} {q}",
                           f"after re-tracing with the {snap['end']} end of the range moved to T={T:.12g}(1-+{snap['rel']:g}), a "
                           f"temperature the first table held, {q}{name}({T:.10g}) = {g!r}; first table {b0!r}, closed form "
                           f"{exact!r} (relative error {abs(g - exact) / abs(exact):.3e}, first table "
                           f"{abs(b0 - exact) / abs(exact):.3e})", T=T)
                    break
            else:
                continue
            break
    return th, cf, V, sec["rTol"], sec["dT"], Tn, err


# ---------------------------------------------------------------------------
# the check
# ---------------------------------------------------------------------------
def _temps_for(case, phases):
    out = []
    for t in case["temps"]:
        ph = phases[t["phase"]]
        if t["kind"] == "below":
            T = ph.TMin * 10.0 ** (-t["u"])
        elif t["kind"] == "above":
            T = ph.TMax * 10.0 ** t["u"]
        elif t["kind"] == "inside":
            T = ph.TMin + t["u"] * (ph.TMax - ph.TMin)
        else:
            X = ph.TMin if t["end"] == "min" else ph.TMax
            T = X * (1.0 + t["sign"] * 10.0 ** (-t["u"]))
        out.append((t["phase"], t["kind"], float(T)))
    for name, ph in phases.items():
        for T in np.geomspace(0.2 * ph.TMin, 5.0 * ph.TMax, 9):
            out.append((name, "grid", float(T)))
    return out


def check_case(case) -> Verdict:
    from WallGo import WallGoError

    v = Verdict()
    spec = case["spec"]
    v.label(f"family:{spec['family']}", f"mode:{case['mode']}")
    built = build(case, v)
    if built is None:
        return v
    th, cf, V, tol, dT, Tn, err = built
    v.label(f"tol:{tol:g}")
    if err is not None:
        # only excusable if a table has left its branch (C11 finding); otherwise it is a crash of WallGo
        hop = False
        for name, fe in (("high", th.freeEnergyHigh), ("low", th.freeEnergyLow)):
            tab = zp.table_of(fe)
            if tab is not None:
                sc = c11.scan_nodes(Verdict(), V, cf, spec, name, zp.existence_ext(cf, name), tab[0], tab[1], tol,
                                    case.get("paranoid", True), Tn)
                hop = hop or sc.hop_at is not None
        if hop:
            v.label("outcome:extrapolation-failed-after-c11-hop:" + type(err).__name__)
            return v
        raise err
    phases = {"high": Phase(th, "high"), "low": Phase(th, "low")}
    cls0 = f"{spec['family']} mode={case['mode']}"
    blind = any(ph.knots is None for ph in phases.values())
    if blind:
        v.label("table:unobservable")
    rel_fd = REL_FD_BLIND if blind else REL_FD

    # ---- is each table on its branch (C11's business; here only to know where closed forms apply) ----
    scans = {}
    exs = {}
    for name, ph in phases.items():
        exs[name] = zp.existence_ext(cf, name)
        if ph.knots is None:
            continue
        vv = Verdict()
        scans[name] = c11.scan_nodes(vv, V, cf, spec, name, exs[name], ph.knots, ph.vals, tol,
                                     case.get("paranoid", True), Tn)
        if scans[name].hop_at is not None:
            v.label(f"c11-hop-present:{name}")
        v.label(f"flags:{name}:{ph.fe.minPossibleTemperature[1]},{ph.fe.maxPossibleTemperature[1]}")

    bad = {name for name, sc in scans.items() if sc.hop_at is not None}
    nontrivial = False
    worst = {}
    # ---- (iv) at the nodes: tabulated V inside the range = V at the closed-form minimum ---------------
    for name, ph in phases.items():
        sc = scans.get(name)
        if sc is None or sc.hop_at is not None:
            continue
        v.checked("p-minus-V-nodes")
        wn = 0.0
        for k in range(ph.knots.size):
            T = float(ph.knots[k])
            if not (ph.TMin <= T <= ph.TMax) or sc.status[k] not in ("exact", "cont"):
                continue
            lmn = sc.lam_min[k]
            if not (np.isfinite(lmn) and lmn > 0) or K_TOL * tol * sc.G / (lmn * sc.M_path) > c11.COND_CAP:
                continue
            vex = float(cf.V(sc.refs[k], T))
            tolphi = K_TOL * tol * sc.G / lmn + c11.FLOOR_C * math.sqrt(2 * EPS * abs(vex) / lmn)
            bnd = sc.lam_max[k] * tolphi ** 2 + 64 * EPS * c11._sum_abs_terms(cf, sc.refs[k], T)
            err = abs(ph.vals[k, -1] - vex)
            wn = max(wn, err / bnd)
            if err > bnd:
                v.fail("p-minus-V-nodes", f"{cls0} phase={name}",
                       f"tabulated V at node T={T!r} differs from V at the closed-form minimum by {err:.3g} "
                       f"(second-order bound {bnd:.3g})", T=T)
                break
        worst["p-minus-V-nodes"] = max(worst.get("p-minus-V-nodes", 0.0), wn)

    def track(key, ratio):
        worst[key] = max(worst.get(key, 0.0), float(ratio))

    once = set()

    def fail(sub, cls, msg, **kw):
        key = (sub, cls)
        if key in once:
            return
        once.add(key)
        v.fail(sub, cls, msg, **kw)

    for sub in ("eos-e", "eos-w", "eos-csq", "deriv-dp", "deriv-ddp"):
        v.checked(sub)
    # ---- the same temperature typed as an integer (Python int, numpy integer, 0-d integer array) gives the same
    #      thermodynamics as the float, inside and outside the tables
    v.checked("input-type")
    for name, ph in phases.items():
        if name in bad:
            continue
        cand = [ph.TMin / 2.0, ph.TMin * 0.9, 0.5 * (ph.TMin + ph.TMax), ph.TMax * 1.1, ph.TMax * 2.0]
        for Tc_ in cand:
            Ti = int(round(Tc_))
            if Ti < 2 or abs(Ti - Tc_) > 0.2 * Tc_:
                continue          # units in which temperatures are of order one: no integer near the wanted point
            region = "below" if Ti < ph.TMin else "above" if Ti > ph.TMax else "inside"
            for fnm in ("p", "dp", "ddp", "e", "w", "csq"):
                f = getattr(ph, fnm)
                ref = float(f(float(Ti)))
                for tn_, Tv in (("int", Ti), ("np.int64", np.int64(Ti)), ("0-d int", np.array(Ti))):
                    try:
                        got = float(np.asarray(f(Tv), dtype=float).ravel()[0])
                    except (TypeError, ValueError) as exc:
                        v.label(f"input-type:{fnm}:{tn_}:refused:{type(exc).__name__}")
                        continue
                    if math.isfinite(ref) and not abs(got - ref) <= 1e-12 * abs(ref):
                        fail("input-type", f"{cls0} phase={name} region={region} {fnm}",
                             f"{fnm}{'HighT' if name == 'high' else 'LowT'}({Ti}) typed as {tn_} = {got!r}, typed as float = {ref!r} "
                             f"(table [{ph.TMin:.6g}, {ph.TMax:.6g}])", T=float(Ti))
            v.label(f"input-type:{region}")
    # ---- (i), (ii), (iv) at every temperature ---------------------------------
    ideal = {}
    for name, kind, T in _temps_for(case, phases):
        ph = phases[name]
        if not (T > 0 and math.isfinite(T)) or name in bad:
            continue
        region = "below" if T < ph.TMin else "above" if T > ph.TMax else "inside"
        near = min(abs(T - ph.TMin) / ph.TMin, abs(T - ph.TMax) / ph.TMax) <= 1e-2
        if region != "inside" or near:
            nontrivial = True
        v.label(f"T:{name}:{region}" + (":near-end" if near else ""))
        cls = f"{cls0} phase={name} region={region}"
        p, dp, ddp = float(ph.p(T)), float(ph.dp(T)), float(ph.ddp(T))
        e, w, csq = float(ph.e(T)), float(ph.w(T)), float(ph.csq(T))
        if not all(math.isfinite(q) for q in (p, dp, ddp, e, w, csq)):
            fail("eos-e", cls + " nonfinite", f"non-finite thermodynamic function at T={T}: p={p} dp={dp} ddp={ddp} e={e} w={w} csq={csq}")
            continue
        rnd = 8 * EPS * (abs(T * dp) + abs(p))
        if abs(e - (T * dp - p)) > rnd:
            fail("eos-e", cls, f"e={e!r} != T dp - p = {T * dp - p!r} at T={T} (diff {e - (T * dp - p):.3g})", T=T)
        if abs(w - T * dp) > rnd:
            fail("eos-w", cls, f"w={w!r} != T dp = {T * dp!r} at T={T}", T=T)
        a, b, pk = ph.piece(T)
        for sub, f, rep, scale in (
            ("deriv-dp", ph.p, dp, None),
            ("deriv-ddp", ph.dp, ddp, None),
            ("eos-csq", ph.e, None, None),
        ):
            r = fd_in_piece(f, T, a, b, pk)
            if r is None:
                v.label("fd:piece-too-small")
                continue
            val, h, fmax, wsum = r
            trunc = 0.0 if pk == "spline" else 400.0 * (h / T) ** 4 * fmax / T
            if pk == "blind":
                trunc = 0.0
            rnd_fd = 32 * EPS * wsum
            if sub == "eos-csq":
                lhs, rhs = csq * val, dp
                tol_fd = abs(csq) * (rnd_fd + trunc) + rel_fd * abs(dp)
                track(sub, abs(lhs - rhs) / tol_fd)
                if abs(lhs - rhs) > tol_fd:
                    fail(sub, cls, f"c_s^2 * de/dT = {lhs!r} but dp/dT = {rhs!r} at T={T} (c_s^2={csq}, de/dT by 5-point rule on "
                                   f"the reported e = {val!r}, T*ddp = {T * ddp!r}); tolerance {tol_fd:.3g}", T=T)
            else:
                tol_fd = rnd_fd + trunc + rel_fd * max(abs(rep), fmax / T * 1e-3)
                track(sub, abs(val - rep) / tol_fd)
                if abs(val - rep) > tol_fd:
                    what = "dp" if sub == "deriv-dp" else "ddp"
                    fail(sub, cls, f"reported {what}={rep!r} but the 5-point derivative of the reported "
                                   f"{'p' if what == 'dp' else 'dp'} is {val!r} at T={T} (step {h:.3g}, piece {pk}); "
                                   f"tolerance {tol_fd:.3g}", T=T)
        # ---- (iv) p = -V at the closed-form minimum, inside the range -----------------------------
        if region == "inside":
            sc = scans.get(name)
            bt = zp.branch_thermo(cf, name, exs[name], T)
            if bt is None:
                v.label("p-minus-V:no-closed-form")
                continue
            pex = bt[0]
            v.checked("p-minus-V")
            if dT <= T * tol ** 0.25:
                tplain = K_TOL * tol * abs(pex)
                track("p-minus-V-plain", abs(p - pex) / tplain)
                if abs(p - pex) > tplain:
                    fail("p-minus-V", cls + " plain", f"p={p!r} differs from -V at the closed-form minimum {pex!r} by "
                                                     f"{abs(p - pex):.3g} > 10*tol*|p| = {tplain:.3g} at T={T}", T=T)
            if sc is not None:
                if name not in ideal:
                    ideal[name] = _ideal_spline(cf, name, exs[name], ph.knots)
                if ideal[name] is not None:
                    spl, okmask = ideal[name]
                    kn = ph.knots
                    i = int(np.searchsorted(kn, T))
                    i0, i1 = max(i - 3, 0), min(i + 3, kn.size)
                    if np.all(okmask[i0:i1]):
                        ts = np.linspace(kn[i0], kn[i1 - 1], 25)
                        bts = [zp.branch_thermo(cf, name, exs[name], float(t)) for t in ts]
                        if all(b_ is not None for b_ in bts):
                            env = float(np.max(np.abs(-spl(ts) - np.array([b_[0] for b_ in bts]))))
                            lm = sc.lam_min[i0:i1]
                            if np.all(np.isfinite(lm)) and np.all(lm > 0):
                                x, _ = zp.branch_point(cf, name, exs[name], T)
                                tolphi = (K_TOL * tol * sc.G / float(np.min(lm))
                                          + c11.FLOOR_C * math.sqrt(2 * EPS * abs(pex) / float(np.min(lm))))
                                nodal = float(np.max(sc.lam_max[i0:i1])) * tolphi ** 2
                                tsharp = 5 * env + 2 * nodal + 64 * EPS * c11._sum_abs_terms(cf, x, T)
                                track("p-minus-V-sharp", abs(p - pex) / tsharp)
                                if abs(p - pex) > tsharp:
                                    fail("p-minus-V", cls + " sharp",
                                         f"p={p!r} differs from -V at the closed-form minimum {pex!r} by {abs(p - pex):.3g}; "
                                         f"bound {tsharp:.3g} (5*ideal-spline error {5 * env:.2g}, nodal {2 * nodal:.2g}) at T={T}", T=T)

    # ---- (iii) continuity across the ends of each tabulated range -----------------
    for sub in ("cont-p", "cont-dp", "cont-ddp", "cont-csq"):
        v.checked(sub)
    ic = 0
    for name, ph in phases.items():
        for endname, X in (("min", ph.TMin), ("max", ph.TMax)):
            u = case["cont"][ic % len(case["cont"])]
            ic += 1
            if name in bad:
                continue
            # inner points must stay inside the spline piece adjacent to the end (polynomial there)
            if ph.knots is not None:
                a_, b_, _k = ph.piece(X * (1 + 1e-12) if endname == "min" else X * (1 - 1e-12))
                room = (b_ - X) if endname == "min" else (X - a_)
            else:
                room = 0.1 * (ph.TMax - ph.TMin)
            for delta in (10.0 ** (-u), 1e-7):
                delta = min(delta, 0.24 * room / X)
                if delta <= 1e-12:
                    v.label("cont:no-room")
                    continue
                nontrivial = True
                cls = f"{cls0} phase={name} end={endname}"
                for sub, f in (("cont-p", ph.p), ("cont-dp", ph.dp), ("cont-ddp", ph.ddp), ("cont-csq", ph.csq)):
                    fp = [float(f(X * (1 + j * delta))) for j in (1, 2, 3, 4)]
                    fm = [float(f(X * (1 - j * delta))) for j in (1, 2, 3, 4)]
                    lp = 3 * fp[0] - 3 * fp[1] + fp[2]
                    lm_ = 3 * fm[0] - 3 * fm[1] + fm[2]
                    d2 = abs(fp[0] - 2 * fp[1] + fp[2]) + abs(fm[0] - 2 * fm[1] + fm[2])
                    d3 = abs(fp[0] - 3 * fp[1] + 3 * fp[2] - fp[3]) + abs(fm[0] - 3 * fm[1] + 3 * fm[2] - fm[3])
                    scale = max(abs(fp[0]), abs(fm[0]))
                    if d3 > 0.5 * d2 and d3 > 1e-9 * scale:
                        # differences do not decay: the offset is too large for a polynomial extrapolation
                        # (a spline kink or the square-root behaviour near a saddle-node lies within reach)
                        v.label("cont:offset-too-large")
                        continue
                    tolc = REL_CONT * scale + 2 * d2 + 4 * d3 + 64 * EPS * scale
                    track(sub, abs(lp - lm_) / tolc)
                    if abs(lp - lm_) > tolc:
                        fail(sub, cls, f"{sub[5:]} jumps across T{endname}={X!r} of the {name}-T phase: limit from above "
                                       f"{lp!r}, from below {lm_!r} (relative jump {(lp - lm_) / scale:.3g}, offset {delta:.1g})",
                             end=X, delta=delta)

    # ---- (v) alpha(Tn) -----------------------------------------------------------
    H, L = phases["high"], phases["low"]
    alpha = None
    if bad:
        v.label("alpha:skipped-after-hop")
    else:
        try:
            alpha = float(th.alpha(Tn))
        except WallGoError:
            v.label("alpha:WallGoError")
    if alpha is not None:
        v.checked("alpha-formula")
        q = {"pH": float(H.p(Tn)), "dH": float(H.dp(Tn)), "pL": float(L.p(Tn)), "dL": float(L.dp(Tn)),
             "ddL": float(L.ddp(Tn))}
        eH, eL, wH, csqL = float(H.e(Tn)), float(L.e(Tn)), float(H.w(Tn)), float(L.csq(Tn))
        a_def = (eH - eL - (q["pH"] - q["pL"]) / csqL) / (3 * wH)
        mag = (abs(eH) + abs(eL) + abs(q["pH"] / csqL) + abs(q["pL"] / csqL)) / (3 * abs(wH))
        if abs(alpha - a_def) > 64 * EPS * mag:
            fail("alpha-formula", cls0, f"alpha(Tn)={alpha!r} but its definition on the reported e, p, w, c_s^2 gives {a_def!r}")
        inside_both = H.TMin <= Tn <= H.TMax and L.TMin <= Tn <= L.TMax
        if inside_both and not blind and all(scans[n].hop_at is None for n in scans):
            a_cf = zp.alpha_closed(cf, Tn)
            bnd = _alpha_bound(cf, exs, phases, scans, Tn, tol, q)
            if bnd is not None:
                v.checked("alpha-closed")
                tol_a = bnd + 64 * EPS * mag
                track("alpha-closed", abs(alpha - a_cf) / tol_a)
                v.info["alpha"] = alpha
                v.info["alpha_bound_rel"] = tol_a / abs(a_cf) if a_cf else None
                if abs(alpha - a_cf) > tol_a:
                    fail("alpha-closed", cls0, f"alpha(Tn)={alpha!r} differs from the closed form {a_cf!r} by "
                                               f"{abs(alpha - a_cf):.3g} > propagated bound {tol_a:.3g}")

    # ---- outcome: un-extrapolated FreeEnergy outside its table ------------------------
    for name, ph in phases.items():
        lo, hi = float(ph.fe.interpolationRangeMin()), float(ph.fe.interpolationRangeMax())
        for T in (lo * (1 - 1e-6), hi * (1 + 1e-6)):
            try:
                ph.fe(T)
                v.label("outside-table:returned-value")
            except WallGoError:
                v.label("outside-table:WallGoError")
    v.nontrivial = nontrivial
    for k_, x_ in worst.items():
        v.info["worst:" + k_] = x_
    return v


def _ideal_spline(cf, name, ex, knots):
    """Cubic spline through EXACT closed-form V at the observed abscissae (None if too few have a closed
    form).  Returns (spline of V, mask of knots with closed form)."""
    from scipy.interpolate import CubicSpline

    vals = np.full(knots.size, np.nan)
    for k, t in enumerate(knots):
        bt = zp.branch_thermo(cf, name, ex, float(t))
        if bt is not None:
            vals[k] = -bt[0]
    ok = np.isfinite(vals)
    if np.sum(ok) < 6:
        return None
    # contiguous block of knots with closed form (ghost nodes can only sit at the ends)
    idx = np.where(ok)[0]
    if not np.all(np.diff(idx) == 1):
        return None
    spl = CubicSpline(knots[ok], vals[ok])
    return spl, ok


def _alpha_formula(q, T):
    eH, eL = T * q["dH"] - q["pH"], T * q["dL"] - q["pL"]
    csqL = q["dL"] / (T * q["ddL"])
    return (eH - eL - (q["pH"] - q["pL"]) / csqL) / (3 * T * q["dH"])


def _alpha_bound(cf, exs, phases, scans, Tn, tol, q):
    """Sum over primitives q of |d alpha/dq| * (bound on the error of q).  The reported spline is linear in
    the tabulated values: reported = S[exact values] + S[e], e_k = tabulated V_k - exact V(T_k) (observed,
    and bounded separately by the sub-oracle p-minus-V-nodes).  Bound(q) = 5*|ideal-spline error of q| over
    the neighbouring intervals + 2*|S[e]^(n)(Tn)| + rounding."""
    from scipy.interpolate import CubicSpline

    bounds = {}
    for name, keys in (("high", ("pH", "dH", None)), ("low", ("pL", "dL", "ddL"))):
        ph, ex = phases[name], exs[name]
        r = _ideal_spline(cf, name, ex, ph.knots)
        if r is None:
            return None
        spl, ok = r
        kn = ph.knots
        i = int(np.searchsorted(kn, Tn))
        i0, i1 = max(i - 3, 0), min(i + 3, kn.size)
        if not np.all(ok[i0:i1]):
            return None
        ts = np.linspace(kn[i0], kn[i1 - 1], 25)
        bts = [zp.branch_thermo(cf, name, ex, float(t)) for t in ts]
        if any(b_ is None for b_ in bts):
            return None
        e0 = float(np.max(np.abs(-spl(ts) - np.array([b_[0] for b_ in bts]))))
        e1 = float(np.max(np.abs(-spl(ts, 1) - np.array([b_[1] for b_ in bts]))))
        e2 = float(np.max(np.abs(-spl(ts, 2) - np.array([b_[2] for b_ in bts]))))
        ek = ph.vals[ok, -1] - spl(kn[ok])
        se = CubicSpline(kn[ok], ek)
        pabs = abs(bts[0][0])
        bounds[keys[0]] = 5 * e0 + 2 * abs(float(se(Tn))) + 64 * EPS * pabs
        bounds[keys[1]] = 5 * e1 + 2 * abs(float(se(Tn, 1))) + 64 * EPS * pabs / Tn
        if keys[2]:
            bounds[keys[2]] = 5 * e2 + 2 * abs(float(se(Tn, 2))) + 64 * EPS * pabs / Tn ** 2
    total = 0.0
    for key, b in bounds.items():
        step = 1e-6 * abs(q[key])
        qp, qm = dict(q), dict(q)
        qp[key] += step
        qm[key] -= step
        d = abs(_alpha_formula(qp, Tn) - _alpha_formula(qm, Tn)) / (2 * step)
        total += d * b
    return total
