"""C13 - out-of-equilibrium moments are the momentum integrals they are defined to be.

Sub-oracles
  moment-exact     for the exactness family built for the weight W_k in {1, p_z^2, E^2, E p_z}:
                   BoltzmannSolver.getDeltas(deltaF).Deltas.<Delta_k> equals the closed form
                   amplitude * pi^2 * c0(P_z) * c0(P_par)   (c0 from numpy.polynomial.chebyshev)
  linearity        Deltas(a df1 + b df2) = a Deltas(df1) + b Deltas(df2)  (all four moments)
  tmunu-formula    EOM.deltaToTmunu applied to moments computed by the harness equals the direct
                   momentum integral of p'^3 p'^0 and p'^3 p'^3 (p' = boost of (E, p_z) by velocityMid),
                   both on the harness's own Gauss-Chebyshev-Lobatto rule
  tmunu-end2end    the same with the moments returned by getDeltas
  shape            shapes / types of the returned objects
"""
from __future__ import annotations

import functools

import numpy as np
from hypothesis import strategies as st

from vlib import refspectral as R
from vlib.core import Verdict

PROPERTY_ID = "C13"
ENGINE = "hypothesis @given"
RULE = (
    "Generated: momentum size N odd in [3,21], position size M in [3,8] (capped so that the Boltzmann "
    "operator built inside getDeltas stays below 1600^2 entries), momentum scale T0 in 10^[-2,3], 1-2 "
    "particles with m^2(z) = T0^2 (mu^2 + y^2 phi(z)^2/2) on a generated field profile (a fifth of the massive ones "
    "tachyonic where the field is small, with E^2 > 0 on every node), in half of the cases after the solver computed "
    "moments for another particle list, either "
    "statistics, both grid classes, all four (basisM, basisN) combinations; deviation from the exactness "
    "family of one target weight W_k: df = A_{a,i} 4 pi^2 E /(W_k J_z J_par p_par) P_z P_par / "
    "sqrt((1-rz^2)(1-rp^2)), P = (1-x^2) q with integer Chebyshev coefficients, degrees up to 2N-1 and "
    "2N-3 (Lobatto exactness), an arbitrary finite value at the p_par = 0 node; a second smooth deviation "
    "(polynomial x exp(-E/T0)) for linearity and the stress tensor; in half of the cases the grid object was used "
    "before by another collision array changing basis or by a solver in the other bases. Non-trivial = non-constant q_z and "
    "q_par and m^2 not identically zero. Distinct by canonical JSON of the case."
)
BUDGET = {
    "quick": {"cases": 500, "shrink": True, "time_cap_s": 600},
    "thorough": {"cases": 20000, "shrink": True, "time_cap_s": 3000},
}
EPS = R.EPS
KR = 128.0
TOLERANCES = {
    "eps": EPS,
    "KR": KR,
    "KR_note": "each quadrature term is a product of ~10 rounded factors (E, maps, Jacobians) on both sides; "
               "measured on the unchanged tree with KR = 64 (thorough, 20 004 cases): error/bound < 1 always, "
               "> 0.1 in 20 cases (all moment-exact); KR doubled for margin",
    "moment_rule": "|Delta - closed form| <= KR*eps*sum_jk |w_j w_k J_z J_par p_par W df/(4 pi^2 E)| "
                   "(+ 8(N+4) eps x the same sum with |df| replaced by the basis-change bound (|V|+|V'|+1)|a| "
                   "when df is supplied in the Chebyshev basis): rounding of the quadrature sum, condition computed",
    "tmunu_rule": "KR*eps*gamma^2*sum_a dof_a (3|D20| + 3|D02| + 4|D11| + 2 m^2 |D00|) with |D| the moments of |df|",
    "linearity_rule": "KR*eps*(|a| |D|(df1) + |b| |D|(df2)), basis-change term as above",
}
EXHAUSTIVE_SUBDOMAINS = []
ASSUMPTIONS = [
    "EOM.deltaToTmunu is called on an object created with EOM.__new__ whose only attribute is "
    "`particles` (the method reads nothing else); a full EOM needs Thermodynamics and Hydrodynamics "
    "objects that play no role here.",
    "getDeltas also evaluates the linearisation criteria, which need a collision array: a synthetic "
    "diagonal CollisionArray is set with setCollisionArray; it does not enter the moments.",
    "Only the target moment of each exactness family has a closed form; the other three moments of the "
    "same deviation are not polynomial integrands, so the DESIGN cross-check against an 8N-node rule "
    "would measure truncation error, which the property does not bound - it is not asserted.",
    "The stress-tensor identity is algebraic and linear in df, so the direct integral is evaluated on the "
    "same N-node Gauss-Chebyshev-Lobatto rule (harness implementation, refspectral weights and momentum "
    "maps); comparing with a finer rule would again measure truncation error.",
    "The grid momenta are plasma-frame momenta; the wall-frame components are obtained by boosting "
    "(E, p_z) with velocityMid: p'^0 = gamma (E + v p_z), p'^3 = gamma (p_z + v E).",
    "N is odd (no node at p_z = 0, as WallGo requires), so 1/W_k is finite at every node.",
]

WEIGHTS = ("1", "pz2", "E2", "Epz")
DELTA_NAME = {"1": "Delta00", "pz2": "Delta02", "E2": "Delta20", "Epz": "Delta11"}
MAXOP = 1600


# ---------------------------------------------------------------------------
# strategy
# ---------------------------------------------------------------------------
@st.composite
def st_q(draw, maxdeg):
    mode = draw(st.sampled_from(["max", "max", "any", "low"]))
    d = maxdeg if mode == "max" else draw(st.integers(0, maxdeg)) if mode == "any" else draw(st.integers(0, min(2, maxdeg)))
    q = [draw(st.integers(-9, 9)) for _ in range(d + 1)]
    if q[-1] == 0:
        q[-1] = draw(st.sampled_from([-4, -1, 1, 3]))
    return q


@st.composite
def st_case(draw, tier):
    N = draw(st.sampled_from([3, 5, 7, 9, 11, 13, 15, 17, 19, 21]))
    P = draw(st.integers(1, 2))
    mmax = min(8, MAXOP // (P * (N - 1) ** 2) + 1)
    if mmax < 3:
        P = 1
        mmax = min(8, MAXOP // ((N - 1) ** 2) + 1)
    M = draw(st.integers(3, max(3, mmax)))
    T0 = float(10.0 ** (draw(st.integers(-200, 300)) / 100.0))
    gk = draw(st.sampled_from(["Grid", "Grid3Scales"]))
    parts = []
    for _ in range(P):
        massless = draw(st.integers(0, 5)) == 0
        parts.append({
            "mu2": 0.0 if massless else draw(st.sampled_from([0.0, 0.0, 0.25, 1.0, 9.0])),
            "y2": 0.0 if massless else draw(st.floats(0.01, 4.0)),
            "dof": draw(st.integers(1, 24)),
            "stat": draw(st.sampled_from(["Fermion", "Boson"])),
            # tachyonic in part of the wall (m^2 = -mu^2 + y^2 phi^2/2 < 0 where the field is small) with E^2 > 0 on
            # every node: -neg x (smallest p_z^2 of the grid) replaces mu2
            "neg": 0.0 if massless else draw(st.sampled_from([0.0, 0.0, 0.0, 0.0, 0.3, 0.8])),
        })
    field = [draw(st.integers(0, 12)) / 4.0 for _ in range(M + 1)]
    fam = draw(st.sampled_from(WEIGHTS))
    qz = draw(st_q(2 * N - 3))
    qp = draw(st_q(2 * N - 5)) if N > 3 else draw(st_q(1))
    amp = [[draw(st.integers(-8, 8)) / 4.0 for _ in range(M - 1)] for _ in range(P)]
    pp0 = draw(st.sampled_from([0.0, 1.0, -3.5, 1e3]))
    # second, generic smooth deviation: polynomial(rz) polynomial(rp) exp(-E/T0) chi-dependent amplitude
    g_z = [draw(st.integers(-5, 5)) for _ in range(draw(st.integers(1, 4)))]
    g_p = [draw(st.integers(-5, 5)) for _ in range(draw(st.integers(1, 4)))]
    g_amp = [[draw(st.integers(-8, 8)) / 4.0 for _ in range(M - 1)] for _ in range(P)]
    ab = [draw(st.integers(-12, 12)) / 4.0, draw(st.integers(-12, 12)) / 4.0]
    vmid = 0.0 if draw(st.sampled_from(["n"] * 11 + ["z"])) == "z" else draw(st.sampled_from([-1.0, 1.0])) * draw(st.integers(1, 99)) / 100.0
    # "every momentum scale" includes scales reached by rescaling an existing grid (as the wall solver
    # does): with probability 1/3 the grid is built at another scale and rescaled to T0
    rescale_from = draw(st.sampled_from([None, None, 0.4, 2.5, 10.0]))
    return {"kind": "moments", "gk": gk, "M": M, "N": N, "T0": T0, "rescale_from": rescale_from,
            "recycle_bg": draw(st.sampled_from([False, False, True])),
            # call history on the SOLVER object: it has computed moments for another particle list (other masses,
            # same or other number of particles) before updateParticleList installs the one under test
            "particle_history": draw(st.sampled_from([None, None, None, "same-count", "one", "two"])),
            # call history on the SHARED grid object: another user of the same grid changes the basis of its own
            # collision array (inverse-transposed matrices) or computes moments in another basis first
            "grid_history": draw(st.sampled_from([None, None, None, "coll-to-Cardinal", "coll-to-Chebyshev",
                                                  "other-solver"])),
            "basisM": draw(st.sampled_from(R.BASES)), "basisN": draw(st.sampled_from(R.BASES)),
            "particles": parts, "field": field, "family": fam, "qz": qz, "qp": qp, "amp": amp, "pp0": pp0,
            "g_z": g_z, "g_p": g_p, "g_amp": g_amp, "ab": ab, "vmid": float(vmid),
            "zindex": draw(st.integers(0, M - 2))}


def strategy(tier):
    return st_case(tier)


# ---------------------------------------------------------------------------
# reference pieces
# ---------------------------------------------------------------------------
@functools.lru_cache(maxsize=None)
def _axes(M, N):
    return R.Axis("z", M, N, False), R.Axis("pz", M, N, False), R.Axis("pp", M, N, False)


@functools.lru_cache(maxsize=None)
def _cb(direction, M, N):
    """(Card->Cheb matrix of the reference, bound matrix for WallGo's way back)."""
    ax = R.Axis(direction, M, N, False)
    G = ax.change_matrix("Cardinal", "Chebyshev")
    Vb = np.abs(ax.node_matrix("Chebyshev")) + np.abs(ax.eval_deriv_matrix(ax.nodes, "Chebyshev", 1)) + 1.0
    return G, Vb, 8.0 * (ax.n + 4) * EPS


def weight_fn(name, E, pz):
    if name == "1":
        return np.ones_like(E)
    if name == "pz2":
        return pz ** 2 + 0 * E
    if name == "E2":
        return E ** 2
    if name == "Epz":
        return E * pz
    raise ValueError(name)


def mu2_of(case, p):
    """vacuum mass term of a particle spec in units of T0^2 (negative for the tachyonic variant)"""
    if p.get("neg"):
        _, axr, axp = _axes(case["M"], case["N"])
        pz1 = R.momentum_maps(1.0, axr.nodes, axp.nodes)[0]
        return -float(p["neg"]) * float(np.min(pz1 ** 2))
    return float(p["mu2"])


def build_solver(case):
    import WallGo
    from WallGo.boltzmann import BoltzmannSolver
    from WallGo.collisionArray import CollisionArray
    from WallGo.grid import Grid
    from WallGo.grid3Scales import Grid3Scales

    M, N, T0 = case["M"], case["N"], case["T0"]
    Tbuild = T0 * float(case.get("rescale_from") or 1.0)
    if case["gk"] == "Grid3Scales":
        grid = Grid3Scales(M, N, 3.0 / T0, 4.0 / T0, 1.0 / T0, Tbuild, 0.5, 0.1, 0.0)
    else:
        grid = Grid(M, N, 1.0 / T0, Tbuild)
    if case.get("rescale_from"):
        grid.changeMomentumFalloffScale(T0)
    particles = []
    for i, p in enumerate(case["particles"]):
        mu2, y2 = mu2_of(case, p) * T0 ** 2, p["y2"]

        def msq(fields, mu2=mu2, y2=y2):
            return mu2 + 0.5 * y2 * fields.getField(0) ** 2

        def dmsq(fields, y2=y2):
            return np.transpose([y2 * fields.getField(0)])

        particles.append(WallGo.Particle(name=f"p{i}", index=i, msqVacuum=msq, msqDerivative=dmsq,
                                         statistics=p["stat"], totalDOFs=int(p["dof"])))
    phi = T0 * np.array(case["field"], dtype=float)
    fields = WallGo.Fields(phi[:, None])
    k = np.arange(M + 1)
    bg = WallGo.BoltzmannBackground(
        velocityMid=-0.55,
        velocityProfile=-0.55 + 0.05 * np.cos(k),
        fieldProfiles=fields,
        temperatureProfile=T0 * (1.0 + 0.02 * np.sin(k)),
        polynomialBasis="Cardinal",
    )
    solver = BoltzmannSolver(grid, case["basisM"], case["basisN"], "Spectral")
    ph = case.get("particle_history")
    if ph:
        nO = {"same-count": len(particles), "one": 1, "two": 2}[ph]
        others = []
        for i in range(nO):
            def msqO(fields, i=i):
                return (4.0 + i) * T0 ** 2 + 0.65 * fields.getField(0) ** 2

            def dmsqO(fields):
                return np.transpose([1.3 * fields.getField(0)])

            others.append(WallGo.Particle(name=f"o{i}", index=i, msqVacuum=msqO, msqDerivative=dmsqO,
                                          statistics="Boson" if i else "Fermion", totalDOFs=3 + i))
        solver.updateParticleList(others)
        solver.setBackground(bg)
        cO = CollisionArray(grid, case["basisN"], others)
        cO.polynomialData.coefficients = np.eye(nO * (N - 1) ** 2).reshape((nO, N - 1, N - 1, nO, N - 1, N - 1))
        solver.setCollisionArray(cO)
        solver.getDeltas(np.cos(np.arange(nO * (M - 1) * (N - 1) ** 2, dtype=float)).reshape((nO, M - 1, N - 1, N - 1)))
        solver.updateParticleList(particles)
    else:
        solver.updateParticleList(particles)
        solver.setBackground(bg)
    if case.get("recycle_bg"):
        # call history: the caller re-uses its background object / buffers after handing it over (the moments are
        # those of the background that was set, not of whatever the caller writes into its own arrays later)
        fields = WallGo.Fields(np.array(fields, dtype=float))
        phi = np.array(phi, dtype=float)
        np.asarray(bg.fieldProfiles)[...] = 2.5 * T0
        np.asarray(bg.temperatureProfile)[...] = 1.7 * T0
        np.asarray(bg.velocityProfile)[...] = 0.3
        bg.velocityMid = 0.2
    P, n1 = len(particles), N - 1
    hist = case.get("grid_history")
    if hist in ("coll-to-Cardinal", "coll-to-Chebyshev"):
        target = hist.split("-")[-1]
        other = CollisionArray(grid, "Chebyshev" if target == "Cardinal" else "Cardinal", particles)
        other.polynomialData.coefficients = np.cos(np.arange((P * n1 * n1) ** 2, dtype=float)).reshape(
            (P, n1, n1, P, n1, n1))
        other.changeBasis(target)
    elif hist == "other-solver":
        flip = {"Cardinal": "Chebyshev", "Chebyshev": "Cardinal"}
        s2 = BoltzmannSolver(grid, flip[case["basisM"]], flip[case["basisN"]], "Spectral")
        s2.updateParticleList(particles)
        s2.setBackground(bg)
        c2 = CollisionArray(grid, flip[case["basisN"]], particles)
        c2.polynomialData.coefficients = np.eye(P * n1 * n1).reshape((P, n1, n1, P, n1, n1))
        s2.setCollisionArray(c2)
        s2.getDeltas(np.sin(np.arange(P * (M - 1) * n1 * n1, dtype=float)).reshape((P, M - 1, n1, n1)))
    coll = CollisionArray(grid, case["basisN"], particles)
    data = np.zeros((P, n1, n1, P, n1, n1))
    for a in range(P):
        for j in range(n1):
            for kk in range(n1):
                data[a, j, kk, a, j, kk] = 1.0 + 0.1 * a
    coll.polynomialData.coefficients = data
    solver.setCollisionArray(coll)
    return solver, grid, particles, fields, phi


def check_case(case) -> Verdict:
    from WallGo.containers import BoltzmannDeltas
    from WallGo.equationOfMotion import EOM
    from WallGo.polynomial import Polynomial

    v = Verdict()
    M, N, T0 = case["M"], case["N"], case["T0"]
    P = len(case["particles"])
    axz, axr, axp = _axes(M, N)
    rz, rp = axr.nodes, axp.nodes
    pz, pp, jz, jp = R.momentum_maps(T0, rz, rp)
    msq = np.array([[T0 ** 2 * mu2_of(case, p) + 0.5 * p["y2"] * (T0 * f) ** 2 for f in case["field"][1:-1]]
                    for p in case["particles"]])                       # (P, M-1)
    E = np.sqrt(msq[:, :, None, None] + pz[None, None, :, None] ** 2 + pp[None, None, None, :] ** 2)
    sz, sp = np.sqrt((1 - rz) * (1 + rz)), np.sqrt((1 - rp) * (1 + rp))
    # quadrature measure of  int d^3p/((2 pi)^3 E)  on the grid nodes (harness implementation)
    wz = axr.quad_weights() * sz * jz
    wp = axp.quad_weights() * sp * jp * pp
    meas = wz[None, None, :, None] * wp[None, None, None, :] / (4 * np.pi ** 2 * E)
    PZ = pz[None, None, :, None]

    fam = case["family"]
    Wk = weight_fn(fam, E, PZ)
    tz = R.tmul(np.array(case["qz"], dtype=float), R.T_ONE_MINUS_X2)
    tp = R.tmul(np.array(case["qp"], dtype=float), R.T_ONE_MINUS_X2)
    amp = np.array(case["amp"], dtype=float)
    Pz_n, Pp_n = R.tval(rz, tz), R.tval(rp, tp)
    with np.errstate(all="ignore"):
        shape_z = Pz_n / (sz * jz)
        shape_p = Pp_n / (sp * jp * pp)
    shape_p[0] = 0.0
    df1 = amp[:, :, None, None] * 4 * np.pi ** 2 * E / Wk * shape_z[None, None, :, None] * shape_p[None, None, None, :]
    df1[:, :, :, 0] = case["pp0"] / T0 ** 2
    # second, generic deviation
    gz = np.polynomial.polynomial.polyval(rz, np.array(case["g_z"], dtype=float)) * (1 - rz ** 2)
    gp = np.polynomial.polynomial.polyval(rp, np.array(case["g_p"], dtype=float)) * (1 - rp)
    df2 = (np.array(case["g_amp"], dtype=float)[:, :, None, None] * gz[None, None, :, None] * gp[None, None, None, :]
           * np.exp(-E / T0) / T0 ** 2)
    a_, b_ = case["ab"]

    massive = bool(np.any(msq != 0))
    v.nontrivial = bool(len(case["qz"]) >= 2 and len(case["qp"]) >= 2 and massive)
    v.label(f"family:{fam}", f"N:{N}", f"M:{M}", f"P:{P}", f"grid:{case['gk']}",
            f"basis:{case['basisM'][:4]}/{case['basisN'][:4]}",
            "massive" if massive else "massless",
            "degz:fills_class" if len(case["qz"]) - 1 == 2 * N - 3 else "degz:beyond_grid" if len(case["qz"]) + 1 > N else "degz:grid",
            "degp:fills_class" if len(case["qp"]) - 1 == max(2 * N - 5, 1) else "degp:inside",
            f"T0:1e{int(np.floor(np.log10(T0)))}", "grid:rescaled" if case.get("rescale_from") else "grid:direct",
            "background:recycled-by-caller" if case.get("recycle_bg") else "background:untouched",
            f"grid-history:{case.get('grid_history') or 'none'}",
            f"particle-history:{case.get('particle_history') or 'none'}",
            "msq:negative-somewhere" if np.any(msq < 0) else "msq:nonnegative",
            "c0:zero" if tz[0] * tp[0] == 0 else "c0:nonzero",
            *{f"stat:{p['stat']}" for p in case["particles"]})
    cls = f"{fam} basis={case['basisM'][:4]}/{case['basisN'][:4]}"

    solver, grid, particles, fields, phi = build_solver(case)

    # supply deviations in the solver's bases; bound the effect of the way back to node values
    def to_basis(df):
        out = df
        cb_abs = np.abs(df)
        extra = 0.0
        for axis, (basis, d) in enumerate(((case["basisM"], "z"), (case["basisN"], "pz"), (case["basisN"], "pp")), start=1):
            if basis == "Chebyshev":
                G, Vb, tf = _cb(d, M, N)
                out = R.apply_along(G, out, axis)
                cb_abs = R.apply_along(Vb, R.apply_along(np.abs(G), cb_abs, axis), axis)
                extra += tf
        return out, cb_abs, extra

    def run(df):
        coeffs, cb_abs, extra = to_basis(df)
        res = solver.getDeltas(np.array(coeffs))
        return res.Deltas, cb_abs, extra

    def harness_moments(df):
        return {w: np.sum(meas * weight_fn(w, E, PZ) * df, axis=(2, 3)) for w in WEIGHTS}

    def abs_moments(adf):
        return {w: np.sum(meas * np.abs(weight_fn(w, E, PZ)) * adf, axis=(2, 3)) for w in WEIGHTS}

    def bound(df, cb_abs, extra):
        A = abs_moments(np.abs(df))
        if extra:
            B = abs_moments(cb_abs)
            return {w: KR * EPS * A[w] + extra * B[w] for w in WEIGHTS}
        return {w: KR * EPS * A[w] for w in WEIGHTS}

    def get(Deltas, w):
        obj = getattr(Deltas, DELTA_NAME[w])
        c = np.asarray(obj.coefficients, dtype=float)
        return obj, c

    D1, cb1, ex1 = run(df1)
    bnd1 = bound(df1, cb1, ex1)
    # ---- shapes ------------------------------------------------------------------------
    v.checked("shape")
    for w in WEIGHTS:
        obj, c = get(D1, w)
        if not isinstance(obj, Polynomial) or c.shape != (P, M - 1):
            v.fail("shape", cls, f"{DELTA_NAME[w]} has type {type(obj).__name__} / shape {c.shape}, expected Polynomial ({P},{M - 1})")
            return v
        if tuple(obj.basis) != ("Array", "Cardinal") or tuple(obj.direction) != ("Array", "z"):
            v.fail("shape", cls, f"{DELTA_NAME[w]} labelled {obj.basis} {obj.direction}")

    # ---- exact moment --------------------------------------------------------------------
    v.checked("moment-exact")
    exact = amp * (np.pi ** 2 * tz[0] * tp[0])
    _, got = get(D1, fam)
    err = np.abs(got - exact)
    # absolute floor: when the polynomial (almost) vanishes at the nodes, delta f itself is rounding
    # noise of the natural size of the family, amplitude * pi^2 * sum|c_k(Pz)| * sum|c_k(Pp)|
    natural = float(np.max(np.abs(amp))) * np.pi ** 2 * float(np.sum(np.abs(tz))) * float(np.sum(np.abs(tp)))
    tol = bnd1[fam] + KR * EPS * natural + 1e-300
    v.info["moment_err/bound"] = float(np.max(err / tol))
    v.info["exact_over_abs_sum"] = float(np.max(np.abs(exact)) / (np.max(bnd1[fam]) / (KR * EPS) + 1e-300))
    if not np.all(err <= tol):
        i = np.unravel_index(int(np.argmax(np.where(np.isnan(err), np.inf, err / tol))), err.shape)
        v.fail("moment-exact", cls, f"{DELTA_NAME[fam]}[particle {i[0]}, z {i[1]}] = {got[i]!r}, closed form "
               f"amplitude*pi^2*c0(Pz)*c0(Pp) = {exact[i]!r} (rounding bound {tol[i]:.2e})")

    # ---- linearity -------------------------------------------------------------------------
    v.checked("linearity")
    D2, cb2, ex2 = run(df2)
    D12, cb12, ex12 = run(a_ * df1 + b_ * df2)
    bnd2 = bound(df2, cb2, ex2)
    worst = 0.0
    for w in WEIGHTS:
        c1, c2, c12 = get(D1, w)[1], get(D2, w)[1], get(D12, w)[1]
        tol = 3 * (abs(a_) * bnd1[w] + abs(b_) * bnd2[w]) + 1e-300
        err = np.abs(c12 - (a_ * c1 + b_ * c2))
        worst = max(worst, float(np.max(err / tol)))
        if not np.all(err <= tol):
            i = np.unravel_index(int(np.argmax(np.where(np.isnan(err), np.inf, err / tol))), err.shape)
            v.fail("linearity", f"{DELTA_NAME[w]} basis={case['basisM'][:4]}/{case['basisN'][:4]}",
                   f"{DELTA_NAME[w]}(a df1 + b df2) = {c12[i]!r} but a D(df1) + b D(df2) = {(a_ * c1 + b_ * c2)[i]!r}")
            break
    v.info["linearity_err/bound"] = worst

    # ---- stress tensor ------------------------------------------------------------------------
    eom = EOM.__new__(EOM)
    eom.particles = particles
    vm = case["vmid"]
    g2 = 1.0 / (1.0 - vm * vm)
    idx = case["zindex"]
    dfc = a_ * df1 + b_ * df2
    p0 = E + vm * PZ
    p3 = PZ + vm * E
    dof = np.array([p["dof"] for p in case["particles"]], dtype=float)
    T30_dir = float(np.sum(dof * g2 * np.sum(meas * p3 * p0 * dfc, axis=(2, 3))[:, idx]))
    T33_dir = float(np.sum(dof * g2 * np.sum(meas * p3 * p3 * dfc, axis=(2, 3))[:, idx]))
    Aabs = abs_moments(np.abs(dfc))
    tolT = KR * EPS * g2 * float(np.sum(dof * (3 * Aabs["E2"] + 3 * Aabs["pz2"] + 4 * Aabs["Epz"]
                                                 + 2 * msq * Aabs["1"])[:, idx])) + 1e-300
    fpoint = fields.getFieldPoint(idx + 1)
    v.label("v:zero" if vm == 0 else "v:pos" if vm > 0 else "v:neg")

    Hm = harness_moments(dfc)

    def poly(c):
        return Polynomial(np.array(c), grid, ("Array", "Cardinal"), ("Array", "z"), (False, False))

    Hd = BoltzmannDeltas(Delta00=poly(Hm["1"]), Delta02=poly(Hm["pz2"]), Delta20=poly(Hm["E2"]), Delta11=poly(Hm["Epz"]))
    for sub, Dl, extra_tol in (("tmunu-formula", Hd, 0.0), ("tmunu-end2end", D12, None)):
        v.checked(sub)
        t30, t33 = eom.deltaToTmunu(idx, fpoint, vm, Dl)
        t30, t33 = float(np.asarray(t30)), float(np.asarray(t33))
        tol = tolT
        if extra_tol is None:
            b12 = bound(dfc, cb12, ex12)
            tol = tolT + g2 * float(np.sum(dof * (3 * b12["E2"] + 3 * b12["pz2"] + 4 * b12["Epz"] + 2 * msq * b12["1"])[:, idx]))
        r = max(abs(t30 - T30_dir), abs(t33 - T33_dir)) / tol
        v.info[f"{sub}_err/bound"] = float(r)
        if not abs(t30 - T30_dir) <= tol:
            v.fail(sub, "T30", f"T30 = {t30!r}, direct integral of p'^3 p'^0 df = {T30_dir!r} (bound {tol:.2e}, v = {vm})")
        if not abs(t33 - T33_dir) <= tol:
            v.fail(sub, "T33", f"T33 = {t33!r}, direct integral of p'^3 p'^3 df = {T33_dir!r} (bound {tol:.2e}, v = {vm})")
    rr = max(v.info.get("moment_err/bound", 0), v.info.get("linearity_err/bound", 0),
             v.info.get("tmunu-formula_err/bound", 0), v.info.get("tmunu-end2end_err/bound", 0))
    for k_, x_ in v.info.items():
        if k_.endswith("_err/bound") and x_ > 0.1:
            v.label("ratio>0.1:" + k_.split("_err")[0])
    v.label("err/bound:" + ("<0.01" if rr < 0.01 else "<0.1" if rr < 0.1 else "<1" if rr <= 1 else ">1"))
    return v
