"""C03 - the matched flow reaches the nucleation temperature ahead of the wall.

The oracle is vlib.refhydro: an independent integrator written in the similarity variable xi
(DOP853, rtol 1e-11), front located by mu(xi, v) xi = c_s^2(T), crossed with energy-flux conservation.

Sub-oracles (K = 10; rtol, atol are the tolerances given to the solver)
  shock-Tn       deflagration/hybrid matchings: the reference flow started at the returned (xi = vw,
                 v = mu(vw, v+), T+) arrives at rest at Tn' with |Tn' - Tn| <= K (atol + rtol Tn)
                 [ODE + front root] + |dTn'/dv+| K (atol + rtol v+) [the solver's root is in v+; slope
                 measured by the reference along the exact wall junctions] + Tn K (atol + rtol T+)/T+
  front-flux     EOS with constant sound speed ahead of the wall (bag, template): with plasma at rest at the
                 model's Tn ahead of the front, energy- AND momentum-flux mismatch at the front stay inside
                 the forward image of the shock-Tn bound
  detonation     detonations have T+ == Tn and v+ == vw exactly
  direct         solveHydroShock(vw, v+, T+) on triples drawn independently of any matching equals the
                 reference Tn' within K rtol kappa (kappa = 1 + |d ln Tn'/d ln xi_w| + |d ln Tn'/d ln T+|
                 measured by the reference) + K atol / Tn
  kappa-history  efficiencyFactor(vw) is repeated bit-for-bit (1e-12) on the same object after a wall of the other flow type
  kappa          efficiencyFactor(vw) at rtol = 1e-8 equals the kinetic-energy integral of the reference
                 profile started from the returned wall states (shock wave in front; rarefaction wave
                 behind hybrids and detonations): relative difference <= KAPPA_REL = 5e-3, and the difference does
                 not grow when going from rtol = 1e-6 to 1e-8 (two-level rule); cases with -0.1 <= vw - vJ <= 0.01
                 carry the class suffix /near-vJ
  tol-honoured   as in C02: a shock-Tn failure under the tightened setting (1e-9, 1e-12) that passes under
                 the default (1e-6, 1e-10)
"""
from __future__ import annotations

import math
import os

from hypothesis import strategies as st

from vlib import refhydro as R
from vlib import zoo_eos as Z
from vlib.core import Verdict

PROPERTY_ID = "C03"
ENGINE = "hypothesis @given; independent xi-integrator (scipy DOP853) as oracle"
RULE = (
    "Case kinds: (matching) EOS spec x tolerances x solver x velocity class with deflagration/hybrid mass "
    "increased; (shock) EOS x independent triple (vw, v+ as a fraction of min(vw, c_s^2/vw) with mass at "
    "the ends, T+/Tn in [0.5, 3]); (kappa) EOS x velocity class, efficiencyFactor at rtol 1e-8 and 1e-6. "
    "Non-trivial = a shock of finite strength: fluid speed at the wall v(xi_w) > 1e-4 and xi_sh - c_s > 1e-6 "
    "(matching/shock kinds), or a returned efficiency factor on a labelled branch (kappa kind); "
    "distinct by canonical JSON of the case."
)
BUDGET = {
    "quick": {"cases": 1500, "shrink": True, "time_cap_s": 900},
    "thorough": {"cases": 40000, "shrink": True, "time_cap_s": 3300},
}
K = 10.0
DEFAULT_TOL = (1e-6, 1e-10)
KAPPA_RTOL = 1e-8
KAPPA_REL = 5e-3
TOLERANCES = {
    "K": K,
    "shock_Tn": "K(atol+rtol Tn) + |dTn'/dv+| K(atol+rtol v+) + Tn K(atol+rtol T+)/T+",
    "direct": "K rtol (1 + |dlnTn'/dln xi_w| + |dlnTn'/dln T+|) + K atol/Tn",
    "kappa_rel": KAPPA_REL,
    "kappa_note": "two-level rule: started from the repo's own 1e-2 at rtol=1e-8 (tests/test_Hydrodynamics.py) and "
                  "tightened to ~7x the envelope measured on the unchanged tree away from vJ (max 6.6e-4 over 201 "
                  "generated cases, seed 11; near vJ the envelope is 1.4e-2, see class */near-vJ); plus "
                  "err(1e-8) <= 2 err(1e-6) + 1e-4",
    "reference": "DOP853 rtol 1e-11, atol_v 1e-15; validated against bag closed forms (python -m vlib.refhydro)",
}
ASSUMPTIONS = [
    "The front is located by mu(xi, v) xi = c_s^2(T) with T the temperature behind the front and crossed with "
    "energy-flux conservation only, as the property states; the momentum-flux condition is asserted only for "
    "EOS whose high-T phase has constant sound speed.",
    "When the flow decays below v = 1e-10 before the front (slow walls: the front is exponentially weak) the "
    "plasma counts as at rest there; the remaining change of T is added to first order.",
    "If v+ vw >= c_s^2(T+) the front sits at the wall (zero-length shock wave), the convention "
    "solveHydroShock uses as well.",
    "kappa is normalised with alpha_n = (e_s - e_b - (p_s - p_b)/c_b^2)/(3 w_s) at Tn.",
]
EXHAUSTIVE_SUBDOMAINS = []

VCLASSES = ["vmin+", "defl", "defl", "defl", "cb-", "cb+", "hyb", "hyb", "hyb", "vJ-", "vJ-", "vJ+", "det"]
KAPPA_VCLASSES = ["vmin+", "defl", "defl", "cb+", "hyb", "hyb", "vJ-", "vJ+", "det", "det"]
FAMILY_WEIGHTS = {"quick": {"bag": 6, "template": 8, "twostep": 8, "cubic": 6, "traced": 1},
                  "thorough": {"bag": 3, "template": 4, "twostep": 4, "cubic": 3, "traced": 2}}
KAPPA_FAMILY_WEIGHTS = {"bag": 3, "template": 4, "twostep": 4, "cubic": 3}


# ---------------------------------------------------------------------------------------------
# strategy
# ---------------------------------------------------------------------------------------------
@st.composite
def st_matching(draw, tier):
    spec = draw(Z.st_eos(families=Z.FAMILIES, weights=FAMILY_WEIGHTS[tier],
                         twostep_variants=("plain", "plain", "strongT")))
    solver = "general"
    if spec["family"] in ("bag", "template") and draw(st.integers(0, 4)) == 0:
        solver = "template"
    tol = draw(Z.st_tolerances())
    if spec["family"] == "traced" and tier == "quick":
        tol = [1e-6, 1e-10]
    case = {"kind": "matching", "eos": spec, "tol": tol, "solver": solver,
            "vclass": draw(st.sampled_from(VCLASSES)), "u": draw(st.floats(0.0, 1.0))}
    if draw(st.integers(0, 3)) == 0:
        case["decoy"] = {"alN": round(10.0 ** draw(st.floats(-2.0, -0.5)), 4), "psiN": round(draw(st.floats(0.6, 0.95)), 3)}
    return case


@st.composite
def st_shock(draw):
    spec = draw(Z.st_eos(families=Z.ANALYTIC_FAMILIES))
    vw = draw(st.one_of(st.floats(0.02, 0.98), st.sampled_from([0.05, 0.3, 0.5, 0.57, 0.6, 0.7, 0.9])))
    fmode = draw(st.sampled_from(["mid", "mid", "mid", "low", "high", "beyond", "equal"]))
    if fmode == "mid":
        f = draw(st.floats(0.05, 0.95))
    elif fmode == "low":
        f = 10.0 ** draw(st.floats(-3.0, -1.3))
    elif fmode == "high":
        f = 1.0 - 10.0 ** draw(st.floats(-4.0, -1.3))
    elif fmode == "beyond":
        f = 1.0 + draw(st.floats(0.0, 0.3))   # front at the wall (only possible for vw > c_s)
    else:
        f = 1.0
    tp = 10.0 ** draw(st.floats(-0.3, 0.5))
    return {"kind": "shock", "eos": spec, "tol": draw(Z.st_tolerances()), "vw": vw, "fmode": fmode, "f": f,
            "tp_ratio": tp}


@st.composite
def st_kappa(draw):
    spec = draw(Z.st_eos(families=Z.ANALYTIC_FAMILIES, weights=KAPPA_FAMILY_WEIGHTS))
    solver = "general"
    if spec["family"] in ("bag", "template") and draw(st.integers(0, 3)) == 0:
        solver = "template"
    case = {"kind": "kappa", "eos": spec, "solver": solver, "vclass": draw(st.sampled_from(KAPPA_VCLASSES)),
            "u": draw(st.floats(0.0, 1.0))}
    if draw(st.booleans()):
        # call history on the same object: another wall velocity (of the other flow type) in between
        case["hist_u"] = draw(st.floats(0.0, 1.0))
    return case


def strategy(tier):
    return st.one_of(st_matching(tier), st_matching(tier), st_matching(tier), st_shock(), st_shock(), st_kappa())


# ---------------------------------------------------------------------------------------------
# helpers
# ---------------------------------------------------------------------------------------------
def _is_num(x):
    try:
        return x is not None and math.isfinite(float(x))
    except (TypeError, ValueError):
        return False


def _build(case, v, rtol, atol, solver="general"):
    from WallGo import WallGoError

    spec = case["eos"]
    try:
        th, meta = Z.build(spec)
    except Z.ZooError as exc:
        if spec["family"] != "traced":
            raise
        v.label("zoo:traced-unhealthy")
        v.discarded("zoo:traced-unhealthy")
        return None
    eos = R.Eos(th, meta["T_valid"][0])
    try:
        hyd = Z.build_hydro(th, rtol, atol) if solver == "general" else Z.build_template(th, rtol, atol)
    except WallGoError as exc:
        v.label("outcome:init-WallGoError")
        v.info["init_error"] = str(exc)[:200]
        return None
    return th, meta, eos, hyd


def _landmarks(th, meta, hyd, solver):
    if solver == "general":
        return hyd.vMin, math.sqrt(float(th.csqLowT(meta["Tn"]))), hyd.vJ
    return hyd.vMin, hyd.cb, hyd.vJ


def _nontrivial_shock(sh, eos):
    if sh.kind != "shock":
        return False
    return sh.v0 > 1e-4 and sh.xi_sh - math.sqrt(eos.cs2(sh.T_sh)) > 1e-6


# ---------------------------------------------------------------------------------------------
# kind: matching
# ---------------------------------------------------------------------------------------------
def tn_bound(eos, Tn, vw, vp, vm, Tp, Tm, branch, rtol, atol):
    """Allowed |Tn' - Tn| for a returned matching (shared with C02): see refhydro.shock_backward_bound."""
    return R.shock_backward_bound(eos, Tn, vw, vp, vm, Tp, Tm, branch, rtol, atol, K)


def _run_decoy(case, Tn, vw, rtol, atol):
    """Another Hydrodynamics object for a different equation of state, same nucleation temperature
    and wall velocity, used in the same process just before the object under test (as in a
    parameter scan): results must not depend on what other objects computed."""
    d = case.get("decoy")
    if not d:
        return
    try:
        th2, _ = Z.build({"family": "template", "Tn": Tn, "alN": float(d["alN"]), "psiN": float(d["psiN"]),
                            "cs2": 0.26, "cb2": 0.23, "g": 1.0})
        h2 = Z.build_hydro(th2, rtol, atol)
        h2.findMatching(vw)
        h2.findHydroBoundaries(vw)
    except Exception:  # noqa: BLE001  (the decoy's own outcome is irrelevant)
        pass


def check_matching(case, v: Verdict):
    from WallGo import WallGoError

    rtol, atol = (float(x) for x in case["tol"])
    solver = case["solver"]
    fam = case["eos"]["family"]
    v.label("kind:matching", f"family:{fam}", f"solver:{solver}", f"tol:{rtol:g}", f"vclass:{case['vclass']}")
    built = _build(case, v, rtol, atol, solver)
    if built is None:
        return
    th, meta, eos, hyd = built
    Tn = meta["Tn"]
    fallback = {"n": 0}
    if solver == "general":
        orig = hyd.template.findMatching

        def counted(vwT, _orig=orig):
            fallback["n"] += 1
            return _orig(vwT)

        hyd.template.findMatching = counted
    vmin, cb, vJ = _landmarks(th, meta, hyd, solver)
    vw = Z.velocity(case["vclass"], case["u"], vmin, cb, vJ)
    v.info.update(vw=vw, vMin=vmin, cb=cb, vJ=vJ, alN=meta["alN"])
    if case.get("decoy") and solver == "general":
        v.label("decoy-object-first")
        _run_decoy(case, Tn, vw, rtol, atol)
    try:
        res = hyd.findMatching(vw)
    except WallGoError as exc:
        v.label("outcome:WallGoError")
        v.info["error"] = str(exc)[:200]
        return
    if any(x is None for x in res):
        v.label("outcome:none")
        return
    if not all(_is_num(x) for x in res):
        v.label("outcome:non-finite")  # C02 reports it
        return
    vp, vm, Tp, Tm = (float(x) for x in res)
    if not (0.0 < vp < 1.0 and 0.0 < vm < 1.0 and Tp > 0.0 and Tm > 0.0):
        v.label("outcome:degenerate-matching")
        return
    branch = Z.branch_of(vw, vp, vm)
    bucket = Z.speed_bucket(vw)
    took_fallback = fallback["n"] > 0
    v.label("outcome:matching", f"branch:{branch}", f"speed:{bucket}")
    if took_fallback:
        v.label("template-fallback-taken")
    unconv = solver == "general" and branch != "detonation" and not hyd.success
    at_vmin, at_vj = vw == max(vmin, 1e-3), vw == vJ
    slow_vp = bucket == "vw>=0.1" and branch != "detonation" and vp < 0.03
    cls = (f"{solver}/{fam}/{branch}/{bucket}" + ("/slow-v+" if slow_vp else "")
           + ("/at-vMin" if at_vmin else "") + ("/at-vJ" if at_vj else "")
           + ("/fallback" if took_fallback else "") + ("/unconverged-flag" if unconv else ""))
    v.info["matching"] = [vp, vm, Tp, Tm]

    if branch == "detonation":
        v.checked("detonation")
        v.nontrivial = True
        if Tp != Tn or vp != vw:
            v.fail("detonation", cls,
                   f"detonation must leave the plasma ahead undisturbed: T+/Tn - 1 = {Tp / Tn - 1:.3e}, "
                   f"v+ - vw = {vp - vw:.3e} (vw={vw:.8g})", vw=vw, matching=[vp, vm, Tp, Tm])
        return

    # ---- deflagration / hybrid: integrate the reference flow from the returned state ----------------
    if vp > vw:
        v.fail("shock-Tn", cls, f"v+ = {vp:.8g} > vw = {vw:.8g}: fluid in front of the wall flows towards it")
        return
    sh = R.integrate_shock(eos, vw, vp, Tp, want_kappa=False)
    if not sh.ok:
        v.label(f"ref:{sh.reason}")
        v.discarded(f"reference:shock:{str(sh.reason).split(':')[0]}")
        return
    v.label(f"front:{sh.kind}")
    v.nontrivial = _nontrivial_shock(sh, eos)
    try:
        bound, slope = tn_bound(eos, Tn, vw, vp, vm, Tp, Tm, branch, rtol, atol)
    except R.RefFailure as exc:
        v.label(f"ref:{exc}")
        v.discarded(f"reference:{str(exc).split(':')[0]}")
        return
    v.checked("shock-Tn")
    err = sh.Tn_out - Tn
    ratio = abs(err) / bound
    v.info.update(Tn_out_rel_err=err / Tn, tn_bound_rel=bound / Tn, tn_ratio=ratio, dTn_dvp=slope,
                  xi_sh=sh.xi_sh, v_wall=sh.v0, front_kind=sh.kind)
    failed = False
    if not ratio <= 1.0:
        failed = True
        sub, c = "shock-Tn", cls
        if rtol < DEFAULT_TOL[0]:
            b_def = (K * (DEFAULT_TOL[1] + DEFAULT_TOL[0] * Tn) + abs(slope) * K * (DEFAULT_TOL[1] + DEFAULT_TOL[0] * vp)
                     + Tn * K * (DEFAULT_TOL[1] + DEFAULT_TOL[0] * Tp) / Tp)
            if abs(err) <= b_def:
                sub, c = "tol-honoured", f"{solver}/{branch}/shock"
        if sub == "shock-Tn" and solver == "general":
            # classification only: is the returned point a root of the solver's OWN shooting function?
            try:
                own = float(hyd.solveHydroShock(vw, vp, Tp)) - Tn
                v.info["own_shock_residual_rel"] = own / Tn
                if abs(own) > 20.0 * (atol + rtol * Tn):
                    c += "/spurious-root"
                    v.label("spurious-root")
            except (WallGoError, ValueError):
                pass
        v.fail(sub, c,
               f"flow from the returned (v+, T+) reaches rest at Tn' = Tn (1 {err / Tn:+.3e}); allowed "
               f"{bound / Tn:.2e} ({ratio:.3g} x) at vw={vw:.8g}, v+={vp:.8g}, T+={Tp:.8g}, front {sh.kind} at "
               f"xi={sh.xi_sh:.6g} (rtol={rtol:g})",
               vw=vw, matching=[vp, vm, Tp, Tm], Tn_out=sh.Tn_out, Tn=Tn, slope=slope)
    # ---- both flux conditions at the front with the model's Tn ahead (constant c_s ahead) ---------
    if meta["const_cs"] and not failed:
        v.checked("front-flux")
        e0, m0 = R.front_residuals(eos, sh, Tn)
        ea, ma = R.front_residuals(eos, sh, Tn + bound)
        eb, mb = R.front_residuals(eos, sh, Tn - bound)
        # forward image of the Tn window (the residuals vanish for the exact Tn' inside it) + momentum
        # identity of the reference itself
        be = 1.5 * max(abs(ea - e0), abs(eb - e0)) + 1e-12
        bm = 1.5 * max(abs(ma - m0), abs(mb - m0)) + 1e-11
        v.info.update(front_energy_res=e0, front_momentum_res=m0, front_ratio=max(abs(e0) / be, abs(m0) / bm),
                      ref_momentum_identity=sh.mom_res)
        if abs(e0) > be or abs(m0) > bm:
            v.fail("front-flux", cls,
                   f"flux mismatch at the front with Tn ahead: energy {e0:.3e} (allowed {be:.2e}), momentum "
                   f"{m0:.3e} (allowed {bm:.2e}) at vw={vw:.8g}", vw=vw, matching=[vp, vm, Tp, Tm])


# ---------------------------------------------------------------------------------------------
# kind: shock (direct solveHydroShock on independent triples)
# ---------------------------------------------------------------------------------------------
def check_shock(case, v: Verdict):
    from WallGo import WallGoError

    rtol, atol = (float(x) for x in case["tol"])
    fam = case["eos"]["family"]
    v.label("kind:shock", f"family:{fam}", f"tol:{rtol:g}", f"vp-mode:{case['fmode']}")
    built = _build(case, v, rtol, atol)
    if built is None:
        return
    th, meta, eos, hyd = built
    Tn = meta["Tn"]
    vw = float(case["vw"])
    Tp = Tn * float(case["tp_ratio"])
    lo_valid, hi_valid = meta["T_valid"]
    Tp = min(max(Tp, 1.05 * lo_valid), 0.95 * hi_valid)
    cs2 = eos.cs2(Tp)
    vp = min(float(case["f"]) * min(vw, cs2 / vw), vw)
    if case["fmode"] == "equal":
        vp = vw
    v.info.update(vw=vw, vp=vp, Tp=Tp, Tn=Tn)
    cls = f"direct/{fam}/" + ("vw<cs" if vw * vw < cs2 else "vw>cs")
    sh = R.integrate_shock(eos, vw, vp, Tp, want_kappa=False)
    if not sh.ok:
        v.label(f"ref:{sh.reason}")
        v.discarded(f"reference:shock:{str(sh.reason).split(':')[0]}")
        return
    v.label(f"front:{sh.kind}")
    cls += f"/{sh.kind}"
    if sh.Tn_out < max(0.011 * Tn, 1.02 * lo_valid):
        # solveHydroShock brackets Tn in [TMinHydro = 0.01 Tnucl, T_sh]: below that it has no contract
        v.label("outside-bracket-contract")
        return
    try:
        got = float(hyd.solveHydroShock(vw, vp, Tp))
    except WallGoError as exc:
        v.label("outcome:WallGoError")
        v.info["error"] = str(exc)[:200]
        return
    except ValueError as exc:
        # scipy's secant fallback is started with x0 = Tnucl, x1 = T_sh: if T+ == Tnucl bit for bit and
        # the bracket search failed it raises "x1 and x0 must be different".  Not part of C03's statement
        # (the property is about returned values): labelled and reported, not a violation.
        if "x1 and x0 must be different" in str(exc) and Tp == Tn:
            v.label("outcome:ValueError-secant-degenerate")
            return
        raise
    v.label("outcome:value")
    v.nontrivial = _nontrivial_shock(sh, eos)
    # conditioning: sensitivity of Tn' to the starting point of the integration
    kap = 2.0
    if sh.kind == "shock":
        d = 1e-6
        vw2 = vw * (1 + d)
        if vw2 < 1:
            vp2 = R.mu(vw2, sh.v0)  # same fluid velocity at the (shifted) wall
            sh2 = R.integrate_shock(eos, vw2, vp2, Tp, want_kappa=False)
            if sh2.ok and sh2.kind == "shock":
                kap = 2.0 + abs(math.log(sh2.Tn_out / sh.Tn_out)) / d
    bound = K * rtol * kap + K * atol / sh.Tn_out
    rel = got / sh.Tn_out - 1.0
    v.checked("direct")
    v.info.update(direct_rel_err=rel, direct_bound=bound, direct_ratio=abs(rel) / bound, kappa_cond=kap,
                  xi_sh=sh.xi_sh, v_wall=sh.v0)
    if not abs(rel) <= bound:
        sub, c = "direct", cls
        if rtol < DEFAULT_TOL[0] and abs(rel) <= K * DEFAULT_TOL[0] * kap + K * DEFAULT_TOL[1] / sh.Tn_out:
            sub, c = "tol-honoured", "direct/shock"
        v.fail(sub, c,
               f"solveHydroShock(vw={vw:.8g}, v+={vp:.8g}, T+={Tp:.8g}) = {got:.10g}, reference {sh.Tn_out:.10g} "
               f"(relative {rel:+.3e}, allowed {bound:.2e}, front {sh.kind} at xi={sh.xi_sh:.6g}, rtol={rtol:g})",
               vw=vw, vp=vp, Tp=Tp, got=got, reference=sh.Tn_out)


# ---------------------------------------------------------------------------------------------
# kind: kappa
# ---------------------------------------------------------------------------------------------
def check_kappa(case, v: Verdict):
    from WallGo import WallGoError

    solver = case["solver"]
    fam = case["eos"]["family"]
    v.label("kind:kappa", f"family:{fam}", f"solver:{solver}", f"vclass:{case['vclass']}")
    out = {}
    for rtol in (KAPPA_RTOL, 1e-6):
        built = _build(case, v, rtol, 1e-10, solver)
        if built is None:
            return
        th, meta, eos, hyd = built
        if rtol == KAPPA_RTOL:
            vmin, cb, vJ = _landmarks(th, meta, hyd, solver)
            vw = Z.velocity(case["vclass"], case["u"], vmin, cb, vJ)
        try:
            res = hyd.findMatching(vw)
            if any(x is None for x in res) or not all(_is_num(x) for x in res):
                v.label("outcome:none")
                return
            if not (0.0 < float(res[0]) < 1.0 and 0.0 < float(res[1]) < 1.0 and float(res[2]) > 0.0 and float(res[3]) > 0.0):
                # exactly at the template model's v_min the matching degenerates (v+ = 0, T- = 0) and
                # efficiencyFactor then integrates a rarefaction wave with zero enthalpy and never returns
                v.label("outcome:degenerate-matching")
                return
            kap = float(hyd.efficiencyFactor(vw))
        except WallGoError as exc:
            v.label("outcome:WallGoError")
            v.info["error"] = str(exc)[:200]
            return
        out[rtol] = (kap, [float(x) for x in res], eos, meta, hyd)
        if rtol == KAPPA_RTOL and case.get("hist_u") is not None:
            # the efficiency factor is a function of the wall velocity, not of what the object computed before:
            # evaluate a wall of the other flow type (deflagration/hybrid <-> detonation) and then vw again
            if vw < vJ:
                vother = vJ + 1e-3 + float(case["hist_u"]) * max(0.0, 0.99 - vJ - 1e-3)
            else:
                lo_ = max(vmin, 0.05)
                vother = lo_ + float(case["hist_u"]) * max(0.0, min(cb, vJ) - 1e-3 - lo_)
            try:
                ro = hyd.findMatching(vother)
                if any(x is None for x in ro) or not all(_is_num(x) for x in ro) or not (
                        0.0 < float(ro[0]) < 1.0 and 0.0 < float(ro[1]) < 1.0 and float(ro[2]) > 0.0 and float(ro[3]) > 0.0):
                    kother = None    # no matching at the other velocity (e.g. beyond the template's range): no history
                else:
                    kother = float(hyd.efficiencyFactor(vother))
                    kagain = float(hyd.efficiencyFactor(vw))
            except WallGoError:
                v.label("kappa-history:WallGoError")
                kother = None
            if kother is None:
                v.label("kappa-history:no-other-matching")
            else:
                v.checked("kappa-history")
                v.label("kappa-history")
                v.info.update(kappa_other=kother, v_other=vother)
                if not (kagain == kap or abs(kagain - kap) <= 1e-12 * abs(kap)):
                    v.fail("kappa-history", f"{solver}/{fam}",
                           f"efficiencyFactor({vw:.8g}) = {kap!r} on a new object but {kagain!r} on the same object after "
                           f"efficiencyFactor({vother:.8g}) = {kother!r}", vw=vw, v_other=vother)
                    return
    kap, (vp, vm, Tp, Tm), eos, meta, hyd = out[KAPPA_RTOL]
    Tn = meta["Tn"]
    if not (0.0 < vp < 1.0 and 0.0 < vm < 1.0 and Tp > 0.0 and Tm > 0.0):
        v.label("outcome:degenerate-matching")
        return
    branch = Z.branch_of(vw, vp, vm)
    bucket = Z.speed_bucket(vw)
    v.label("outcome:value", f"branch:{branch}", f"speed:{bucket}")
    near_vj = -0.1 <= vw - vJ <= 0.01
    if near_vj:
        v.label("near-vJ")
    cls = f"{solver}/{fam}/{branch}/{bucket}" + ("/near-vJ" if near_vj else "") + ("/at-vJ" if vw == vJ else "")
    try:
        kref, ksw, krw = R.kappa(eos, Tn, vw, vp, vm, Tp, Tm)
        vp6, vm6, Tp6, Tm6 = out[1e-6][1]
        kref6 = R.kappa(eos, Tn, vw, vp6, vm6, Tp6, Tm6)[0]
    except R.RefFailure as exc:
        v.label(f"ref:{exc}")
        v.discarded(f"reference:{str(exc).split(':')[0]}")
        return
    v.checked("kappa")
    v.nontrivial = True
    if not kref > 0:
        v.label("kappa-ref-zero")
        v.nontrivial = False
        return
    rel = kap / kref - 1.0
    rel6 = (out[1e-6][0] / kref6 - 1.0) if kref6 > 0 else float("inf")  # inf: two-level rule not applicable
    v.info.update(vw=vw, kappa=kap, kappa_ref=kref, kappa_shock=ksw, kappa_rarefaction=krw, kappa_rel_err=rel,
                  kappa_rel_err_rtol1e6=rel6, matching=[vp, vm, Tp, Tm])
    v.label("has-rarefaction" if krw > 0 else "no-rarefaction", "has-shock" if ksw > 0 else "no-shock")
    if not abs(rel) <= KAPPA_REL:
        v.fail("kappa", cls,
               f"efficiencyFactor({vw:.8g}) = {kap:.8g} at rtol=1e-8, kinetic-energy integral of the same flow "
               f"profile = {kref:.8g} (shock {ksw:.6g} + rarefaction {krw:.6g}); relative {rel:+.3e} > {KAPPA_REL:g}",
               vw=vw, kappa=kap, kappa_ref=kref, matching=[vp, vm, Tp, Tm])
    elif abs(rel) > 2.0 * abs(rel6) + 1e-4:
        v.fail("kappa", cls + "/two-level",
               f"efficiencyFactor error grows when the tolerance is tightened: {rel6:+.3e} at rtol=1e-6, "
               f"{rel:+.3e} at rtol=1e-8 (vw={vw:.8g})", vw=vw, kappa=kap, kappa_ref=kref)


def _check_case(case) -> Verdict:
    v = Verdict()
    kind = case["kind"]
    if kind == "matching":
        check_matching(case, v)
    elif kind == "shock":
        check_shock(case, v)
    elif kind == "kappa":
        check_kappa(case, v)
    else:
        raise ValueError(kind)
    return v


WATCHDOG_S = int(os.environ.get("VERIF_WATCHDOG_S", "120"))  # per-case wall-clock guard: a solver that does not return is reported as a discard, never a violation


class _CaseTimeout(Exception):
    pass


def _with_watchdog(fun, case):
    """Run fun(case) under a SIGALRM guard (main thread only; no-op elsewhere)."""
    import signal
    import threading

    if threading.current_thread() is not threading.main_thread() or not hasattr(signal, "SIGALRM"):
        return fun(case)

    def handler(signum, frame):
        raise _CaseTimeout()

    old = signal.signal(signal.SIGALRM, handler)
    signal.alarm(WATCHDOG_S)
    try:
        return fun(case)
    except _CaseTimeout:
        v = Verdict()
        v.label("watchdog-timeout")
        v.info["watchdog_s"] = WATCHDOG_S
        dump = os.environ.get("VERIF_WATCHDOG_DUMP")  # debugging aid: keep the case that did not return
        if dump:
            import json

            from vlib.core import case_hash, jsonable
            os.makedirs(dump, exist_ok=True)
            with open(os.path.join(dump, f"{PROPERTY_ID}_{case_hash(case)}.json"), "w") as fh:
                json.dump(jsonable(case), fh, indent=1, sort_keys=True)
        return v.discarded("watchdog-timeout")
    finally:
        signal.alarm(0)
        signal.signal(signal.SIGALRM, old)


def check_case(case) -> Verdict:
    return _with_watchdog(_check_case, case)
